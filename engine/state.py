"""Abstract state: locations -> values, linear facts, known bits, partition key.
Place reads/writes with lazy materialisation of symbolic values by type."""
from engine.lin import Lin, entails, interval
from engine.values import (Arr, Bool, Cont, Enum, Flt, Fn, Int, Ref, Slice, Struct, Top, UNIT, Unit, int_sym, ty_range)


class Dead(Exception):
    """The current state is infeasible."""


class State:
    __slots__ = ("locs", "facts", "bits", "key", "excl", "notes")

    def __init__(self):
        self.locs = {}
        self.facts = frozenset()
        self.bits = {}  # sym -> {bit: 0/1}
        self.key = ()
        self.excl = {}  # sym -> frozenset of excluded values
        self.notes = ()

    def fork(self):
        s = State()
        s.locs = dict(self.locs)
        s.facts = self.facts
        s.bits = {k: dict(v) for k, v in self.bits.items()}
        s.key = self.key
        s.excl = dict(self.excl)
        s.notes = self.notes
        return s

    def add_fact(self, e, eng):
        """Add `e >= 0`; raises Dead if it contradicts what is known."""
        if e.is_const():
            if e.c < 0:
                raise Dead()
            return
        if entails(e.neg().sub(1), self.facts, eng.bounds):
            raise Dead()
        if not entails(e, self.facts, eng.bounds, depth=1):
            self.facts = self.facts | {e}

    def holds(self, e, eng, depth=3):
        return entails(e, self.facts, eng.bounds, depth)

    def set_bit(self, sym, i, v):
        d = self.bits.setdefault(sym, {})
        if i in d and d[i] != v:
            raise Dead()
        d[i] = v


class Memory:
    """Helpers operating on a State with the engine's type context."""

    def __init__(self, eng):
        self.eng = eng
        self.T = eng.T
        self._extra = []

    # ---------------------------------------------------------- materialisation
    def top(self, ti, name):
        """Symbolic value of type ti with deterministic name (shallow: nested parts stay Top)."""
        T = self.T
        t = T.t(ti)
        k = t["k"]
        if k in ("uint", "int"):
            w, sg = T.int_info(ti)
            lo, hi = ty_range(w, sg)
            if t.get("ptr") and not sg:
                hi = min(hi, self.eng.usize_max)
            self.eng.declare(name, lo, hi)
            return int_sym(name, w, sg)
        if k == "bool":
            return Bool(("sym", name))
        if k == "char":
            self.eng.declare(name, 0, 0x10FFFF)
            return int_sym(name, 32, False)
        if k == "float":
            return Flt(("sym", name), t["bits"])
        if k == "tuple":
            if not t["of"]:
                return UNIT
            return Struct(ti, tuple(Top(x, "%s.%d" % (name, i)) for i, x in enumerate(t["of"])))
        if k == "adt":
            a = T.adt(ti)
            if a and "variants" in a:
                if a["kind"] == "enum":
                    vs = []
                    for vi in range(len(a["variants"])):
                        fs = T.variant_fields(ti, vi)
                        vn = a["variants"][vi]["name"]
                        vs.append((vi, tuple(Top(ft, "%s.%s.%s" % (name, vn, fn)) for fn, ft in fs)))
                    return Enum(ti, tuple(vs), name)
                if a["kind"] == "struct":
                    fs = T.variant_fields(ti, 0)
                    return Struct(ti, tuple(Top(ft, "%s.%s" % (name, fn)) for fn, ft in fs))
            kind = self.container_kind(ti)
            if kind:
                ln = "len(%s)" % name
                self.eng.declare(ln, 0, self.eng.len_max)
                self.eng.len_syms.add(ln)
                elem = None
                targs = [x for x in t["args"] if isinstance(x, int)]
                if kind == "vec" and targs:
                    elem = Top(targs[0], name + "[]")
                return Cont(kind, name, Lin.sym(ln), elem, None, ti)
            return Top(ti, name)
        if k in ("ref", "ptr"):
            to = T.t(t["to"])
            if to["k"] in ("slice", "str"):
                ln = "len(%s)" % name
                self.eng.declare(ln, 0, self.eng.len_max)
                self.eng.len_syms.add(ln)
                elem = None
                if to["k"] == "slice":
                    et = T.t(to["of"])
                    if not (et["k"] == "uint" and et["bits"] == 8):
                        elem = Top(to["of"], name + "[]")
                return Slice(name, Lin.const(0), Lin.sym(ln), elem)
            # pointer to a fresh symbolic object
            loc = "obj:" + name
            return ("NEWOBJ", loc, Top(t["to"], "*" + name if not name.startswith("*") else name), t.get("mut", False))
        if k == "array":
            n = t.get("len")
            if n is not None and n <= 32:
                return Arr(ti, tuple(Top(t["of"], "%s[%d]" % (name, i)) for i in range(n)))
            return Top(ti, name)
        return Top(ti, name)

    def container_kind(self, ti):
        t = self.T.t(ti)
        if t["k"] != "adt":
            return None
        p = t["path"]
        if p in ("std::vec::Vec", "alloc::vec::Vec"):
            return "vec"
        if p in ("std::string::String", "alloc::string::String"):
            return "string"
        if p == "bytes::BytesMut":
            return "bytesmut"
        return None

    def force(self, st, v):
        """Materialise a Top one level; allocates symbolic pointees in st."""
        if isinstance(v, Top):
            m = self.top(v.ty, v.name)
            if isinstance(m, tuple) and m and m[0] == "NEWOBJ":
                _, loc, inner, mut = m
                if loc not in st.locs:
                    st.locs[loc] = inner
                return Ref(loc, (), mut)
            return m
        return v

    # ---------------------------------------------------------- place access
    def resolve(self, st, frame, place):
        """Resolve a MIR place to (loc, path) following derefs.  path elements:
        ('f', i) field, ('v', idx) downcast, ('i', Lin or None) index."""
        loc = (frame.fid, place["l"])
        path = ()
        for e in place["p"]:
            if e == "*":
                v = self.read_path(st, loc, path)
                v = self.force_at(st, loc, path, v)
                if isinstance(v, Ref):
                    loc, path = v.loc, v.path
                elif isinstance(v, (Slice, Cont)):
                    # deref of a fat pointer / Box-like: stay on the value, mark
                    path = path + (("deref",),)
                else:
                    path = path + (("deref",),)
            elif isinstance(e, dict):
                if "f" in e:
                    path = path + (("f", e["f"]),)
                elif "d" in e:
                    path = path + (("v", e["d"]),)
                elif "i" in e:
                    iv = st.locs.get((frame.fid, e["i"]))
                    path = path + (("i", iv.lin if isinstance(iv, Int) else None),)
                elif "ci" in e:
                    path = path + (("i", Lin.const(e["ci"]) if not e["fe"] else None),)
                else:
                    path = path + (("?",),)
            else:
                path = path + (("?",),)
        return loc, path

    def force_at(self, st, loc, path, v):
        if isinstance(v, Top):
            nv = self.force(st, v)
            if nv is not v:
                self.write_path(st, loc, path, nv)
            return nv
        return v

    def read_path(self, st, loc, path):
        v = st.locs.get(loc)
        if v is None:
            return None
        cur_path = ()
        for el in path:
            if isinstance(v, Top):
                nv = self.force(st, v)
                if nv is not v:
                    self.write_path(st, loc, cur_path, nv)
                v = nv
            v = self.project(st, v, el)
            cur_path = cur_path + (el,)
            if v is None:
                return None
        return v

    def project(self, st, v, el):
        k = el[0]
        if k == "f":
            i = el[1]
            if isinstance(v, Struct):
                return v.fields[i] if i < len(v.fields) else None
            if isinstance(v, Enum):
                # field of the single possible variant (after a downcast)
                if len(v.variants) == 1:
                    fs = v.variants[0][1]
                    return fs[i] if i < len(fs) else None
                return None
            if isinstance(v, Arr):
                return None
            return None
        if k == "v":
            if isinstance(v, Enum):
                for vi, fs in v.variants:
                    if vi == el[1]:
                        return Enum(v.ty, ((vi, fs),), v.name)
                return None
            return None
        if k == "i":
            if isinstance(v, Arr) and el[1] is not None and el[1].is_const():
                i = el[1].c
                return v.elems[i] if 0 <= i < len(v.elems) else None
            if isinstance(v, Slice) and v.elem is None and isinstance(v.base, str) and el[1] is not None and not v.base.startswith("const:"):
                # a byte of a named byte sequence: the same name the nom / byteorder contracts give a one-byte read
                nm_ = "rd[%s@%s:1:1]" % (v.base, v.off.add(el[1]))
                self.eng.rd_syms.setdefault(nm_, (v.base, v.off.add(el[1]), 1, "1"))
                return self.eng.named_int(nm_, 8, False)
            if isinstance(v, (Slice, Cont)):
                return v.elem if v.elem is not None else None
            return None
        if k == "deref":
            return v
        return None

    def write_path(self, st, loc, path, nv):
        if not path:
            st.locs[loc] = nv
            return
        root = st.locs.get(loc)
        st.locs[loc] = self._upd(st, root, path, nv)

    def _upd(self, st, v, path, nv):
        if not path:
            return nv
        el = path[0]
        if isinstance(v, Top):
            v = self.force(st, v)
        k = el[0]
        if k == "f":
            i = el[1]
            if isinstance(v, Struct):
                fs = list(v.fields)
                if i < len(fs):
                    fs[i] = self._upd(st, fs[i], path[1:], nv)
                return Struct(v.ty, tuple(fs))
            if isinstance(v, Enum) and len(v.variants) == 1:
                vi, fs = v.variants[0]
                fs = list(fs)
                if i < len(fs):
                    fs[i] = self._upd(st, fs[i], path[1:], nv)
                return Enum(v.ty, ((vi, tuple(fs)),), v.name)
            return self.havoc_like(v)
        if k == "v":
            if isinstance(v, Enum):
                vs = []
                for vi, fs in v.variants:
                    if vi == el[1]:
                        sub = self._upd(st, Enum(v.ty, ((vi, fs),), v.name), path[1:], nv)
                        if isinstance(sub, Enum) and len(sub.variants) == 1:
                            vs.append(sub.variants[0])
                        else:
                            vs.append((vi, fs))
                    # writing through a downcast: the other variants are impossible here
                return Enum(v.ty, tuple(vs), v.name) if vs else self.havoc_like(v)
            return self.havoc_like(v)
        if k == "i":
            if isinstance(v, Arr) and el[1] is not None and el[1].is_const() and 0 <= el[1].c < len(v.elems):
                es = list(v.elems)
                es[el[1].c] = self._upd(st, es[el[1].c], path[1:], nv)
                return Arr(v.ty, tuple(es))
            if isinstance(v, Arr):
                return Arr(v.ty, tuple(self.havoc_like(e) for e in v.elems))
            return v
        if k == "deref":
            return self._upd(st, v, path[1:], nv)
        return self.havoc_like(v)

    def havoc_like(self, v):
        self.eng.hv += 1
        if isinstance(v, Int):
            n = "hv%d" % self.eng.hv
            lo, hi = ty_range(v.w, v.signed)
            self.eng.declare(n, lo, hi)
            return int_sym(n, v.w, v.signed)
        if isinstance(v, (Struct, Enum, Arr, Cont)):
            return Top(v.ty, "hv%d" % self.eng.hv)
        if isinstance(v, Top):
            return Top(v.ty, "hv%d" % self.eng.hv)
        if isinstance(v, Bool):
            return Bool(("sym", "hv%d" % self.eng.hv))
        return v

    # ---------------------------------------------------------- joins
    def join_states(self, a, b, point, loop_head=False, counter_locs=()):
        """Least upper bound (approximate) of two states at the merge point `point`.
        At loop heads the phi symbols get their full type range (interval widening)."""
        eng = self.eng
        out = State()
        out.key = a.key
        phis = []
        self._extra = []
        self._widen = loop_head
        for loc in a.locs:
            if loc in b.locs:
                va, vb = a.locs[loc], b.locs[loc]
                if va is vb or va == vb:
                    out.locs[loc] = va
                else:
                    n0 = len(phis)
                    out.locs[loc] = self.join_val(va, vb, "%s|%s" % (point, _locname(loc)), phis, 0)
                    if loop_head and loc in counter_locs and len(phis) == n0 + 1 and isinstance(out.locs[loc], Int):
                        p, la, lb = phis[n0]
                        ent = la if la != Lin.sym(p) else None
                        if ent is None or interval(ent, eng.bounds)[1] <= (1 << 62):
                            eng.counters.add(p)
        self._widen = False
        # facts
        common = a.facts & b.facts
        facts = set(common)
        for (src, dst, who) in ((a, b, 0), (b, a, 1)):
            for f in src.facts - common:
                if entails(f, dst.facts, eng.bounds):
                    facts.add(f)
                    continue
                fs = set(f.syms())
                for (p, la, lb) in phis:
                    mine, other = (la, lb) if who == 0 else (lb, la)
                    if mine is None or other is None:
                        continue
                    if not fs.intersection(mine.syms()) and not mine.is_const():
                        continue
                    for c in (1, -1):
                        r = f.sub(mine.scale(c))
                        # f = c*mine + r  ==> candidate c*phi + r >= 0
                        if entails(other.scale(c).add(r), dst.facts, eng.bounds):
                            cand = Lin.sym(p, c).add(r)
                            if not cand.is_const():
                                facts.add(cand)
        # ordering template: when one incoming value is known to be <= the other on the side where it matters,
        # the phi lies between them (phi >= la always holds on side A; on side B it needs lb >= la, etc.)
        for (p, la, lb) in phis:
            if la is None or lb is None or len(facts) > 400:
                continue
            if not (p.endswith(".off)") or p.endswith(".len)") or p in eng.len_syms):
                continue  # only byte-accounting quantities (slice offsets / lengths)
            d = lb.sub(la)
            if len(d.t) > 6:
                continue
            ph = Lin.sym(p)
            if d.is_const():
                lo_, hi_ = (la, lb) if d.c >= 0 else (lb, la)
                facts.add(ph.sub(lo_))
                facts.add(hi_.sub(ph))
                continue
            if entails(d, b.facts, eng.bounds, 1):      # lb >= la on side B  => phi >= la
                facts.add(ph.sub(la))
            if entails(d, a.facts, eng.bounds, 1):      # la <= lb on side A  => phi <= lb
                facts.add(lb.sub(ph))
            nd = d.neg()
            if entails(nd, a.facts, eng.bounds, 1):     # la >= lb on side A  => phi >= lb
                facts.add(ph.sub(lb))
            if entails(nd, b.facts, eng.bounds, 1):     # lb <= la on side B  => phi <= la
                facts.add(la.sub(ph))
        # length-bound template: a joined quantity that stays below the same sequence length on both sides stays below
        # it after the join (running offsets into a buffer: `offset <= len(data)`), whatever shape the two values have
        lens = []
        for f in (list(a.facts)[:200] + list(b.facts)[:200]) if (loop_head or getattr(eng, 'len_bound_all_joins', False)) else ():
            for sy in f.syms():
                if sy in eng.len_syms and sy not in lens:
                    lens.append(sy)
        if (loop_head or getattr(eng, 'len_bound_all_joins', False)) and lens and len(phis) <= 12:
            for (p, la, lb) in phis:
                if la is None or lb is None:
                    continue
                for sy in lens[:6]:
                    u = Lin.sym(sy)
                    cand = u.sub(Lin.sym(p))
                    if cand in facts:
                        continue
                    if entails(u.sub(la), a.facts, eng.bounds) and entails(u.sub(lb), b.facts, eng.bounds):
                        facts.add(cand)
        for f in self._extra:
            facts.add(f)
        out.facts = frozenset(f for f in facts if not f.is_const())
        # variant guards: facts that hold only on one side are remembered per enum variant
        loA = a.facts - out.facts
        loB = b.facts - out.facts
        if loA or loB:
            for loc, v in list(out.locs.items()):
                va, vb = a.locs.get(loc), b.locs.get(loc)
                if va is None or vb is None or va is vb:
                    continue
                nv = self.attach_guards(v, va, vb, loA, loB, 0)
                if nv is not v:
                    out.locs[loc] = nv
        # known bits: intersection
        for s, d in a.bits.items():
            d2 = b.bits.get(s)
            if d2:
                dd = {i: v for i, v in d.items() if d2.get(i) == v}
                if dd:
                    out.bits[s] = dd
        for s, ex in a.excl.items():
            if s in b.excl:
                out.excl[s] = ex & b.excl[s]
        # notes: common prefix
        n = 0
        while n < len(a.notes) and n < len(b.notes) and a.notes[n] == b.notes[n]:
            n += 1
        out.notes = a.notes[:n]
        return out

    def attach_guards(self, v, va, vb, loA, loB, depth):
        if depth > 5:
            return v
        if isinstance(v, Enum) and isinstance(va, Enum) and isinstance(vb, Enum):
            da, db = dict(va.variants), dict(vb.variants)
            ga = dict(va.guards or ())
            gb = dict(vb.guards or ())
            gs = []
            if not (set(da) == set(db) and not va.guards and not vb.guards):
                for vi, _ in v.variants:
                    sides = []
                    if vi in da:
                        sides.append(ga.get(vi, frozenset()) | loA)
                    if vi in db:
                        sides.append(gb.get(vi, frozenset()) | loB)
                    g = frozenset.intersection(*sides) if sides else frozenset()
                    if g:
                        gs.append((vi, g))
            # variants present on both sides: the distinction may sit deeper (nested enums in the payload)
            nvs = []
            ch = False
            for vi, fs in v.variants:
                if vi in da and vi in db and len(fs) == len(da[vi]) == len(db[vi]):
                    nfs = list(fs)
                    for i in range(len(nfs)):
                        if da[vi][i] is db[vi][i]:
                            continue
                        nf = self.attach_guards(nfs[i], da[vi][i], db[vi][i], loA, loB, depth + 1)
                        if nf is not nfs[i]:
                            nfs[i] = nf
                            ch = True
                    nvs.append((vi, tuple(nfs)))
                else:
                    nvs.append((vi, fs))
            if not gs and not ch:
                return v
            return Enum(v.ty, tuple(nvs) if ch else v.variants, v.name, tuple(gs) if gs else v.guards)
        if isinstance(v, Struct) and isinstance(va, Struct) and isinstance(vb, Struct) and len(v.fields) == len(va.fields) == len(vb.fields):
            fs = list(v.fields)
            ch = False
            for i in range(len(fs)):
                if va.fields[i] is vb.fields[i]:
                    continue
                nf = self.attach_guards(fs[i], va.fields[i], vb.fields[i], loA, loB, depth + 1)
                if nf is not fs[i]:
                    fs[i] = nf
                    ch = True
            return Struct(v.ty, tuple(fs)) if ch else v
        return v

    def refine_enum(self, st, ev, keep):
        """Restrict enum value ev to the variant indices in `keep`; the guards of the kept
        variants that hold for all of them become facts of the state."""
        vs = tuple(z for z in ev.variants if z[0] in keep)
        if not vs:
            raise Dead()
        if ev.guards:
            g = dict(ev.guards)
            sets = [g.get(vi, frozenset()) for vi, _ in vs]
            common = frozenset.intersection(*sets) if sets else frozenset()
            for f in common:
                st.add_fact(f, self.eng)
            rest = tuple((vi, g[vi] - common) for vi, _ in vs if vi in g and (g[vi] - common))
            return Enum(ev.ty, vs, ev.name, rest or None)
        return Enum(ev.ty, vs, ev.name, None)

    def join_val(self, va, vb, name, phis, depth):
        eng = self.eng
        if va == vb:
            return va
        if depth > 12:
            return self._top_of(va, vb, name)
        if isinstance(va, Int) and isinstance(vb, Int) and va.w == vb.w and va.signed == vb.signed:
            p = "phi(%s)" % name
            lo, hi = ty_range(va.w, va.signed)
            # interval hull from both sides when available
            if va.lin is not None and vb.lin is not None and not getattr(self, "_widen", False):
                ia = interval(va.lin, eng.bounds)
                ib = interval(vb.lin, eng.bounds)
                lo = max(lo, min(ia[0], ib[0])) if min(ia[0], ib[0]) != float("-inf") else lo
                hi = min(hi, max(ia[1], ib[1])) if max(ia[1], ib[1]) != float("inf") else hi
            old = eng.bounds.get(p)
            if old is not None:
                lo, hi = min(lo, old[0]), max(hi, old[1])
            if "len" in (va.tags & vb.tags) or (va.lin.single_sym() in eng.len_syms and vb.lin.single_sym() in eng.len_syms):
                eng.len_syms.add(p)
                hi = min(hi, eng.len_max) if old is None else hi
            eng.bounds[p] = (lo, hi)
            phis.append((p, va.lin, vb.lin))
            bits = None
            ba, bb = va.bits, vb.bits
            # a non-negative constant has known bits too (`0` joined with `FLAG` keeps every bit but the flag's)
            if ba is None and va.lin.is_const() and va.lin.c >= 0:
                ba = tuple((va.lin.c >> i) & 1 for i in range(va.w))
            if bb is None and vb.lin.is_const() and vb.lin.c >= 0:
                bb = tuple((vb.lin.c >> i) & 1 for i in range(vb.w))
            if ba is not None and bb is not None:
                bits = tuple(x if x == y else None for x, y in zip(ba, bb))
                if all(x is None for x in bits):
                    bits = None
            return Int(Lin.sym(p), bits, va.w, va.signed, va.tags & vb.tags)
        if isinstance(va, Bool) and isinstance(vb, Bool):
            return Bool(("sym", "phi(%s)" % name))
        if isinstance(va, Struct) and isinstance(vb, Struct) and len(va.fields) == len(vb.fields):
            return Struct(va.ty, tuple(self.join_val(x, y, "%s.%d" % (name, i), phis, depth + 1) for i, (x, y) in enumerate(zip(va.fields, vb.fields))))
        if isinstance(va, Arr) and isinstance(vb, Arr) and len(va.elems) == len(vb.elems):
            return Arr(va.ty, tuple(self.join_val(x, y, "%s[%d]" % (name, i), phis, depth + 1) for i, (x, y) in enumerate(zip(va.elems, vb.elems))))
        if isinstance(va, Enum) and isinstance(vb, Enum) and self.T.same(va.ty, vb.ty):
            da, db = dict(va.variants), dict(vb.variants)
            vs = []
            for vi in sorted(set(da) | set(db)):
                if vi in da and vi in db:
                    fa, fb = da[vi], db[vi]
                    if len(fa) == len(fb):
                        vs.append((vi, tuple(self.join_val(x, y, "%s.v%d.%d" % (name, vi, i), phis, depth + 1) for i, (x, y) in enumerate(zip(fa, fb)))))
                    else:
                        vs.append((vi, fa))
                else:
                    vs.append((vi, da[vi] if vi in da else db[vi]))
            return Enum(va.ty, tuple(vs), va.name if va.name == vb.name else name)
        if isinstance(va, Slice) and isinstance(vb, Slice) and va.base == vb.base and va.off.add(va.len) == vb.off.add(vb.len):
            # both are views ending at the same position (suffixes of one parser input): keep off + len exact
            end = va.off.add(va.len)
            off = self.join_val(_li(va.off), _li(vb.off), name + ".off", phis, depth + 1)
            self._extra.append(end.sub(off.lin))  # the length of a slice is never negative
            return Slice(va.base, off.lin, end.sub(off.lin), va.elem if va.elem == vb.elem else None)
        if isinstance(va, Slice) and isinstance(vb, Slice) and va.base == vb.base:
            off = self.join_val(_li(va.off), _li(vb.off), name + ".off", phis, depth + 1)
            ln = self.join_val(_li(va.len, True), _li(vb.len, True), name + ".len", phis, depth + 1)
            if "len" in ln.tags:
                pass
            s = ln.lin.single_sym()
            if s:
                eng.len_syms.add(s)
            return Slice(va.base, off.lin, ln.lin, va.elem if va.elem == vb.elem else None)
        if isinstance(va, Cont) and isinstance(vb, Cont) and va.kind == vb.kind:
            ln = self.join_val(_li(va.len, True), _li(vb.len, True), name + ".len", phis, depth + 1)
            s = ln.lin.single_sym()
            if s:
                eng.len_syms.add(s)
            elem = va.elem
            if va.elem is not None and vb.elem is not None and va.elem != vb.elem:
                elem = self.join_val(va.elem, vb.elem, name + "[]", phis, depth + 1)
            elif va.elem is None:
                elem = vb.elem
            segs = va.segs if va.segs == vb.segs else _join_segs(va.segs, vb.segs)
            cid = va.id if va.id == vb.id else "join(%s)" % name
            return Cont(va.kind, cid, ln.lin, elem, segs, va.ty)
        if isinstance(va, Ref) and isinstance(vb, Ref):
            return self._top_of(va, vb, name)
        if isinstance(va, Fn) and isinstance(vb, Fn):
            return Fn(va.items | vb.items)
        if isinstance(va, Top) and isinstance(vb, Top) and self.T.same(va.ty, vb.ty):
            return Top(va.ty, "phi(%s)" % name)
        if isinstance(va, Flt) and isinstance(vb, Flt):
            return Flt(("sym", "phi(%s)" % name), va.w)
        if isinstance(va, Unit) and isinstance(vb, Unit):
            return UNIT
        return self._top_of(va, vb, name)

    def _top_of(self, va, vb, name):
        ty = getattr(va, "ty", None)
        if ty is None or isinstance(ty, tuple):
            ty = getattr(vb, "ty", None)
        if isinstance(va, Top):
            return Top(va.ty, "phi(%s)" % name)
        if isinstance(vb, Top):
            return Top(vb.ty, "phi(%s)" % name)
        if isinstance(ty, int):
            return Top(ty, "phi(%s)" % name)
        return ("ANY", name)


def _seg_shape(segs):
    import re
    return re.sub(r"#\d+", "#", repr(segs))


def _join_segs(a, b):
    """Join of two segment sequences of a byte buffer: when one is the other plus a tail, the tail becomes a
    repetition ("rep", tail) = zero or more copies (buffers filled in loops); anything else is unknown."""
    if a is None or b is None:
        return None
    if len(a) == len(b):
        # same layout, different values in some numeric fields: keep the layout, forget those values
        out = []
        for x, y in zip(a, b):
            if x == y:
                out.append(x)
            elif x[0] == y[0] == "num" and x[1] == y[1] and x[2] == y[2]:
                out.append(("num", x[1], x[2], ("ANY", "joined"), x[4] if x[4] == y[4] else "?"))
            else:
                out = None
                break
        if out is not None:
            return tuple(out)
    if len(a) > len(b):
        a, b = b, a
    if b[:len(a)] != a:
        return None
    extra = b[len(a):]
    if not extra:
        return a
    if a and a[-1][0] == "rep":
        # a second, different tail after a repetition: give up (keeps the join a finite-height widening).
        # Tails are compared up to the numbering of the symbols created afresh in each iteration.
        return a if _seg_shape(a[-1][1]) == _seg_shape(extra) else None
    if len(extra) == 1 and extra[0][0] == "rep":
        return b
    return a + (("rep", extra),)


def _li(l, is_len=False):
    return Int(l, None, 64, False, frozenset(["len"]) if is_len else frozenset())


def _locname(loc):
    if isinstance(loc, tuple):
        return "%s_%s" % (loc[0], loc[1])
    return str(loc)
