"""Abstract values of the MIR abstract interpreter (immutable)."""
from collections import namedtuple

from engine.lin import Lin

# unknown value of a type; `name` is the deterministic access path used to name
# the symbols created when the value is materialised
Top = namedtuple("Top", "ty name")
# integer: exact linear expression (or None), optional per-bit provenance, (bits, signed)
Int = namedtuple("Int", "lin bits w signed tags")
Bool = namedtuple("Bool", "cond")
Flt = namedtuple("Flt", "term w")
Enum = namedtuple("Enum", "ty variants name guards")  # variants: tuple of (idx, fields tuple); guards: None | tuple of (idx, frozenset of facts)
Enum.__new__.__defaults__ = (None,)
Struct = namedtuple("Struct", "ty fields")
Arr = namedtuple("Arr", "ty elems")  # elems: tuple of values (small fixed arrays)
Ref = namedtuple("Ref", "loc path mut")
Slice = namedtuple("Slice", "base off len elem")  # fat pointer into object `base`
Cont = namedtuple("Cont", "kind id len elem segs ty")  # owned Vec / String / BytesMut
Fn = namedtuple("Fn", "items")  # frozenset of callables
Unit = namedtuple("Unit", "")
UNIT = Unit()

# bit atoms: 0, 1, ('b', sym, i), ('c', cond)  (bit = truth of a condition), None = unknown
# callables: ('item', path, args tuple of type ids, fn dict key) | ('closure', def path, env loc, subst items) | ('opaque', ctor, args tuple)

TRUE = Bool(("const", True))
FALSE = Bool(("const", False))


def int_const(v, w, signed):
    return Int(Lin.const(v), None, w, signed, frozenset())


def int_sym(s, w, signed, tags=frozenset()):
    return Int(Lin.sym(s), None, w, signed, tags)


def ty_range(w, signed):
    if signed:
        return (-(1 << (w - 1)), (1 << (w - 1)) - 1)
    return (0, (1 << w) - 1)


def bits_of_const(v, w):
    v &= (1 << w) - 1
    return tuple((v >> i) & 1 for i in range(w))


def const_of_bits(bits):
    v = 0
    for i, b in enumerate(bits):
        if b == 1:
            v |= 1 << i
        elif b != 0:
            return None
    return v


def is_val(x, cls):
    return isinstance(x, cls)
