"""nom 7.1 contracts: streaming/complete primitives and the structural combinators
used by dlt-core, modelled on slices as (base, off, len) with linear accounting.

Parser contract on Ok((rest, out)): same base, off(rest) = off(in) + consumed,
len(rest) = len(in) - consumed.
"""
import re

from engine.contracts import contract, deref, ret_ty, variant_payload_ty
from engine.contracts_coll import new_cont, view
from engine.contracts_std import force
from engine.lin import Lin
from engine.state import Dead
from engine.values import (Arr, Bool, Cont, Enum, FALSE, Flt, Fn, Int, Ref, Slice, Struct, Top, TRUE, UNIT, Unit, int_const)

NUM = r"(u8|i8|u16|i16|u24|i24|u32|i32|u64|i64|u128|i128|f32|f64)"
WIDTH = {"u8": 1, "i8": 1, "u16": 2, "i16": 2, "u24": 3, "i24": 3, "u32": 4, "i32": 4, "u64": 8, "i64": 8, "u128": 16, "i128": 16, "f32": 4, "f64": 8}
PRIM = re.compile(r"^nom::number::(streaming|complete)::(be|le)_" + NUM + r"$")


def note(st, ev):
    st.notes = st.notes + (ev,)


# ------------------------------------------------------------------ error values


def err_types(eng, rt):
    """(nom::Err<E> type id, Needed type id, NonZero type id, E type id) from an IResult type."""
    et = variant_payload_ty(eng, rt, 1)
    if et is None:
        return None
    needed = variant_payload_ty(eng, et, 0)
    nz = variant_payload_ty(eng, needed, 1) if needed is not None else None
    inner = variant_payload_ty(eng, et, 1)
    return et, needed, nz, inner


def mk_incomplete(eng, rt, needed_lin):
    ts = err_types(eng, rt)
    if ts is None:
        return ("ANY", "err")
    et, nt, nz, _ = ts
    if needed_lin is None:
        nv = Enum(nt, ((0, ()),), "needed")
    else:
        nv = Enum(nt, ((1, (Struct(nz, (Int(needed_lin, None, 64, False, frozenset()),)),)),), "needed")
    return Enum(et, ((0, (nv,)),), "nomerr")


def mk_error(eng, rt, variant=1, what="nom"):
    ts = err_types(eng, rt)
    if ts is None:
        return ("ANY", "err")
    et, _, _, inner = ts
    return Enum(et, ((variant, (Top(inner, "%s_error#%d" % (what, eng._hv())),)),), "nomerr")


def wrap_ok(eng, rt, rest, out):
    return Enum(rt, ((0, (Struct(None, (rest, out)),)),), "ires")


def wrap_err(eng, rt, errv):
    return Enum(rt, ((1, (errv,)),), "ires")


# ------------------------------------------------------------------ opaque combinator constructors


def opaque(ctor, *args):
    return Fn(frozenset([("opaque", ctor, tuple(args))]))


@contract(r"^nom::bytes::(streaming|complete)::take$")
def c_take(eng, st, fr, f, args, site):
    n = args[0]
    if not isinstance(n, Int):
        return None
    mode = "streaming" if "streaming" in f["path"] else "complete"
    return [(st, opaque("take", n, mode))]


@contract(r"^nom::bytes::(streaming|complete)::tag$")
def c_tag(eng, st, fr, f, args, site):
    vw = view(eng, st, args[0])
    if vw is None:
        return None
    data = None
    if isinstance(vw["base"], str) and vw["base"].startswith("const:"):
        data = eng.const_bytes.get(vw["base"])
    elif vw.get("arr") is not None and all(isinstance(e, Int) and e.lin.is_const() for e in vw["arr"].elems):
        data = bytes(e.lin.c & 0xFF for e in vw["arr"].elems)
    mode = "streaming" if "streaming" in f["path"] else "complete"
    return [(st, opaque("tag", data, vw["len"], mode))]


@contract(r"^nom::bytes::(streaming|complete)::take_while_m_n$")
def c_take_while_m_n(eng, st, fr, f, args, site):
    m, n, p = args
    if not (isinstance(m, Int) and isinstance(n, Int)):
        return None
    mode = "streaming" if "streaming" in f["path"] else "complete"
    return [(st, opaque("take_while_m_n", m, n, p, mode))]


@contract(r"^nom::combinator::map$")
def c_map(eng, st, fr, f, args, site):
    return [(st, opaque("map", args[0], args[1]))]


@contract(r"^nom::sequence::tuple$")
def c_tuple(eng, st, fr, f, args, site):
    t = force(eng, st, args[0])
    if not isinstance(t, Struct):
        return None
    return [(st, opaque("tuple", t.fields))]


@contract(r"^nom::sequence::(pair|preceded|terminated)$")
def c_pair(eng, st, fr, f, args, site):
    return [(st, opaque(f["path"].split("::")[-1], args[0], args[1]))]


@contract(r"^nom::multi::count$")
def c_count(eng, st, fr, f, args, site):
    if not isinstance(args[1], Int):
        return None
    return [(st, opaque("count", args[0], args[1]))]


@contract(r"^nom::number::(streaming|complete)::(be|le)_" + NUM + r"$")
def c_prim_direct(eng, st, fr, f, args, site):
    rt = ret_ty(eng, site)
    inp = args[0]
    outs = []
    for o in apply_prim(eng, st, f["path"], inp, rt):
        outs.append(encode(eng, rt, o))
    return outs


# calls of callable values:  <F as Fn<(A,)>>::call(&f, (a,))
@contract(r"^(std|core)::ops::(Fn|FnMut|FnOnce)::call(_mut|_once)?$")
def c_fn_call(eng, st, fr, f, args, site):
    fv = args[0]
    if isinstance(fv, Ref):
        fv = deref(eng, st, fv)
    fv = force(eng, st, fv)
    if not isinstance(fv, Fn):
        return None
    tup = force(eng, st, args[1]) if len(args) > 1 else UNIT
    if isinstance(tup, Struct):
        a = list(tup.fields)
    elif isinstance(tup, Unit):
        a = []
    else:
        return None
    return eng.apply_fn(st, fr, fv, a, site)


# ------------------------------------------------------------------ parser application


def decode(eng, st, v):
    """IResult Enum -> list of ('ok', st, rest, out) / ('err', st, errval)."""
    v = force(eng, st, v)
    outs = []
    if not isinstance(v, Enum):
        return None
    for vi, fs in v.variants:
        ns = st.fork() if len(v.variants) > 1 else st
        try:
            eng.M.refine_enum(ns, v, {vi})
        except Dead:
            continue
        if vi == 0:
            tup = force(eng, ns, fs[0])
            if isinstance(tup, Struct) and len(tup.fields) == 2:
                rest = force(eng, ns, tup.fields[0])
                outs.append(("ok", ns, rest, tup.fields[1]))
            else:
                return None
        else:
            outs.append(("err", ns, fs[0]))
    return outs


def encode(eng, rt, o):
    if o[0] == "ok":
        return (o[1], wrap_ok(eng, rt, o[2], o[3]))
    return (o[1], wrap_err(eng, rt, o[2]))


def apply_opaque(eng, st, fr, item, args, site):
    rt = ret_ty(eng, site)
    if rt is None or not args:
        return None
    outs = apply_parser(eng, st, fr, Fn(frozenset([item])), args[0], rt, site)
    if outs is None:
        return None
    return [encode(eng, rt, o) for o in outs]


def apply_parser(eng, st, fr, pv, inp, rt, site):
    """Apply parser value pv to input slice -> list of outcomes or None (unknown parser)."""
    pv = force(eng, st, pv)
    if isinstance(pv, Ref):
        pv = force(eng, st, deref(eng, st, pv))
    if not isinstance(pv, Fn):
        return None
    inp = force(eng, st, inp)
    items = sorted(pv.items, key=repr)
    outs = []
    for it in items:
        s = st.fork() if len(items) > 1 else st
        r = apply_one(eng, s, fr, it, inp, rt, site)
        if r is None:
            return None
        outs.extend(r)
    return outs


def apply_one(eng, st, fr, it, inp, rt, site):
    kind = it[0]
    if kind == "item":
        path = it[1]
        if PRIM.match(path):
            return apply_prim(eng, st, path, inp, rt)
        m = NBO.match(path)
        if m and it[2][4] is not None and eng.T.t(it[2][4])["k"] == "param":
            return apply_num(eng, st, inp, rt, "streaming", "T", m.group(1))
        res = eng.apply_item(st, fr, it, [inp], site)
        if res is None:
            return None
        outs = []
        for ns, v in res:
            if v is None:
                continue
            d = decode(eng, ns, v)
            if d is None:
                return None
            outs.extend(d)
        return outs
    if kind == "closure":
        res = eng.apply_item(st, fr, it, [inp], site)
        if res is None:
            return None
        outs = []
        for ns, v in res:
            d = decode(eng, ns, v)
            if d is None:
                return None
            outs.extend(d)
        return outs
    if kind != "opaque":
        return None
    ctor, a = it[1], it[2]
    if not isinstance(inp, Slice):
        return None
    base, off, ln = inp.base, inp.off, inp.len
    if ctor == "take":
        n, mode = a
        outs = []
        ns = st.fork()
        try:
            ns.add_fact(ln.sub(n.lin), eng)
            ns.add_fact(n.lin, eng)
            note(ns, ("take", base, off, n.lin))
            outs.append(("ok", ns, Slice(base, off.add(n.lin), ln.sub(n.lin), inp.elem), Slice(base, off, n.lin, inp.elem)))
        except Dead:
            pass
        ns = st.fork()
        try:
            ns.add_fact(n.lin.sub(ln).sub(1), eng)
            outs.append(("err", ns, mk_incomplete(eng, rt, n.lin.sub(ln)) if mode == "streaming" else mk_error(eng, rt, 1, "take")))
        except Dead:
            pass
        return outs
    if ctor == "tag":
        data, tl, mode = a
        outs = []
        ns = st.fork()
        try:
            ns.add_fact(ln.sub(tl), eng)
            note(ns, ("tag", base, off, data))
            outs.append(("ok", ns, Slice(base, off.add(tl), ln.sub(tl), inp.elem), Slice(base, off, tl, inp.elem)))
        except Dead:
            pass
        ns = st.fork()
        try:
            ns.add_fact(tl.sub(ln).sub(1), eng)
            outs.append(("err", ns, mk_incomplete(eng, rt, tl.sub(ln)) if mode == "streaming" else mk_error(eng, rt, 1, "tag")))
        except Dead:
            pass
        ms = st.fork()
        eng.key_outcome(ms, "tag", "mismatch")
        outs.append(("err", ms, mk_error(eng, rt, 1, "tag")))
        return outs
    if ctor == "take_while_m_n":
        m, n, pred, mode = a
        outs = []
        ns = st.fork()
        try:
            c = eng.fresh_int("tw", 64, False, 0, eng.len_max)
            eng.len_syms.add(c.lin.single_sym())
            ns.add_fact(c.lin.sub(m.lin), eng)
            ns.add_fact(n.lin.sub(c.lin), eng)
            ns.add_fact(ln.sub(c.lin), eng)
            note(ns, ("take_while_m_n", base, off, c.lin, m.lin, n.lin, pred))
            outs.append(("ok", ns, Slice(base, off.add(c.lin), ln.sub(c.lin), inp.elem), Slice(base, off, c.lin, inp.elem)))
        except Dead:
            pass
        if mode == "streaming":
            ns = st.fork()
            try:
                ns.add_fact(n.lin.sub(ln).sub(1), eng)  # fewer than n bytes available and all match
                outs.append(("err", ns, mk_incomplete(eng, rt, Lin.const(1))))
            except Dead:
                pass
        if not (m.lin.is_const() and m.lin.c == 0):
            outs.append(("err", st.fork(), mk_error(eng, rt, 1, "take_while")))
        return outs
    if ctor == "map":
        p, fn = a
        rs = apply_parser(eng, st, fr, p, inp, rt, site)
        if rs is None:
            return None
        outs = []
        for o in rs:
            if o[0] == "err":
                outs.append(o)
                continue
            _, ns, rest, out = o
            fn2 = force(eng, ns, fn)
            res = eng.apply_fn(ns, fr, fn2, [out], site) if isinstance(fn2, Fn) else None
            if res is None:
                outs.append(("ok", ns, rest, ("ANY", "mapped")))
                continue
            for ns2, v in res:
                outs.append(("ok", ns2, rest, v))
        return outs
    if ctor in ("tuple", "pair", "preceded", "terminated"):
        parsers = list(a[0]) if ctor == "tuple" else [a[0], a[1]]
        cur = [(st, inp, [])]
        outs = []
        for p in parsers:
            nxt = []
            for (s, i, acc) in cur:
                rs = apply_parser(eng, s, fr, p, i, rt, site)
                if rs is None:
                    return None
                for o in rs:
                    if o[0] == "err":
                        outs.append(o)
                    else:
                        nxt.append((o[1], o[2], acc + [o[3]]))
            cur = nxt
        for (s, i, acc) in cur:
            if ctor == "preceded":
                out = acc[1]
            elif ctor == "terminated":
                out = acc[0]
            else:
                out = Struct(None, tuple(acc))
            outs.append(("ok", s, i, out))
        return outs
    if ctor == "count":
        p, n = a
        outs = []
        # zero elements possible
        # generic element: the parser applied to an arbitrary suffix of the input
        d0 = eng.fresh_int("cnt_before", 64, False, 0, eng.len_max)
        ns = st.fork()
        try:
            ns.add_fact(ln.sub(d0.lin), eng)
        except Dead:
            return []
        sub_in = Slice(base, off.add(d0.lin), ln.sub(d0.lin), inp.elem)
        note(ns, ("count_begin", base, off, n.lin))
        rs = apply_parser(eng, ns, fr, p, sub_in, rt, site)
        if rs is None:
            return None
        elem = None
        ok_states = []
        for o in rs:
            if o[0] == "err":
                outs.append(o)
            else:
                ok_states.append(o)
                elem = o[3] if elem is None else (elem if elem == o[3] else eng.M.join_val(elem, o[3], "count_elem#%d" % eng._hv(), [], 0))
        # result: all n elements parsed; total consumption is data dependent
        total = eng.fresh_int("cnt_total", 64, False, 0, eng.len_max)
        eng.len_syms.add(total.lin.single_sym())
        fin = st.fork()
        try:
            fin.add_fact(ln.sub(total.lin), eng)
        except Dead:
            return outs
        vec_ty = None
        okt = variant_payload_ty(eng, rt, 0)
        if okt is not None:
            tt = eng.T.t(okt)
            if tt["k"] == "tuple" and len(tt["of"]) == 2:
                vec_ty = tt["of"][1]
        vec = new_cont(eng, "vec", n.lin, elem, None, vec_ty, hint="count")
        note(fin, ("count_end", base, off, total.lin, "data-dependent"))
        eng.events.append(("count", base, repr(off), total.lin.single_sym()))
        outs.append(("ok", fin, Slice(base, off.add(total.lin), ln.sub(total.lin), inp.elem), vec))
        return outs
    return None


def apply_prim(eng, st, path, inp, rt):
    m = PRIM.match(path)
    return apply_num(eng, st, inp, rt, m.group(1), m.group(2).upper(), m.group(3))


NBO = re.compile(r"^parse::NomByteOrder::parse_" + NUM + r"$")


@contract(r"^parse::NomByteOrder::parse_" + NUM + r"$")
def c_nbo_abstract(eng, st, fr, f, args, site):
    """<T as NomByteOrder>::parse_X with T abstract: consumes width(X) bytes in message order 'T'
    (the two impls forward to be_X / le_X: checked by ORD-1)."""
    if f["self_ty"] is None or eng.T.t(f["self_ty"])["k"] != "param":
        return None
    rt = ret_ty(eng, site)
    m = NBO.match(f["path"])
    return [encode(eng, rt, o) for o in apply_num(eng, st, args[0], rt, "streaming", "T", m.group(1))]


def apply_num(eng, st, inp, rt, mode, order, ty):
    w = WIDTH[ty]
    inp = force(eng, st, inp)
    if not isinstance(inp, Slice):
        return [("ok", st, ("ANY", "rest"), ("ANY", "num")), ("err", st.fork(), mk_error(eng, rt))]
    base, off, ln = inp.base, inp.off, inp.len
    outs = []
    ns = st.fork()
    try:
        ns.add_fact(ln.sub(w), eng)
        oc = "1" if w == 1 else order
        # a signed read of the same bytes is a different number than the unsigned read: it gets its own symbol ("rds[..]")
        name = "%s[%s@%s:%d:%s]" % ("rds" if ty.startswith("i") else "rd", base if not isinstance(base, tuple) else "arr", off, w, oc)
        if ty.startswith("f"):
            val = Flt(("sym", name), w * 8)
        else:
            val = eng.named_int(name, w * 8, ty.startswith("i"))
        note(ns, ("rd", base, off, w, oc, name))
        eng.rd_syms[name] = (base, off, w, oc)
        outs.append(("ok", ns, Slice(base, off.add(w), ln.sub(w), inp.elem), val))
    except Dead:
        pass
    ns = st.fork()
    short = True
    try:
        ns.add_fact(Lin.const(w - 1).sub(ln), eng)
        outs.append(("err", ns, mk_incomplete(eng, rt, Lin.const(w).sub(ln)) if mode == "streaming" else mk_error(eng, rt, 1, "eof")))
    except Dead:
        short = False
    if mode == "complete":
        # a complete (non-streaming) primitive: is its short-input outcome feasible here?
        eng.events.append(("complete_prim", "%s_%s" % (order.lower(), ty), short))
    return outs


@contract(r"^nom::Needed::new$|^nom::internal::Needed::new$")
def c_needed_new(eng, st, fr, f, args, site):
    """`Needed::new(n)`: Size(n) for n != 0, Unknown for 0."""
    rt = ret_ty(eng, site)
    v = force(eng, st, args[0]) if args else None
    if rt is None or not isinstance(v, Int):
        return None
    nz = variant_payload_ty(eng, rt, 1)
    size = lambda: Enum(rt, ((1, (Struct(nz, (Int(v.lin, None, 64, False, frozenset()),)),)),), "needed")
    if st.holds(v.lin.sub(1), eng):
        return [(st, size())]
    if v.lin.is_const() and v.lin.c == 0:
        return [(st, Enum(rt, ((0, ()),), "needed"))]
    outs = []
    ns = st.fork()
    try:
        ns.add_fact(v.lin.sub(1), eng)
        outs.append((ns, size()))
    except Dead:
        pass
    ns = st.fork()
    try:
        ns.add_fact(v.lin.neg(), eng)
        outs.append((ns, Enum(rt, ((0, ()),), "needed")))
    except Dead:
        pass
    return outs
