"""Facts acquisition: copy /repo's current working tree to a scratch dir, run the
mirdump driver over it with the real build flags, cache the facts by tree hash.

Nothing is ever built inside /repo (its build.rs rewrites README.md) and nothing
is kept under /tmp.
"""
import fcntl
import hashlib
import os
import shutil
import subprocess
import sys
import time

VERIF = os.path.dirname(os.path.dirname(os.path.abspath(__file__)))
REPO = os.environ.get("VERIF_REPO", "/repo")
WORK = os.path.join(VERIF, ".work")
DRIVER = os.path.join(VERIF, "driver", "target", "release", "mirdump")

CONFIGS = {
    "all": ["--all-features"],
    "default": [],
    "fibex": ["--no-default-features", "--features", "fibex"],
    "statistics": ["--no-default-features", "--features", "statistics"],
    "stream": ["--no-default-features", "--features", "stream"],
    "serialization": ["--no-default-features", "--features", "serialization"],
    "debug": ["--no-default-features", "--features", "debug"],
}

TREE_FILES = ("Cargo.toml", "Cargo.lock", "build.rs", "README.md")
TREE_DIRS = ("src", "examples")


def tree_hash(root):
    h = hashlib.sha256()
    paths = []
    for f in TREE_FILES:
        p = os.path.join(root, f)
        if os.path.isfile(p):
            paths.append(p)
    for d in TREE_DIRS:
        for dp, dn, fn in os.walk(os.path.join(root, d)):
            dn.sort()
            for f in sorted(fn):
                paths.append(os.path.join(dp, f))
    for p in sorted(paths):
        rel = os.path.relpath(p, root)
        h.update(rel.encode())
        h.update(b"\0")
        with open(p, "rb") as fh:
            h.update(fh.read())
        h.update(b"\0")
    # the driver itself is part of the key
    if os.path.isfile(DRIVER):
        st = os.stat(DRIVER)
        h.update(("driver:%d:%d" % (st.st_size, int(st.st_mtime))).encode())
    return h.hexdigest()[:20]


def sysroot():
    return subprocess.check_output(["rustc", "+nightly", "--print", "sysroot"], text=True).strip()


def ensure_driver():
    if os.path.isfile(DRIVER):
        return
    env = dict(os.environ, CARGO_NET_OFFLINE="true")
    subprocess.check_call(["cargo", "+nightly", "build", "--release", "--offline"], cwd=os.path.join(VERIF, "driver"), env=env)


def _prune(keep):
    # keep the facts of the most recent few trees only
    try:
        fs = [f for f in os.listdir(WORK) if f.startswith("facts-") and f.endswith(".json")]
        fs.sort(key=lambda f: os.path.getmtime(os.path.join(WORK, f)))
        for f in fs[:-24]:
            if f not in keep:
                os.unlink(os.path.join(WORK, f))
    except OSError:
        pass


def get_facts(config="all", repo=None, verbose=True):
    """Returns (facts_path, tree_hash, info dict). Rebuilds from the current tree of `repo`."""
    repo = repo or REPO
    os.makedirs(WORK, exist_ok=True)
    ensure_driver()
    t0 = time.time()
    lockf = open(os.path.join(WORK, ".lock"), "w")
    fcntl.flock(lockf, fcntl.LOCK_EX)
    try:
        th = tree_hash(repo)
        out = os.path.join(WORK, "facts-%s-%s.json" % (th, config))
        info = {"tree_hash": th, "config": config, "cached": False}
        if os.path.isfile(out) and os.path.getsize(out) > 1000:
            info["cached"] = True
            os.utime(out, None)
            info["wall_s"] = time.time() - t0
            return out, th, info
        src = os.path.join(WORK, "src")
        os.makedirs(src, exist_ok=True)
        subprocess.check_call(
            ["rsync", "-a", "--delete", "--exclude", "target", "--exclude", ".git", repo.rstrip("/") + "/", src + "/"]
        )
        target = os.path.join(WORK, "target")
        # cargo's freshness cache would skip the wrapper: forget the workspace member
        fp = os.path.join(target, "debug", ".fingerprint")
        if os.path.isdir(fp):
            for d in os.listdir(fp):
                if d.startswith("dlt-core-") or d.startswith("dlt_core-"):
                    shutil.rmtree(os.path.join(fp, d), ignore_errors=True)
        env = dict(os.environ)
        env.update(
            {
                "LD_LIBRARY_PATH": sysroot() + "/lib",
                "RUSTFLAGS": "-Awarnings",
                "RUSTC_WORKSPACE_WRAPPER": DRIVER,
                "MIRDUMP_OUT": out,
                "MIRDUMP_CRATE": "dlt_core",
                "CARGO_TARGET_DIR": target,
                "CARGO_NET_OFFLINE": "true",
                "CARGO_INCREMENTAL": "0",
            }
        )
        cmd = ["cargo", "+nightly", "check", "--offline", "--lib"] + CONFIGS[config]
        p = subprocess.run(cmd, cwd=src, env=env, stdout=subprocess.PIPE, stderr=subprocess.STDOUT, text=True)
        info["cargo_rc"] = p.returncode
        info["cargo_tail"] = p.stdout[-2000:]
        if p.returncode != 0 or not os.path.isfile(out):
            if os.path.isfile(out):
                os.unlink(out)
            sys.stdout.write(p.stdout[-6000:])
            raise RuntimeError("facts extraction failed (tree does not compile or driver did not run), rc=%d" % p.returncode)
        _prune({os.path.basename(out)})
        info["wall_s"] = time.time() - t0
        return out, th, info
    finally:
        fcntl.flock(lockf, fcntl.LOCK_UN)
        lockf.close()


if __name__ == "__main__":
    cfg = sys.argv[1] if len(sys.argv) > 1 else "all"
    p, th, info = get_facts(cfg)
    print(p, th, info.get("cached"), "%.1fs" % info["wall_s"])
