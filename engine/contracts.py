"""Contracts of external callees (DESIGN §2.2 class 1) and opaque combinator values.

A contract is `fn(eng, st, fr, f, args, site) -> [(state, retval)] | None`.
Returning None falls through to inlining / the default (havoc) treatment.
"""
import re

from engine.lin import Lin
from engine.state import Dead
from engine.values import (Arr, Bool, Cont, Enum, FALSE, Flt, Fn, Int, Ref, Slice, Struct, Top, TRUE, UNIT, Unit, int_const, ty_range)


class Registry:
    def __init__(self):
        self.items = []
        self._cache = {}

    def add(self, pattern, fn):
        self.items.append((re.compile(pattern), fn))
        self._cache.clear()

    def lookup(self, path):
        if path in self._cache:
            return self._cache[path]
        r = None
        for rx, fn in self.items:
            if rx.search(path):
                r = fn
                break
        self._cache[path] = r
        return r


REGISTRY = Registry()


def contract(pattern):
    def deco(fn):
        REGISTRY.add(pattern, fn)
        return fn

    return deco


def ret_ty(eng, site):
    return eng.place_ty(site["fr"], site["term"]["dest"])


def deref(eng, st, v):
    """Follow a Ref to the value it points to (materialising)."""
    n = 0
    while isinstance(v, Ref) and n < 8:
        x = eng.M.read_path(st, v.loc, v.path)
        if isinstance(x, Top):
            x = eng.M.force_at(st, v.loc, v.path, x)
        v = x
        n += 1
    return v


def mk_option(eng, ti, some=None):
    """Option value of type id ti: None or Some(v)."""
    if some is None:
        return Enum(ti, ((0, ()),), "opt")
    return Enum(ti, ((1, (some,)),), "opt")


def mk_result(eng, ti, ok=None, err=None):
    if err is None:
        return Enum(ti, ((0, (ok,)),), "res")
    return Enum(ti, ((1, (err,)),), "res")


def variant_payload_ty(eng, ti, vidx, fidx=0):
    fs = eng.T.variant_fields(ti, vidx)
    if fs and fidx < len(fs):
        return fs[fidx][1]
    return None


# --------------------------------------------------------------------------- panics


@contract(r"^(std|core)::panicking::|^std::rt::(begin_panic|panic_fmt)")
def c_panic(eng, st, fr, f, args, site):
    sp = site["blk"]["sp"]
    macro = sp.get("xo") or sp.get("x") or "panic"
    # a reachable explicit panic is an undischargeable obligation
    msg = ""
    t = site["term"]
    if t["args"]:
        k = t["args"][0].get("k")
        if k and "str" in k:
            msg = k["str"][:60]
    eng.obligation(site["fr"], site["blk"], "Panic", "%s(%s)" % (macro.split("::")[-1], msg), False, need="unreachable", st=st, reason="explicit panic reachable")
    return [(st, None)]


def apply_opaque(eng, st, fr, item, args, site):
    from engine import contracts_nom

    return contracts_nom.apply_opaque(eng, st, fr, item, args, site)


from engine import contracts_std  # noqa: E402,F401
from engine import contracts_nom  # noqa: E402,F401
