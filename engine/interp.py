"""Forward abstract interpreter over mirdump MIR.

Worklist over the CFG in reverse post-order; one state per (block, partition key);
join at merge points, Houdini-style widening of linear facts at loop heads;
crate-local callees analysed in context (inlining); external callees through
engine/contracts.py.  Never executes dlt-core code, never unrolls loops, no solver.
"""
import heapq
import time
import re
from collections import defaultdict

from engine import cfg as CFG
from engine.lin import Lin, entails, interval
from engine.state import Dead, Memory, State
from engine.types import TypeCtx
from engine.values import (Arr, Bool, Cont, Enum, FALSE, Flt, Fn, Int, Ref, Slice, Struct, Top, TRUE, UNIT, Unit, bits_of_const, const_of_bits,
                           int_const, int_sym, ty_range)


class Budget(Exception):
    pass


class Frame:
    __slots__ = ("body", "fid", "sub", "depth", "path", "parent", "rpo_index", "loop_heads", "promoted_cache", "names", "site", "counter_locals", "_defs")

    def __init__(self, body, fid, sub, depth, parent, site=None):
        self.body = body
        self.fid = fid
        self.sub = sub
        self.depth = depth
        self.path = body["path"]
        self.parent = parent
        self.site = site
        sc = CFG.succs(body)
        order = CFG.rpo(sc, 0)
        self.rpo_index = {b: i for i, b in enumerate(order)}
        self.loop_heads = {lp["header"] for lp in CFG.natural_loops(body)} if len(body["blocks"]) > 1 else set()
        self.promoted_cache = {}
        self.counter_locals = counter_locals(body) if self.loop_heads else set()
        self.names = {}
        for d in body.get("debug", []):
            if not d["p"]["p"]:
                self.names.setdefault(d["p"]["l"], d["name"])

    def chain(self):
        out = []
        f = self
        while f is not None:
            out.append(f.path)
            f = f.parent
        return list(reversed(out))


def counter_locals(body):
    """Locals whose every assignment (other than initialisation by a constant) has the form
    `x = x + small constant` (through AddWithOverflow): loop counters (counter axiom)."""
    defs = {}
    tmp_add = {}
    for blk in body["blocks"]:
        for s in blk["stmts"]:
            if s["k"] != "assign" or s["p"]["p"]:
                continue
            rv = s["rv"]
            l = s["p"]["l"]
            if rv["k"] == "bin" and rv["op"] in ("AddWithOverflow", "Add"):
                a, b = rv["a"], rv["b"]
                pa = a.get("c") or a.get("m")
                kb = b.get("k")
                if pa is not None and not pa["p"] and kb and "int" in kb and 0 <= int(kb["int"]) <= 65536:
                    tmp_add[l] = pa["l"]
            defs.setdefault(l, []).append(rv)
    out = set()
    for l, rvs in defs.items():
        if not body["locals"][l].get("user"):
            continue
        ok = True
        inc = 0
        for rv in rvs:
            if rv["k"] == "use":
                o = rv["a"]
                k = o.get("k")
                if k and "int" in k and 0 <= int(k["int"]) <= (1 << 32):
                    continue
                p = o.get("c") or o.get("m")
                if p is not None and p["p"] == [{"f": 0, "ty": p["p"][0].get("ty")}] if p and p["p"] and isinstance(p["p"][0], dict) else False:
                    if tmp_add.get(p["l"]) == l:
                        inc += 1
                        continue
                ok = False
            else:
                ok = False
        if ok and inc:
            out.add(l)
    return out


class Obligation:
    __slots__ = ("key", "kind", "func", "file", "line", "status", "reason", "need", "facts", "chain", "count", "desc")

    def __init__(self, key, kind, func, file, line, desc):
        self.key = key
        self.kind = kind
        self.func = func
        self.file = file
        self.line = line
        self.desc = desc
        self.status = None
        self.reason = ""
        self.need = ""
        self.facts = []
        self.chain = None
        self.count = 0


class Engine:
    def __init__(self, facts, max_depth=16, budget=400000, partition_budget=4096):
        self.F = facts
        self.T = TypeCtx(facts)
        self.M = Memory(self)
        self.bounds = {}
        self.len_syms = set()
        self.usize_max = (1 << 64) - 1
        self.len_max = 1 << 56  # address-space axiom
        self.hv = 0
        self.fid = 0
        self.max_depth = max_depth
        self.budget = budget
        self.steps = 0
        self.partition_budget = partition_budget
        self.obligations = {}
        self.unknown_callees = defaultdict(int)
        self.analysed = set()
        self.const_bytes = {}
        self.events = []  # generic event log for rules (appended by contracts)
        self.partition_filter = None  # callable(frame, block index, kind, detail) -> bool
        self.inline_filter = None  # callable(path) -> bool: may this local callee be inlined
        self.deadline = None  # optional wall-clock limit (time.time() value) for auxiliary analyses
        self.len_bound_all_joins = False  # apply the length-bound join template at every join, not only at loop heads (costly)
        self.model_lazy_collect = False  # analyse `iter.map(f).collect()` over an unknown-length iterator as an abstract loop (built, off: the invariant it infers for values captured by reference is too weak)
        self.on_closure = None  # hook(eng, st, frame, closure aggregate rvalue, captured operand values)
        self.on_agg = None  # hook(eng, st, frame, aggregate rvalue, operand values): observe ADT constructions
        self.on_call = None  # hook(eng, st, frame, f, args, site) -> outcomes or None
        self.trace = False
        self.key_all = False  # full path sensitivity (small functions only)
        self.merge_returns = False  # join the partitions created inside an inlined callee at its return (per returned variant)
        self.split_depth = None  # frames up to this inlining depth have multi-variant exits split per variant
        self.key_top_outcomes = False  # key on the variant shape of call results in the entry function
        self.key_adts = set()  # ADT paths whose variant switches are always partition predicates
        self.rd_syms = {}  # symbol of a value read from a byte slice -> (base, offset Lin, width in bytes, order class)
        self.cuts = set()  # local functions treated modularly: weak nom-parser contract at call sites, verified stand-alone by the rule
        self.cut_uses = defaultdict(int)
        self.keep_key = None  # callable(key item) -> bool: partition items that survive a callee's return under merge_returns
        self.keyed_events = set()
        self.counters = set()  # loop-head phi symbols that are loop counters (counter axiom)
        self.sym_terms = {}  # sym -> term description (div/mod/mul/cast provenance) for TERM rules
        self.impl_index = {}
        for imp in facts.impls:
            tr = imp.get("trait")
            if tr:
                for it in imp["items"]:
                    self.impl_index[(tr, imp["self"], it["name"])] = it["path"]
        from engine import contracts

        self.contracts = contracts.REGISTRY

    # ------------------------------------------------------------------ symbols
    def declare(self, name, lo, hi):
        if name not in self.bounds:
            self.bounds[name] = (lo, hi)
        return name

    def fresh_int(self, hint, w, signed, lo=None, hi=None, tags=frozenset()):
        self.hv += 1
        n = "%s#%d" % (hint, self.hv)
        tlo, thi = ty_range(w, signed)
        self.bounds[n] = (tlo if lo is None else max(lo, tlo), thi if hi is None else min(hi, thi))
        return Int(Lin.sym(n), None, w, signed, tags)

    def named_int(self, name, w, signed, lo=None, hi=None, tags=frozenset()):
        tlo, thi = ty_range(w, signed)
        if name not in self.bounds:
            self.bounds[name] = (tlo if lo is None else max(lo, tlo), thi if hi is None else min(hi, thi))
        return Int(Lin.sym(name), None, w, signed, tags)

    def top_of(self, ti, hint="t"):
        self.hv += 1
        return Top(ti, "%s#%d" % (hint, self.hv))

    # ------------------------------------------------------------------ entry
    def new_state(self):
        return State()

    def symbolic_args(self, body, sub=None, names=None):
        """Symbolic argument values for calling `body` stand-alone."""
        vals = []
        for i in range(1, body["arg_count"] + 1):
            ti = self.T.subst(body["locals"][i]["ty"], sub or {})
            nm = None
            for d in body.get("debug", []):
                if d.get("arg") == i and not d["p"]["p"]:
                    nm = d["name"]
            if names and i - 1 < len(names) and names[i - 1]:
                nm = names[i - 1]
            vals.append(Top(ti, nm or "arg%d" % i))
        return vals

    def call_path(self, path, args, st=None, sub=None):
        """Analyse local function `path` with the given argument values. Returns [(state, retval)]."""
        body = self.F.body(path)
        if body is None:
            raise KeyError(path)
        if st is None:
            st = State()
        return self.run_body(body, sub or {}, args, st, None)

    # ------------------------------------------------------------------ body analysis
    def run_body(self, body, sub, args, st0, parent, site=None):
        depth = parent.depth + 1 if parent else 0
        self.fid += 1
        fr = Frame(body, "f%d" % self.fid, sub, depth, parent, site)
        self.analysed.add(body["path"])
        entry_keylen = len(st0.key)
        st = st0.fork() if parent is None else st0
        for i, v in enumerate(args):
            st.locs[(fr.fid, i + 1)] = v
        pending = {0: {st.key: st}}
        heap = [(0, 0)]
        head_in = {}  # (block, key) -> state last used at a loop head
        head_iter = defaultdict(int)
        head_keylen = {}
        results = {}
        blocks = body["blocks"]
        while heap:
            _, b = heapq.heappop(heap)
            sts = pending.pop(b, None)
            if not sts:
                continue
            if b in fr.loop_heads:
                # key hygiene: decisions taken inside the loop body do not survive the back edge
                base_len = head_keylen.get(b)
                if base_len is None:
                    base_len = head_keylen[b] = min(len(k) for k in sts)
                merged = {}
                for key, s in sts.items():
                    k2 = key[:base_len] + tuple(x for x in key[base_len:] if x[0] == "unroll")
                    s.key = k2
                    if k2 in merged:
                        j = self.M.join_states(merged[k2], s, "%s:bb%d" % (fr.fid, b))
                        j.key = k2
                        merged[k2] = j
                    else:
                        merged[k2] = s
                sts = merged
            for key, s in list(sts.items()):
                if b in fr.loop_heads:
                    hk = (b, key)
                    old = head_in.get(hk)
                    if old is not None:
                        j = self.M.join_states(old, s, "%s:bb%d" % (fr.fid, b), loop_head=True, counter_locs={(fr.fid, l) for l in fr.counter_locals})
                        j.key = key
                        head_iter[hk] += 1
                        if head_iter[hk] > 8:
                            # widen: drop all facts that changed
                            j.facts = old.facts & j.facts
                        if self._same_state(old, j):
                            continue
                        s = j
                    head_in[hk] = s.fork()
                self.steps += 1
                if self.steps > self.budget:
                    raise Budget("analysis budget exceeded in %s" % body["path"])
                if self.deadline is not None and (self.steps & 63) == 0 and time.time() > self.deadline:
                    raise Budget("analysis time limit exceeded in %s" % body["path"])
                try:
                    succ = self.exec_block(fr, b, s)
                except Dead:
                    continue
                for (tb, ns) in succ:
                    if tb == "ret":
                        rv = ns.locs.get((fr.fid, 0), UNIT)
                        self._add_result(results, ns, rv, fr)
                        continue
                    d = pending.setdefault(tb, {})
                    ex = d.get(ns.key)
                    if ex is None:
                        if len(d) >= self.partition_budget:
                            # budget: merge into an arbitrary existing partition (sound join)
                            k0 = next(iter(d))
                            j = self.M.join_states(d[k0], ns, "%s:bb%d" % (fr.fid, tb))
                            j.key = k0
                            d[k0] = j
                        else:
                            d[ns.key] = ns
                    else:
                        j = self.M.join_states(ex, ns, "%s:bb%d" % (fr.fid, tb))
                        j.key = ns.key
                        d[ns.key] = j
                    heapq.heappush(heap, (fr.rpo_index.get(tb, 1 << 30), tb))
        if self.merge_returns and parent is not None and len(results) > 1:
            results = self._merge_results(results, fr, len(st0.key) if entry_keylen is None else entry_keylen)
        if self.merge_returns and self.split_depth is not None and fr.depth <= self.split_depth:
            results = self._split_results(results, fr)
        out = []
        for key, (s, rv) in results.items():
            # lazy variant tests on this frame's locals are decided now, while the locals still exist
            rv = self._close_conds(s, rv, fr.fid)
            # drop the frame's locals
            for loc in [l for l in s.locs if isinstance(l, tuple) and l[0] == fr.fid]:
                del s.locs[loc]
            out.append((s, rv))
        return out

    def _close_conds(self, st, v, fid, depth=0):
        """Replace Bool conditions that mention a place of frame `fid` by their simplified form."""
        if depth > 4:
            return v
        if isinstance(v, Bool):
            c = v.cond
            if self._cond_mentions(c, fid):
                try:
                    c2 = self.simplify_cond(st, c)
                    if c2[0] == "isvar":
                        # the tested local was copied / moved before the partition decided its variant: the copies share
                        # the value's name, and the partition key records the decision
                        ev = self.M.read_path(st, c2[1], c2[2])
                        if isinstance(ev, Enum):
                            want = self.T.variant_name(ev.ty, self.T.variant_by_discr(ev.ty, c2[3]))
                            for k in reversed(st.key):
                                if k[0] == "variant" and k[1] == ev.name and "|" not in str(k[2]):
                                    c2 = ("const", (k[2] == want) == bool(c2[4]))
                                    break
                    return Bool(c2)
                except Exception:
                    return v
            return v
        if isinstance(v, Struct):
            fs = tuple(self._close_conds(st, x, fid, depth + 1) for x in v.fields)
            return v if all(a is b for a, b in zip(fs, v.fields)) else Struct(v.ty, fs)
        if isinstance(v, Enum):
            changed = False
            vs = []
            for vi, fs in v.variants:
                nf = tuple(self._close_conds(st, x, fid, depth + 1) for x in fs)
                changed = changed or any(a is not b for a, b in zip(nf, fs))
                vs.append((vi, nf))
            return Enum(v.ty, tuple(vs), v.name, v.guards) if changed else v
        return v

    def _cond_mentions(self, c, fid):
        if not isinstance(c, tuple) or not c:
            return False
        if c[0] == "isvar":
            return isinstance(c[1], tuple) and len(c[1]) == 2 and c[1][0] == fid
        if c[0] in ("not",):
            return self._cond_mentions(c[1], fid)
        if c[0] in ("and", "or"):
            return self._cond_mentions(c[1], fid) or self._cond_mentions(c[2], fid)
        return False

    def _add_result(self, results, ns, rv, fr):
        ex = results.get(ns.key)
        if ex is None:
            results[ns.key] = (ns, rv)
        else:
            s0, r0 = ex
            # join states and return values at the function's exit
            ns.locs[(fr.fid, "ret")] = rv
            s0.locs[(fr.fid, "ret")] = r0
            j = self.M.join_states(s0, ns, "%s:ret" % fr.fid)
            j.key = ns.key
            r = j.locs.pop((fr.fid, "ret"))
            results[ns.key] = (j, r)

    def _shape_label(self, rv, depth=0):
        """Variant shape of a returned value: nested single-variant enums (Ok/Err, Some/None) down to depth 3."""
        if depth > 3:
            return ()
        if isinstance(rv, Enum):
            if len(rv.variants) != 1:
                return ("*",)
            vi, fs = rv.variants[0]
            out = (vi,)
            for f in fs[:2]:
                out = out + self._shape_label(f, depth + 1)
            return out
        if isinstance(rv, Struct):
            out = ()
            for f in rv.fields[:3]:
                out = out + self._shape_label(f, depth + 1)
            return out
        return ()

    def _split_results(self, results, fr):
        """An exit whose value may be one of several variants (states joined inside the callee on data conditions) is
        split into one outcome per variant, each refined with the facts guarded by that variant (two levels deep)."""
        out = {}
        for key, (s, rv) in results.items():
            parts = self._split_value(s, rv, 0)
            if len(parts) == 1:
                out[key] = (s, rv)
                continue
            for i, (ns, nv, lab) in enumerate(parts):
                k2 = key + (("split", fr.path.split("::")[-1], lab),)
                ns.key = k2
                out[k2] = (ns, nv)
        return out

    def _split_value(self, st, rv, depth):
        if not isinstance(rv, Enum) or len(rv.variants) <= 1:
            if isinstance(rv, Enum) and depth < 2 and len(rv.variants) == 1:
                vi, fs = rv.variants[0]
                if len(fs) == 1 and isinstance(fs[0], Enum) and len(fs[0].variants) > 1:
                    outs = []
                    for (ns, nv, lab) in self._split_value(st, fs[0], depth + 1):
                        outs.append((ns, Enum(rv.ty, ((vi, (nv,)),), rv.name, None), (vi,) + lab))
                    return outs
            return [(st, rv, ())]
        outs = []
        for vi, fs in rv.variants:
            ns = st.fork()
            try:
                one = self.M.refine_enum(ns, rv, {vi})
            except Dead:
                continue
            for (ns2, nv, lab) in self._split_value(ns, one, depth):
                outs.append((ns2, nv, (vi,) + lab if not lab or lab[0] != vi else lab))
        return outs or [(st, rv, ())]

    def _merge_results(self, results, fr, base):
        """Partitions created inside an inlined callee do not survive its return: exits are joined per
        (caller partition, kept key items, variant shape of the returned value)."""
        merged = {}
        for key, (s, rv) in results.items():
            lab = self._shape_label(rv)
            kept = tuple(x for x in key[base:] if self.keep_key(x, fr)) if self.keep_key is not None else ()
            k2 = key[:base] + kept + ((("ret", fr.path.split("::")[-1], lab),) if lab else ())
            s.key = k2
            ex = merged.get(k2)
            if ex is None:
                merged[k2] = (s, rv)
            else:
                s0, r0 = ex
                s.locs[(fr.fid, "ret")] = rv
                s0.locs[(fr.fid, "ret")] = r0
                j = self.M.join_states(s0, s, "%s:ret" % fr.fid)
                j.key = k2
                r = j.locs.pop((fr.fid, "ret"))
                merged[k2] = (j, r)
        return merged

    def _same_state(self, a, b):
        if a.facts != b.facts:
            return False
        if a.locs.keys() != b.locs.keys():
            return False
        for k, v in a.locs.items():
            w = b.locs[k]
            if v is not w and v != w:
                return False
        return a.bits == b.bits

    # ------------------------------------------------------------------ block execution
    def exec_block(self, fr, b, st, start=0):
        blk = fr.body["blocks"][b]
        if blk["cleanup"]:
            return []
        for si in range(start, len(blk["stmts"])):
            s = blk["stmts"][si]
            k = s["k"]
            if k == "assign":
                rv = s["rv"]
                if rv["k"] == "cast" and rv.get("ck", rv.get("kind", "")) in ("IntToInt", "") :
                    # `flag as usize` on a named input flag: decided like a branch on the flag (two successors), so that
                    # `16 * flag as usize` is a constant per partition instead of an opaque product
                    src = self.eval_operand(fr, st, rv["a"])
                    if isinstance(src, Bool):
                        c = self.simplify_cond(st, src.cond)
                        while c[0] == "not":
                            c = c[1]
                        if c[0] == "sym" and "#" not in str(c[1]):
                            outs = []
                            for truth in (True, False):
                                ns = st.fork()
                                try:
                                    ki = self.assume(ns, src.cond, truth)
                                except Dead:
                                    continue
                                if ki is not None and ki not in ns.key:
                                    ns.key = ns.key + (ki,)
                                try:
                                    outs.extend(self.exec_block(fr, b, ns, si))
                                except Dead:
                                    continue
                            return outs
                        if c[0] in ("bit", "isvar"):
                            # `(x & FLAG != 0) as u16`, `opt.is_some() as u16`: arithmetic on presence flags; decided
                            # like the `if` it replaces (same refinement, same partition rule as a switch on the bool)
                            c0 = self.simplify_cond(st, src.cond)
                            outs = []
                            for truth in (True, False):
                                ns = st.fork()
                                try:
                                    ki = self.assume(ns, c0, truth)
                                except Dead:
                                    continue
                                if ki is not None and ki not in ns.key and (self._want_partition(fr, b, "cond", ki) or (ki[0] == "variant" and self._cond_key_adt(st, c0))):
                                    ns.key = ns.key + (ki,)
                                try:
                                    outs.extend(self.exec_block(fr, b, ns, si))
                                except Dead:
                                    continue
                            return outs
                    elif isinstance(src, Int) and not src.lin.is_const() and src.bits is not None and self._one_flag_bit(src) is not None and ("c" in rv["a"] or "m" in rv["a"]):
                        # `(x & FLAG) as u16` with one undecided input bit: a presence flag used arithmetically; decided
                        # like the `if x & FLAG != 0` it replaces
                        i, at = self._one_flag_bit(src)
                        pl = rv["a"].get("c") or rv["a"].get("m")
                        sloc, spath = self.M.resolve(st, fr, pl)
                        outs = []
                        for val in (0, 1):
                            ns = st.fork()
                            real = val if at[0] == "b" else 1 - val
                            try:
                                ns.set_bit(at[1], at[2], real)
                                bs = tuple(val if j == i else x for j, x in enumerate(src.bits))
                                self.M.write_path(ns, sloc, spath, self.int_from_bits(ns, bs, src.w, src.signed, src.tags))
                            except Dead:
                                continue
                            ki = ("bit", at[1], at[2], real)
                            if ki not in ns.key and self._want_partition(fr, b, "cond", ki):
                                ns.key = ns.key + (ki,)
                            try:
                                outs.extend(self.exec_block(fr, b, ns, si))
                            except Dead:
                                continue
                        return outs
                    elif isinstance(src, Int) and not src.lin.is_const() and any(isinstance(tg, tuple) and tg[0] == "discr" for tg in src.tags) and ("c" in rv["a"] or "m" in rv["a"]):
                        # `enum_value as uN` (MIR: discriminant read, then an int-to-int cast): one successor per
                        # variant, like the `match` it replaces
                        dt = [tg for tg in src.tags if isinstance(tg, tuple) and tg[0] == "discr"][0]
                        ev = self.M.read_path(st, dt[1], dt[2])
                        if isinstance(ev, Enum) and 1 < len(ev.variants) <= 8:
                            pl = rv["a"].get("c") or rv["a"].get("m")
                            sloc, spath = self.M.resolve(st, fr, pl)
                            outs = []
                            for vi, _fs in ev.variants:
                                ns = st.fork()
                                try:
                                    self.M.write_path(ns, dt[1], dt[2], self.M.refine_enum(ns, ev, {vi}))
                                    self.M.write_path(ns, sloc, spath, int_const(self.T.variant_discr(ev.ty, vi), src.w, src.signed)._replace(tags=src.tags))
                                except Dead:
                                    continue
                                if self._want_partition(fr, b, "variant", ev.name) or self._key_adt(ev):
                                    ki = ("variant", ev.name, self.T.variant_name(ev.ty, vi))
                                    if ki not in ns.key:
                                        ns.key = ns.key + (ki,)
                                try:
                                    outs.extend(self.exec_block(fr, b, ns, si))
                                except Dead:
                                    continue
                            return outs
                    elif isinstance(src, Enum) and 1 < len(src.variants) <= 8 and all(not fs for _, fs in src.variants) and "c" in rv["a"] or isinstance(src, Enum) and 1 < len(src.variants) <= 8 and all(not fs for _, fs in src.variants) and "m" in rv["a"]:
                        # fieldless enum `as` integer: one successor per variant (the `match` it replaces)
                        pl = rv["a"].get("c") or rv["a"].get("m")
                        loc, path = self.M.resolve(st, fr, pl)
                        outs = []
                        for vi, _fs in src.variants:
                            ns = st.fork()
                            try:
                                self.M.write_path(ns, loc, path, self.M.refine_enum(ns, src, {vi}))
                            except Dead:
                                continue
                            if self._want_partition(fr, b, "variant", src.name) or self._key_adt(src):
                                ki = ("variant", src.name, self.T.variant_name(src.ty, vi))
                                if ki not in ns.key:
                                    ns.key = ns.key + (ki,)
                            try:
                                outs.extend(self.exec_block(fr, b, ns, si))
                            except Dead:
                                continue
                        return outs
                v = self.eval_rvalue(fr, st, s["rv"], s)
                loc, path = self.M.resolve(st, fr, s["p"])
                self.M.write_path(st, loc, path, v)
            elif k == "setdiscr":
                loc, path = self.M.resolve(st, fr, s["p"])
                cur = self.M.read_path(st, loc, path)
                if isinstance(cur, Top):
                    cur = self.M.force(st, cur)
                if isinstance(cur, Enum):
                    vs = tuple(x for x in cur.variants if x[0] == s["v"])
                    self.M.write_path(st, loc, path, Enum(cur.ty, vs or cur.variants, cur.name))
        return self.exec_term(fr, b, st, blk)

    def _one_flag_bit(self, v):
        """(position, atom) when exactly one bit of v is an undecided input bit and all others are constants."""
        unk = [(i, x) for i, x in enumerate(v.bits) if x not in (0, 1)]
        if len(unk) == 1 and isinstance(unk[0][1], tuple) and unk[0][1][0] in ("b", "nb") and not re.match(r"^(phi\(|hv\d|b2i#|bop#|cmp#|fcmp#|ovf#|ret#|u#|t#)", str(unk[0][1][1])):
            return unk[0]
        return None

    # ------------------------------------------------------------------ operands
    def eval_operand(self, fr, st, o):
        if "c" in o or "m" in o:
            p = o.get("c") or o.get("m")
            loc, path = self.M.resolve(st, fr, p)
            v = self.M.read_path(st, loc, path)
            if v is None:
                ti = self.place_ty(fr, p)
                v = self.top_of(ti, "u") if ti is not None else ("ANY", "uninit")
                if ti is not None:
                    self.M.write_path(st, loc, path, v)
            if isinstance(v, Top):
                v = self.M.force_at(st, loc, path, v)
            return v
        if "k" in o:
            return self.eval_const(fr, st, o["k"])
        return ("ANY", "rt")

    def place_ty(self, fr, place):
        from rules.common import place_ty

        ti = place_ty(self.F, fr.body, place)
        if ti is None:
            return None
        return self.T.subst(ti, fr.sub)

    def eval_const(self, fr, st, k):
        T = self.T
        ti = T.subst(k["ty"], fr.sub)
        t = T.t(ti)
        if "fn" in k:
            f = k["fn"]
            return Fn(frozenset([("item", f["path"], self._fkey(f, fr))]))
        if "closure" in k:
            return Fn(frozenset([("closure", k["closure"], None, tuple(sorted(fr.sub.items())))]))
        if "promoted" in k:
            return self.eval_promoted(fr, st, k["promoted"])
        kind = t["k"]
        if "uneval" in k and "int" not in k and "tree" not in k:
            r = self._resolve_trait_const(fr, k)
            if r is not None:
                k = dict(k, **r)
            else:
                # a const generic parameter of the inlined function: the value this call path instantiates it with
                cv = fr.sub.get("const " + str(k["uneval"]))
                if isinstance(cv, int) and not isinstance(cv, bool):
                    k = dict(k, int=str(cv))
                elif re.match(r"^[A-Z_][A-Z0-9_]*$", str(k["uneval"])) and ("const " + str(k["uneval"])) in (fr.body.get("generics") or []) and T.int_info(ti):
                    # analysed stand-alone: the parameter is one unknown value, the same at every use
                    ii_ = T.int_info(ti)
                    return self.named_int("const:%s" % k["uneval"], ii_[0], ii_[1])
        if "int" in k:
            if kind == "bool":
                return TRUE if int(k["int"]) else FALSE
            ii = T.int_info(ti)
            if ii:
                v = int_const(int(k["int"]), ii[0], ii[1])
                if "item" in k:
                    v = v._replace(tags=frozenset([("const", k["item"])]))
                return v
            if kind == "float":
                return Flt(("const", int(k["bits"])), t["bits"])
            return Top(ti, "const")
        if "tree" in k:
            v = self.const_tree(k["tree"])
            if v is not None:
                return v
        for key in ("bytes", "ptr_bytes", "indirect_bytes"):
            if key in k:
                data = bytes(k[key])
                base = "const:%s" % (k.get("item") or data.hex())
                self.const_bytes[base] = data
                if kind in ("ref", "ptr"):
                    to = T.t(t["to"])
                    if to["k"] in ("slice", "str"):
                        return Slice(base, Lin.const(0), Lin.const(len(data)), None)
                    if to["k"] == "array":
                        loc = "obj:" + base
                        if loc not in st.locs:
                            st.locs[loc] = Arr(t["to"], tuple(int_const(x, 8, False) for x in data))
                        return Ref(loc, (), False)
                if kind == "array" and len(data) <= 32:
                    et = T.t(t["of"]) if "of" in t else None
                    if et and et["k"] == "uint" and et["bits"] == 8:
                        return Arr(ti, tuple(int_const(x, 8, False) for x in data))
                return Top(ti, base)
        if "zst" in k:
            if kind == "tuple":
                return UNIT
            if kind == "adt":
                a = T.adt(ti)
                if a and a["kind"] == "struct" and "variants" in a and not a["variants"][0]["fields"]:
                    return Struct(ti, ())
            return Top(ti, "zst")
        return self.top_of(ti, "const")

    _UNEVAL = re.compile(r"^<(\w+) as ([\w:]+)>::(\w+)$")

    def _resolve_trait_const(self, fr, k):
        """`<P as Trait>::NAME` with P a type parameter the frame instantiates: the value the implementing type gives
        (the driver lists `<Impl as Trait>::NAME` for every impl of a local trait, defaults included)."""
        m = self._UNEVAL.match(str(k.get("uneval", "")))
        if not m:
            return None
        p, tr, name = m.groups()
        ti = fr.sub.get(p)
        if ti is None:
            f = fr.parent
            while f is not None and ti is None:
                ti = f.sub.get(p)
                f = f.parent
        if ti is None:
            return None
        c = self.F.consts.get("<%s as %s>::%s" % (self.T.s(ti), tr, name))
        if not c:
            return None
        return {kk: c[kk] for kk in ("int", "bits", "size", "tree", "bytes", "ptr_bytes", "indirect_bytes") if kk in c}

    def const_tree(self, t):
        """Value of a structured aggregate constant (driver: layout-independent tree of arrays / tuples / ADTs of ints)."""
        T = self.T
        if "int" in t:
            ti = t["ty"]
            if T.t(ti)["k"] == "bool":
                return TRUE if int(t["int"]) else FALSE
            ii = T.int_info(ti)
            if not ii:
                return None
            return int_const(int(t["int"]), ii[0], ii[1])
        if "fnptr" in t:
            f = t["fnptr"]
            if f.get("inst") == "closure_once_shim" and f.get("self_ty") is not None and T.t(f["self_ty"])["k"] == "closure" and not T.t(f["self_ty"]).get("upvars"):
                # a non-capturing closure coerced to a function pointer: calling the pointer runs the closure body
                return Fn(frozenset([("closure", T.t(f["self_ty"])["path"], None, ())]))
            class _NoSub:  # a constant's function pointers are fully monomorphic
                sub = {}
            return Fn(frozenset([("item", f["path"], self._fkey(f, _NoSub))]))
        if "bytes" in t and "agg" not in t:
            data = bytes(t["bytes"])
            base = "const:%s" % data.hex()
            self.const_bytes[base] = data
            return Slice(base, Lin.const(0), Lin.const(len(data)), None)
        fs = [self.const_tree(x) for x in t.get("fields", [])]
        if any(x is None for x in fs):
            return None
        kind = t.get("agg")
        if kind == "array":
            return Arr(t["ty"], tuple(fs))
        if kind == "tuple":
            return Struct(None, tuple(fs)) if fs else UNIT
        if kind == "adt":
            a = T.adt(t["ty"])
            if a and a.get("kind") == "enum":
                return Enum(t["ty"], ((int(t.get("variant", 0)), tuple(fs)),), "const")
            if a and a.get("kind") == "struct":
                return Struct(t["ty"], tuple(fs))
        return None

    def _fkey(self, f, fr):
        """Hashable descriptor of a fn reference with generic args substituted by the frame."""
        args = tuple(self.T.subst(a, fr.sub) if isinstance(a, int) else a for a in f.get("args", []))
        st = f.get("self_ty")
        if st is not None:
            st = self.T.subst(st, fr.sub)
        return (f["path"], args, f.get("trait"), f.get("name"), st, f.get("resolved"), tuple(self.T.subst(a, fr.sub) if isinstance(a, int) else a for a in f.get("resolved_args", [])) if f.get("resolved") else None, f.get("impl_self"), f.get("impl_trait"), f.get("ctor_adt"), f.get("ctor_variant"))

    def eval_promoted(self, fr, st, n):
        pb = fr.body["promoted"][n]
        key = (fr.path, n)
        pb = dict(pb)
        pb["path"] = "%s::promoted[%d]" % (fr.path, n)
        pb.setdefault("promoted", [])
        pb.setdefault("debug", [])
        # analyse the promoted body as a parameterless function whose frame is kept alive
        self.fid += 1
        pfr = Frame(pb, "p%d" % self.fid, fr.sub, fr.depth + 1, fr)
        cur = st
        b = 0
        seen = 0
        while True:
            seen += 1
            if seen > 64:
                return self.top_of(self.T.subst(pb["locals"][0]["ty"], fr.sub), "prom")
            try:
                succ = self.exec_block(pfr, b, cur)
            except Dead:
                return self.top_of(self.T.subst(pb["locals"][0]["ty"], fr.sub), "prom")
            if len(succ) != 1:
                return self.top_of(self.T.subst(pb["locals"][0]["ty"], fr.sub), "prom")
            tb, ns = succ[0]
            if ns is not cur:
                # exec_block may fork; copy results back
                st.locs.update(ns.locs)
                st.facts = ns.facts
                cur = st
            if tb == "ret":
                return cur.locs.get((pfr.fid, 0))
            b = tb

    # ------------------------------------------------------------------ rvalues
    def eval_rvalue(self, fr, st, rv, stmt=None):
        k = rv["k"]
        T = self.T
        if k == "use":
            return self.eval_operand(fr, st, rv["a"])
        if k in ("ref", "rawptr"):
            loc, path = self.M.resolve(st, fr, rv["p"])
            # reference to a slice/str/container value reached through a deref: the fat pointer itself
            if path and path[-1] == ("deref",):
                v = self.M.read_path(st, loc, path[:-1])
                if isinstance(v, (Slice,)):
                    return v
                if isinstance(v, Cont):
                    return Ref(loc, path[:-1], rv.get("mut", False))
                return Ref(loc, path[:-1], rv.get("mut", False))
            return Ref(loc, path, rv.get("mut", False))
        if k == "copyderef":
            return self.eval_operand(fr, st, {"c": rv["p"]})
        if k == "cast":
            return self.eval_cast(fr, st, rv)
        if k == "bin":
            a = self.eval_operand(fr, st, rv["a"])
            b = self.eval_operand(fr, st, rv["b"])
            return self.eval_bin(fr, st, rv["op"], a, b, rv)
        if k == "un":
            a = self.eval_operand(fr, st, rv["a"])
            return self.eval_un(fr, st, rv["op"], a)
        if k == "discr":
            loc, path = self.M.resolve(st, fr, rv["p"])
            v = self.M.read_path(st, loc, path)
            if isinstance(v, Top):
                v = self.M.force_at(st, loc, path, v)
            if isinstance(v, Enum):
                if len(v.variants) == 1:
                    return int_const(T.variant_discr(v.ty, v.variants[0][0]), 64, True)._replace(tags=frozenset([("discr", loc, path)]))
                r = self.fresh_int("discr", 64, True, 0, None)
                return r._replace(tags=frozenset([("discr", loc, path)]))
            return self.fresh_int("discr", 64, True)
        if k == "agg":
            ops = [self.eval_operand(fr, st, o) for o in rv["ops"]]
            ak = rv["ak"]
            if ak == "tuple":
                if not ops:
                    return UNIT
                return Struct(None, tuple(ops))
            if ak == "array":
                return Arr(None, tuple(ops))
            if ak == "adt":
                a = self.F.adts.get(rv["adt"])
                targs = [T.subst(x, fr.sub) for x in rv.get("args", []) if isinstance(x, int)]
                ti = T.mk_adt(rv["adt"], targs)
                if self.on_agg is not None:
                    self.on_agg(self, st, fr, rv, ops)
                if a and a["kind"] == "enum":
                    return Enum(ti, ((rv["variant"], tuple(ops)),), "agg")
                return Struct(ti, tuple(ops))
            if ak in ("closure", "coroutine", "coroutine_closure"):
                self.hv += 1
                envloc = "obj:env%d" % self.hv
                st.locs[envloc] = Struct(None, tuple(ops))
                if self.on_closure is not None:
                    self.on_closure(self, st, fr, rv, ops)
                return Fn(frozenset([("closure", rv["def"], envloc, tuple(sorted(fr.sub.items())))]))
            return ("ANY", "agg")
        if k == "repeat":
            a = self.eval_operand(fr, st, rv["a"])
            n = rv.get("n")
            if n is None and rv.get("np"):
                cv = fr.sub.get("const " + str(rv["np"]))   # `[0u8; N]` with N a const parameter of this call path
                if isinstance(cv, int) and not isinstance(cv, bool):
                    n = cv
            if n is not None and n <= 32:
                return Arr(None, tuple(a for _ in range(n)))
            return ("ANY", "repeat")
        return ("ANY", k)

    def eval_cast(self, fr, st, rv):
        T = self.T
        a = self.eval_operand(fr, st, rv["a"])
        ti = T.subst(rv["ty"], fr.sub)
        ck = rv["ck"]
        if ck == "IntToInt":
            ii = T.int_info(ti)
            if ii is None:
                return self.top_of(ti, "cast")
            w, sg = ii
            if isinstance(a, Bool):
                a = self.bool_to_int(st, a, 8)
            if isinstance(a, Enum):
                # fieldless enum `as` integer: the discriminant
                if len(a.variants) == 1:
                    return int_const(T.variant_discr(a.ty, a.variants[0][0]), w, sg)
                ds = [T.variant_discr(a.ty, vi) for vi, _ in a.variants]
                r = self.fresh_int("discr", w, sg, min(ds), max(ds))
                return r._replace(tags=frozenset([("discr_of", a.name, tuple(ds))]))
            if not isinstance(a, Int):
                return self.fresh_int("cast", w, sg)
            lo, hi = ty_range(w, sg)
            fits = st.holds(a.lin.sub(lo), self) and st.holds(Lin.const(hi).sub(a.lin), self)
            bits = None
            if a.bits is not None:
                if w <= a.w:
                    bits = a.bits[:w]
                elif not a.signed:
                    bits = a.bits + (0,) * (w - a.w)
            if fits:
                return Int(a.lin, bits, w, sg, a.tags)
            r = self.fresh_int("trunc", w, sg)
            self.sym_terms[r.lin.single_sym()] = ("trunc", a.lin, a.w, a.signed, w, sg)
            if bits is None and a.w >= w and w <= 16:
                s = a.lin.single_sym()
                if s is not None and not a.signed:
                    bits = tuple(self.bit_atom(st, s, i) for i in range(w))
            return Int(r.lin, bits, w, sg, a.tags | frozenset([("lossy_cast", a.w, w)]))
        if ck == "IntToFloat":
            w = T.t(ti)["bits"]
            if isinstance(a, Int):
                return Flt(("itof", a.lin, a.w, a.signed), w)
            return Flt(("sym", "itof?"), w)
        if ck == "FloatToInt":
            ii = T.int_info(ti)
            r = self.fresh_int("ftoi", ii[0], ii[1])
            if isinstance(a, Flt):
                self.sym_terms[r.lin.single_sym()] = ("ftoi", a.term, a.w, ii[0], ii[1])
            return r
        if ck == "FloatToFloat":
            w = T.t(ti)["bits"]
            if isinstance(a, Flt):
                if a.w == w:
                    return a
                return Flt(("fcvt", a.term, a.w), w)
            return Flt(("sym", "fcvt?"), w)
        if ck.startswith("PointerCoercion"):
            if "Unsize" in ck:
                return self.unsize(st, a, ti)
            return a
        if ck in ("PtrToPtr", "Transmute", "Subtype"):
            if isinstance(a, (Ref, Slice)):
                return a
            return self.top_of(ti, "cast")
        return self.top_of(ti, "cast")

    def unsize(self, st, a, ti):
        """&[T; N] -> &[T]: a slice aliasing the array's location."""
        if isinstance(a, Ref):
            v = self.M.read_path(st, a.loc, a.path)
            if isinstance(v, Top):
                v = self.M.force_at(st, a.loc, a.path, v)
            if isinstance(v, Arr):
                return Slice(("loc", a.loc, a.path), Lin.const(0), Lin.const(len(v.elems)), None)
        if isinstance(a, Slice):
            return a
        return a

    def bool_to_int(self, st, b, w):
        c = self.simplify_cond(st, b.cond)
        if c[0] == "const":
            return int_const(1 if c[1] else 0, w, False)
        r = self.fresh_int("b2i", w, False, 0, 1)
        atom = ("c", c)
        if c[0] == "bit":
            atom = ("b", c[1], c[2]) if c[3] else ("nb", c[1], c[2])
        return Int(r.lin, (atom,) + (0,) * (w - 1), w, False, frozenset())

    # ------------------------------------------------------------------ bits
    def bit_atom(self, st, sym, i):
        d = st.bits.get(sym)
        if d and i in d:
            return d[i]
        return ("b", sym, i)

    def bits_of(self, st, v):
        """Per-bit view of an Int (None if no useful bit information)."""
        if v.bits is not None:
            out = []
            for x in v.bits:
                if isinstance(x, tuple) and x[0] == "b":
                    d = st.bits.get(x[1])
                    out.append(d[x[2]] if d and x[2] in d else x)
                elif isinstance(x, tuple) and x[0] == "nb":
                    d = st.bits.get(x[1])
                    out.append(1 - d[x[2]] if d and x[2] in d else x)
                else:
                    out.append(x)
            return tuple(out)
        if v.lin.is_const():
            return bits_of_const(v.lin.c, v.w)
        s = v.lin.single_sym()
        if s is not None and not v.signed and v.w <= 64:
            b = self.bounds.get(s)
            if b and b[0] >= 0:
                # symbol's own width may be smaller (zero-extended)
                nb = max(1, int(b[1]).bit_length()) if b[1] != float("inf") else v.w
                return tuple(self.bit_atom(st, s, i) if i < nb else 0 for i in range(v.w))
        return None

    def int_from_bits(self, st, bits, w, signed, tags=frozenset()):
        c = const_of_bits(bits)
        if c is not None:
            if signed and c >= (1 << (w - 1)):
                c -= 1 << w
            return Int(Lin.const(c), bits, w, signed, tags)
        # the bits may be exactly those of one symbol (zero-extended)
        syms = {x[1] for x in bits if isinstance(x, tuple) and x[0] == "b"}
        if len(syms) == 1:
            s = next(iter(syms))
            ok = True
            nb = 0
            for i, x in enumerate(bits):
                if x == ("b", s, i):
                    nb = i + 1
                elif x == 0:
                    continue
                else:
                    ok = False
                    break
            b = self.bounds.get(s)
            if ok and b and b[0] >= 0 and b[1] < (1 << nb) * 1 and all(bits[i] == ("b", s, i) for i in range(nb)) and int(b[1]).bit_length() <= nb:
                return Int(Lin.sym(s), bits, w, signed, tags)
        comp = self._byte_composition(bits, w)
        if comp is not None:
            r = self.named_int(comp, w, signed)
            return Int(r.lin, None, w, signed, tags)
        hi = 0
        for i, x in enumerate(bits):
            if x != 0:
                hi |= 1 << i
        r = self.fresh_int("bits", w, signed, 0 if not signed or bits[-1] == 0 else None, hi if not signed or bits[-1] == 0 else None)
        return Int(r.lin, bits, w, signed, tags)

    _RD1 = re.compile(r"^rd\[(.+)@(.+):1:1\]$")

    def _byte_composition(self, bits, w):
        """Bits assembled from w/8 consecutive single-byte reads of one sequence (`(h[2] as u16) << 8 | h[3] as u16`,
        from_be_bytes by hand): the multi-byte read `rd[base@off:n:BE|LE]` the nom / byteorder contracts name."""
        if w not in (16, 32, 64) or len(bits) != w:
            return None
        n = w // 8
        offs = []
        base = None
        for j in range(n):
            x0 = bits[8 * j]
            if not (isinstance(x0, tuple) and x0[0] == "b" and x0[2] == 0):
                return None
            m = self._RD1.match(str(x0[1]))
            if not m:
                return None
            for i in range(8):
                if bits[8 * j + i] != ("b", x0[1], i):
                    return None
            if base is None:
                base = m.group(1)
            elif base != m.group(1):
                return None
            offs.append(m.group(2))

        def split(o):
            mm = re.match(r"^(.*?)(?: \+ )?(\d+)$", o)
            if mm:
                return mm.group(1), int(mm.group(2))
            return o, 0

        parts = [split(o) for o in offs]
        if len({p[0] for p in parts}) != 1:
            return None
        cs = [p[1] for p in parts]  # offset of the byte holding bits 8j..8j+7 (j = 0 least significant)
        if cs == list(range(cs[0], cs[0] + n)):
            order, lo = "LE", offs[0]
        elif cs == list(range(cs[0], cs[0] - n, -1)):
            order, lo = "BE", offs[-1]
        else:
            return None
        name = "rd[%s@%s:%d:%s]" % (base, lo, n, order)
        # registered like the reads the nom / byteorder contracts name (base, offset, width, order)
        one = self.rd_syms.get("rd[%s@%s:1:1]" % (base, lo))
        if one is not None:
            self.rd_syms.setdefault(name, (one[0], one[1], n, order))
        return name

    # ------------------------------------------------------------------ binary / unary
    def eval_bin(self, fr, st, op, a, b, rv):
        if isinstance(a, Bool) and isinstance(b, Bool):
            ca, cb = self.simplify_cond(st, a.cond), self.simplify_cond(st, b.cond)
            if op in ("Eq", "Ne"):
                if ca[0] == "const" and cb[0] == "const":
                    r = (ca[1] == cb[1]) if op == "Eq" else (ca[1] != cb[1])
                    return TRUE if r else FALSE
                if cb[0] == "const":
                    pos = cb[1] if op == "Eq" else not cb[1]
                    return Bool(ca if pos else self.neg_cond(ca))
                if ca[0] == "const":
                    pos = ca[1] if op == "Eq" else not ca[1]
                    return Bool(cb if pos else self.neg_cond(cb))
            if op == "BitAnd":
                if ca == ("const", True):
                    return Bool(cb)
                if cb == ("const", True):
                    return Bool(ca)
                if ca == ("const", False) or cb == ("const", False):
                    return FALSE
                return Bool(("and", ca, cb))
            if op == "BitOr":
                if ca == ("const", False):
                    return Bool(cb)
                if cb == ("const", False):
                    return Bool(ca)
                if ca == ("const", True) or cb == ("const", True):
                    return TRUE
                return Bool(("or", ca, cb))
            return Bool(("sym", "bop#%d" % self._hv()))
        if isinstance(a, Flt) or isinstance(b, Flt):
            if op in ("Add", "Sub", "Mul", "Div", "Rem"):
                w = a.w if isinstance(a, Flt) else b.w
                ta = a.term if isinstance(a, Flt) else ("?",)
                tb = b.term if isinstance(b, Flt) else ("?",)
                return Flt(("f" + op.lower(), ta, tb), w)
            return Bool(("sym", "fcmp#%d" % self._hv()))
        if not (isinstance(a, Int) and isinstance(b, Int)):
            if op in ("Eq", "Ne", "Lt", "Le", "Gt", "Ge"):
                return Bool(("sym", "cmp#%d" % self._hv()))
            if op.endswith("WithOverflow"):
                w, sg = (a.w, a.signed) if isinstance(a, Int) else (b.w, b.signed) if isinstance(b, Int) else (64, False)
                return Struct(None, (self.fresh_int("x", w, sg), Bool(("sym", "ovf#%d" % self._hv()))))
            if isinstance(a, Int):
                return self.fresh_int("x", a.w, a.signed)
            return ("ANY", op)
        w, sg = a.w, a.signed
        lo, hi = ty_range(w, sg)
        base = op.replace("WithOverflow", "").replace("Unchecked", "")
        if base in ("Add", "Sub", "Mul"):
            exact = None
            if base == "Add":
                exact = a.lin.add(b.lin)
            elif base == "Sub":
                exact = a.lin.sub(b.lin)
            else:
                if a.lin.is_const():
                    exact = b.lin.scale(a.lin.c)
                elif b.lin.is_const():
                    exact = a.lin.scale(b.lin.c)
                else:
                    # non-linear: fresh symbol bounded by the interval product
                    ia, ib = self.ival(st, a.lin), self.ival(st, b.lin)
                    cands = [x * y for x in ia for y in ib if abs(x) != float("inf") and abs(y) != float("inf")]
                    self.hv += 1
                    n = "mul#%d" % self.hv
                    if len(cands) == 4:
                        self.bounds[n] = (min(cands), max(cands))
                    else:
                        self.bounds[n] = (None, None) if False else (-(1 << 200), 1 << 200)
                    self.sym_terms[n] = ("mul", a.lin, b.lin)
                    exact = Lin.sym(n)
            tags = (a.tags | b.tags) & frozenset(["len"]) if base != "Mul" else frozenset()
            if op.endswith("WithOverflow"):
                return Struct(None, (Int(exact, None, w, sg, tags), Bool(("ovf", base, exact, w, sg, a.lin, b.lin))))
            if op.endswith("Unchecked"):
                return Int(exact, None, w, sg, tags)
            # plain op: wraps unless provably in range
            if st.holds(exact.sub(lo), self) and st.holds(Lin.const(hi).sub(exact), self):
                return Int(exact, None, w, sg, tags)
            r = self.fresh_int("wrap", w, sg)
            self.sym_terms[r.lin.single_sym()] = ("wrap", base, a.lin, b.lin, w, sg)
            return r
        if base in ("Div", "Rem"):
            if b.lin.is_const() and b.lin.c > 0 and st.holds(a.lin, self):
                D = b.lin.c
                an = repr(a.lin)
                q = self.named_int("(%s div %d)" % (an, D), w, sg, 0, None)
                r = self.named_int("(%s mod %d)" % (an, D), w, sg, 0, D - 1)
                qs, rs = q.lin.single_sym(), r.lin.single_sym()
                ia = self.ival(st, a.lin)
                if ia[1] != float("inf"):
                    ob = self.bounds[qs]
                    self.bounds[qs] = (ob[0], min(ob[1], int(ia[1]) // D))
                self.sym_terms[qs] = ("div", a.lin, D)
                self.sym_terms[rs] = ("mod", a.lin, D)
                e = a.lin.sub(q.lin.scale(D)).sub(r.lin)
                st.facts = st.facts | {e, e.neg()}
                return q if base == "Div" else r
            return self.fresh_int("divrem", w, sg)
        if base in ("BitAnd", "BitOr", "BitXor"):
            ba, bb = self.bits_of(st, a), self.bits_of(st, b)
            if ba is None or bb is None:
                if base == "BitAnd":
                    # bounded by either nonnegative operand
                    his = [self.ival(st, x.lin)[1] for x in (a, b) if self.ival(st, x.lin)[0] >= 0]
                    his = [h for h in his if h != float("inf")]
                    return self.fresh_int("and", w, sg, 0 if his else None, int(min(his)) if his else None)
                return self.fresh_int("bitop", w, sg)
            out = []
            for x, y in zip(ba, bb):
                if base == "BitAnd":
                    out.append(0 if x == 0 or y == 0 else y if x == 1 else x if y == 1 else x if x == y and x is not None else None)
                elif base == "BitOr":
                    out.append(1 if x == 1 or y == 1 else y if x == 0 else x if y == 0 else x if x == y and x is not None else None)
                else:
                    out.append(y if x == 0 else x if y == 0 else (1 - y) if x == 1 and y in (0, 1) else (1 - x) if y == 1 and x in (0, 1) else 0 if x == y and x is not None else None)
            return self.int_from_bits(st, tuple(out), w, sg)
        if base in ("Shl", "Shr"):
            if b.lin.is_const():
                k = b.lin.c
                ba = self.bits_of(st, a)
                if ba is not None and 0 <= k < w and (base == "Shl" or not sg):
                    if base == "Shl":
                        out = (0,) * k + ba[: w - k]
                    else:
                        out = ba[k:] + (0,) * k
                    return self.int_from_bits(st, out, w, sg)
                if base == "Shr" and not sg and 0 <= k < w:
                    ia = self.ival(st, a.lin)
                    return self.fresh_int("shr", w, sg, 0, int(ia[1]) >> k if ia[1] != float("inf") else None)
            return self.fresh_int("sh", w, sg)
        if base in ("Eq", "Ne", "Lt", "Le", "Gt", "Ge"):
            return self.compare(st, base, a, b)
        return self.fresh_int("bin", w, sg)

    def _hv(self):
        self.hv += 1
        return self.hv

    def ival(self, st, lin):
        return interval(lin, self.bounds)

    def compare(self, st, op, a, b):
        if op in ("Eq", "Ne"):
            for x, y in ((a, b), (b, a)):
                if y.lin.is_const():
                    for tag in x.tags:
                        if isinstance(tag, tuple) and tag[0] == "discr":
                            c = ("isvar", tag[1], tag[2], y.lin.c, True)
                            c = self.simplify_cond(st, c)
                            return Bool(c if op == "Eq" else self.neg_cond(c))
        # single-bit tests: (x & FLAG) != 0
        if op in ("Eq", "Ne"):
            for x, y in ((a, b), (b, a)):
                if y.lin.is_const() and x.bits is not None:
                    bx = self.bits_of(st, x)
                    c = y.lin.c
                    unk = [(i, t) for i, t in enumerate(bx) if t not in (0, 1)]
                    known_ok = all(((c >> i) & 1) == t for i, t in enumerate(bx) if t in (0, 1))
                    if not known_ok:
                        return FALSE if op == "Eq" else TRUE
                    if not unk:
                        return TRUE if op == "Eq" else FALSE
                    if len(unk) == 1 and unk[0][1] is not None and unk[0][1][0] in ("b", "nb"):
                        i, t = unk[0]
                        want = (c >> i) & 1
                        pol = bool(want) if t[0] == "b" else not bool(want)
                        cond = ("bit", t[1], t[2], pol)
                        return Bool(cond if op == "Eq" else self.neg_cond(cond))
                    if all(t is not None and t[0] in ("b", "nb") for _, t in unk):
                        # multi-bit equality with a constant
                        lits = tuple(("bit", t[1], t[2], bool((c >> i) & 1) if t[0] == "b" else not bool((c >> i) & 1)) for i, t in unk)
                        cond = ("bits_eq", lits)
                        return Bool(cond if op == "Eq" else ("not", cond))
        cond = ("cmp", op, a.lin, b.lin)
        return Bool(self.simplify_cond(st, cond))

    def neg_cond(self, c):
        k = c[0]
        if k == "const":
            return ("const", not c[1])
        if k == "bit":
            return ("bit", c[1], c[2], not c[3])
        if k == "isvar":
            return ("isvar", c[1], c[2], c[3], not c[4])
        if k == "not":
            return c[1]
        if k == "cmp":
            inv = {"Eq": "Ne", "Ne": "Eq", "Lt": "Ge", "Ge": "Lt", "Le": "Gt", "Gt": "Le"}
            return ("cmp", inv[c[1]], c[2], c[3])
        return ("not", c)

    def cond_facts(self, c):
        """Linear facts implied by a true 'cmp' condition."""
        _, op, la, lb = c
        if op == "Lt":
            return [lb.sub(la).sub(1)]
        if op == "Le":
            return [lb.sub(la)]
        if op == "Gt":
            return [la.sub(lb).sub(1)]
        if op == "Ge":
            return [la.sub(lb)]
        if op == "Eq":
            return [la.sub(lb), lb.sub(la)]
        return []

    def simplify_cond(self, st, c):
        k = c[0]
        if k == "bit":
            d = st.bits.get(c[1])
            if d and c[2] in d:
                return ("const", bool(d[c[2]]) == c[3])
            return c
        if k == "sym":
            d = st.bits.get(c[1])
            if d and 0 in d:
                return ("const", bool(d[0]))
            return c
        if k == "isvar":
            ev = self.M.read_path(st, c[1], c[2])
            if isinstance(ev, Enum):
                vi = self.T.variant_by_discr(ev.ty, c[3])
                has = any(z[0] == vi for z in ev.variants)
                if not has:
                    return ("const", not c[4])
                if len(ev.variants) == 1:
                    return ("const", c[4])
            return c
        if k == "not":
            i = self.simplify_cond(st, c[1])
            if i[0] == "const":
                return ("const", not i[1])
            if i is not c[1]:
                return self.neg_cond(i)
            return c
        if k == "cmp":
            _, op, la, lb = c
            d = la.sub(lb)
            if d.is_const():
                v = d.c
                r = {"Eq": v == 0, "Ne": v != 0, "Lt": v < 0, "Le": v <= 0, "Gt": v > 0, "Ge": v >= 0}[op]
                return ("const", r)
            fs = self.cond_facts(c)
            if fs and all(st.holds(f, self) for f in fs):
                return ("const", True)
            nf = self.cond_facts(self.neg_cond(c))
            if op != "Eq" and nf and all(st.holds(f, self) for f in nf):
                return ("const", False)
            if op == "Eq":
                # refuted if a<b or a>b is entailed
                if st.holds(lb.sub(la).sub(1), self) or st.holds(la.sub(lb).sub(1), self):
                    return ("const", False)
            if op == "Ne":
                if st.holds(lb.sub(la).sub(1), self) or st.holds(la.sub(lb).sub(1), self):
                    return ("const", True)
                if st.holds(la.sub(lb), self) and st.holds(lb.sub(la), self):
                    return ("const", False)
                s = d.single_sym() if d.c == 0 else None
            return c
        if k == "bits_eq":
            lits = [self.simplify_cond(st, l) for l in c[1]]
            if any(l == ("const", False) for l in lits):
                return ("const", False)
            lits = [l for l in lits if l != ("const", True)]
            if not lits:
                return ("const", True)
            if len(lits) == 1:
                return lits[0]
            return ("bits_eq", tuple(lits))
        if k in ("and", "or"):
            a, b = self.simplify_cond(st, c[1]), self.simplify_cond(st, c[2])
            if k == "and":
                if a == ("const", False) or b == ("const", False):
                    return ("const", False)
                if a == ("const", True):
                    return b
                if b == ("const", True):
                    return a
            else:
                if a == ("const", True) or b == ("const", True):
                    return ("const", True)
                if a == ("const", False):
                    return b
                if b == ("const", False):
                    return a
            return (k, a, b)
        return c

    def assume(self, st, c, truth):
        """Refine `st` with cond c == truth.  Raises Dead when infeasible.  Returns key item or None."""
        c = self.simplify_cond(st, c)
        k = c[0]
        if k == "const":
            if c[1] != truth:
                raise Dead()
            return None
        if k == "not":
            return self.assume(st, c[1], not truth)
        if k == "bit":
            st.set_bit(c[1], c[2], 1 if (c[3] == truth) else 0)
            return ("bit", c[1], c[2], 1 if (c[3] == truth) else 0)
        if k == "sym":
            st.set_bit(c[1], 0, 1 if truth else 0)
            return ("sym", c[1], truth)
        if k == "isvar":
            ev = self.M.read_path(st, c[1], c[2])
            if isinstance(ev, Enum):
                vi = self.T.variant_by_discr(ev.ty, c[3])
                want = (c[4] == truth)
                keep = {z[0] for z in ev.variants if (z[0] == vi) == want}
                if not keep:
                    raise Dead()
                self.M.write_path(st, c[1], c[2], self.M.refine_enum(st, ev, keep))
                return ("variant", ev.name, "|".join(self.T.variant_name(ev.ty, z) for z in sorted(keep)))
            return None
        if k == "cmp":
            cc = c if truth else self.neg_cond(c)
            if cc[1] in ("Eq", "Ne"):
                # single symbol against a constant: the exclusion set of the symbol (shared with switchInt's otherwise arm)
                d0 = cc[2].sub(cc[3])
                s1 = d0.t[0][0] if len(d0.t) == 1 else None
                if s1 is not None and d0.t[0][1] in (1, -1):
                    val = -d0.c * d0.t[0][1]
                    if cc[1] == "Eq" and val in st.excl.get(s1, ()):
                        raise Dead()
                    if cc[1] == "Ne":
                        st.excl[s1] = frozenset(st.excl.get(s1, frozenset()) | {val})
            for f in self.cond_facts(cc):
                st.add_fact(f, self)
            if cc[1] == "Ne":
                d = cc[2].sub(cc[3])
                # x != c with x in [c, ..] => x >= c+1 ; remember exclusion for single symbols
                if st.holds(d, self):
                    st.add_fact(d.sub(1), self)
                elif st.holds(d.neg(), self):
                    st.add_fact(d.neg().sub(1), self)
            return None
        if k == "bits_eq":
            if truth:
                for l in c[1]:
                    self.assume(st, l, True)
                return ("bits_eq", c[1], True)
            return ("bits_eq", c[1], False)
        if k == "and":
            if truth:
                self.assume(st, c[1], True)
                self.assume(st, c[2], True)
            return None
        if k == "or":
            if not truth:
                self.assume(st, c[1], False)
                self.assume(st, c[2], False)
            return None
        return None

    def eval_un(self, fr, st, op, a):
        if op == "Not":
            if isinstance(a, Bool):
                return Bool(self.neg_cond(self.simplify_cond(st, a.cond)))
            if isinstance(a, Int):
                ba = self.bits_of(st, a)
                if ba is not None:
                    return self.int_from_bits(st, tuple((1 - x) if x in (0, 1) else None for x in ba), a.w, a.signed)
                return self.fresh_int("not", a.w, a.signed)
        if op == "Neg":
            if isinstance(a, Int):
                e = a.lin.neg()
                lo, hi = ty_range(a.w, a.signed)
                if st.holds(e.sub(lo), self) and st.holds(Lin.const(hi).sub(e), self):
                    return Int(e, None, a.w, a.signed, frozenset())
                return self.fresh_int("neg", a.w, a.signed)
            if isinstance(a, Flt):
                return Flt(("fneg", a.term), a.w)
        if op == "PtrMetadata":
            if isinstance(a, Slice):
                return Int(a.len, None, 64, False, frozenset(["len"]))
            if isinstance(a, Ref):
                v = self.M.read_path(st, a.loc, a.path)
                if isinstance(v, Arr):
                    return int_const(len(v.elems), 64, False)
                if isinstance(v, (Slice, Cont)):
                    return Int(v.len, None, 64, False, frozenset(["len"]))
            return self.fresh_int("meta", 64, False, 0, self.len_max)._replace(tags=frozenset(["len"]))
        return ("ANY", op)

    # terminators and calls live in interp_term.py (mixed in below)


from engine.interp_term import TermMixin  # noqa: E402

for _n, _v in TermMixin.__dict__.items():
    if not _n.startswith("__"):
        setattr(Engine, _n, _v)
