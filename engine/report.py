"""Reporting: rule instances, obligations, violations, known findings, evidence."""
import json
import os
import sys
import time

VERIF = os.path.dirname(os.path.dirname(os.path.abspath(__file__)))


def evidence_dir():
    """/verif/evidence for the registered commands; a scratch directory for self-test / seeded runs against a patched
    copy of the repository (VERIF_SELFTEST), so that those never overwrite the evidence of the real tree."""
    d = os.environ.get("VERIF_EVIDENCE_DIR")
    if d:
        return d
    if os.environ.get("VERIF_SELFTEST"):
        return os.path.join(VERIF, ".work", "ev-scratch-%d" % os.getpid())
    return os.path.join(VERIF, "evidence")


TRUSTED_BASE = [
    "rustc MIR construction (nightly 1.97.0, mir_promoted stage, dev profile: overflow checks + debug assertions on)",
    "mirdump driver (/verif/driver) faithfully serialises MIR, ADT tables, evaluated constants, impl tables",
    "the /verif engine and rule code",
    "library contracts in engine/contracts.py (std, nom 7.1.3, bytes, byteorder, memchr, quick-xml 0.29, futures 0.3)",
    "spec tables under rules/spec (transcribed from the AUTOSAR DLT PRS and the property statements)",
    "axioms: 64-bit target; lengths of live slices/Vec/String <= 2^56 (address-space axiom); a 64-bit loop counter incremented by a constant <= 65536 per iteration does not overflow (counter axiom); Assert success edges are the only continuation",
]


class Report:
    def __init__(self, prop, tier="quick", level="other"):
        self.prop = prop
        self.tier = tier
        self.level = level
        self.t0 = time.time()
        self.instances = {}  # rule -> list of instance descriptions
        self.floors = {}  # rule -> floor
        self.obligations = []  # dict(rule,key,status,reason)
        self.violations = []  # dict(rule,key,file,line,function,msg,...)
        self.samples = []
        self.notes = []
        self.not_decided = []
        self.assumptions = []
        self.analysed_functions = set()
        self.extra = {}
        self.tree_hash = None
        self.explanation = ""

    # ---- recording
    def instance(self, rule, desc):
        self.instances.setdefault(rule, []).append(desc)

    def floor(self, rule, n):
        self.floors[rule] = n
        self.instances.setdefault(rule, [])

    def obligation(self, rule, key, status, reason, nontrivial=True, **kw):
        d = {"rule": rule, "key": key, "status": status, "reason": reason, "nontrivial": nontrivial}
        d.update(kw)
        self.obligations.append(d)

    def violation(self, rule, key, msg, file=None, line=None, function=None, **kw):
        d = {"property": self.prop, "rule": rule, "key": "%s|%s|%s" % (self.prop, rule, key), "msg": msg, "file": file, "line": line, "function": function}
        d.update(kw)
        # de-duplicate by key
        for v in self.violations:
            if v["key"] == d["key"]:
                return
        self.violations.append(d)

    def sample(self, s):
        if len(self.samples) < 40:
            self.samples.append(s)

    def fn(self, path):
        self.analysed_functions.add(path)

    # ---- finishing
    def finish(self):
        # floors: fail closed when a rule matched fewer instances than confirmed by hand
        for rule, fl in self.floors.items():
            n = len(self.instances.get(rule, []))
            if n < fl:
                self.violation(
                    rule,
                    "FLOOR|%s" % rule,
                    "rule %s matched %d instance(s), floor is %d: an anchor moved or the rule no longer sees the code (fail-closed, not a behavioural finding)" % (rule, n, fl),
                    kind="ANCHOR-MISSING",
                )
        known = load_known()
        known_keys = {k["key"]: k for k in known.get("findings", []) if k.get("property") == self.prop}
        out_lines = []
        unknown = []
        matched_known = []
        for v in self.violations:
            if v["key"] in known_keys:
                matched_known.append(v)
            else:
                unknown.append(v)
        vdir = os.path.join(evidence_dir(), "violations")
        for v in matched_known:
            out_lines.append("KNOWN-FINDING: property=%s %s" % (self.prop, known_keys[v["key"]].get("what_fails", v["msg"])))
        replay_paths = []
        if unknown:
            os.makedirs(vdir, exist_ok=True)
        for i, v in enumerate(unknown):
            v["tree_hash"] = self.tree_hash
            p = os.path.join(vdir, "%s-%d.json" % (self.prop, i))
            with open(p, "w") as f:
                json.dump(v, f, indent=1)
            replay_paths.append(p)
            loc = ""
            if v.get("file"):
                loc = " at %s:%s" % (v["file"], v.get("line"))
            out_lines.append("  [%s] %s%s%s: %s" % (v["rule"], v.get("kind", "") + " " if v.get("kind") else "", v.get("function") or "", loc, v["msg"]))
            out_lines.append("  key: %s" % v["key"])
            out_lines.append("VIOLATION property=%s replay=%s" % (self.prop, p))
        self.write_evidence(len(unknown), len(matched_known))
        # summary
        tot_inst = sum(len(v) for v in self.instances.values())
        n_obl = len(self.obligations)
        n_dis = sum(1 for o in self.obligations if o["status"] == "discharged")
        print("%s [%s]: %d rule instance(s) over %d function(s); %d obligation(s), %d discharged; %d violation(s), %d known finding(s); %.1fs" % (
            self.prop, self.tier, tot_inst, len(self.analysed_functions), n_obl, n_dis, len(unknown), len(matched_known), time.time() - self.t0))
        for rule in sorted(self.instances):
            fl = self.floors.get(rule)
            print("  rule %-10s instances=%d%s" % (rule, len(self.instances[rule]), " (floor %d)" % fl if fl is not None else ""))
        for l in out_lines:
            print(l)
        if not unknown:
            print("OK property=%s" % self.prop)
        sys.stdout.flush()
        return 1 if unknown else 0

    def write_evidence(self, n_viol, n_known):
        tot_inst = sum(len(v) for v in self.instances.values())
        n_obl = len(self.obligations)
        n_dis = sum(1 for o in self.obligations if o["status"] == "discharged")
        nontrivial = set()
        for o in self.obligations:
            if o.get("nontrivial") and o["status"] == "discharged":
                nontrivial.add(o["key"])
        inst_keys = set()
        for rule, lst in self.instances.items():
            for d in lst:
                inst_keys.add(rule + "|" + (d if isinstance(d, str) else json.dumps(d, sort_keys=True)))
        samples = list(self.samples)
        if not samples:
            for rule, lst in self.instances.items():
                for d in lst[:3]:
                    samples.append({"rule": rule, "instance": d})
        for o in self.obligations[:6]:
            samples.append({"obligation": o["key"], "status": o["status"], "reason": o["reason"]})
        cov = {
            "evaluations": max(1, tot_inst + n_obl),
            "distinct_nontrivial": len(nontrivial) + len(inst_keys),
            "rule": "one evaluation per rule instance (call site / table row / loop / exit / constant) and per proof obligation (panic-capable site, linear identity); distinct = distinct instance descriptors + distinct obligation keys that needed more than a type-range argument",
            "samples": samples[:60] if samples else [{"note": "no instances"}],
            "obligations": n_obl,
            "discharged": n_dis,
            "checker_cmd": "./check %s%s" % (self.prop, " --thorough" if self.tier == "thorough" else ""),
            "trusted_base": TRUSTED_BASE,
            "explanation": self.explanation,
            "rule_instances": {r: len(v) for r, v in self.instances.items()},
            "floors": self.floors,
            "functions_analysed": len(self.analysed_functions),
            "functions_sample": sorted(self.analysed_functions)[:25],
            "not_decided_clauses": self.not_decided,
            "open_obligations": [o["key"] for o in self.obligations if o["status"] not in ("discharged",)][:50],
            "known_findings_matched": n_known,
            "tree_hash": self.tree_hash,
            "notes": self.notes[:40],
            "exhaustive": False,
        }
        cov.update(self.extra)
        if n_obl == 0:
            # proof-level keys need >= 1; report instances as obligations of the structural rules
            cov["obligations"] = max(1, tot_inst)
            cov["discharged"] = max(0, tot_inst - n_viol - n_known)
        ev = {
            "property_id": self.prop,
            "tier": self.tier,
            "seed": int(os.environ.get("VERIF_SEED", "0") or 0),
            "level": self.level,
            "coverage": cov,
            "assumptions": self.assumptions + ["deterministic analysis: VERIF_SEED is recorded but unused"],
            "wall_s": round(time.time() - self.t0, 3),
            "violations": n_viol,
        }
        os.makedirs(evidence_dir(), exist_ok=True)
        p = os.path.join(evidence_dir(), "%s.json" % self.prop)
        tmp = p + ".tmp.%d" % os.getpid()
        with open(tmp, "w") as f:
            json.dump(ev, f, indent=1, default=str)
        os.replace(tmp, p)


def load_known():
    p = os.path.join(VERIF, "known_findings.json")
    if os.path.isfile(p):
        with open(p) as f:
            return json.load(f)
    return {"findings": [], "fixed": []}


def span_loc(sp):
    if not sp:
        return None, None
    f = sp["f"]
    i = f.find("src/")
    if i >= 0:
        f = f[i:]
    return f, sp["l"]
