"""Linear expressions over immutable integer symbols, facts `e >= 0`, and a small
sound entailment check (interval arithmetic + subtraction of one or two known
facts).  No solver: terminating, incomplete, sound."""

INF = float("inf")


class Lin:
    __slots__ = ("c", "t", "_h")

    def __init__(self, c=0, t=()):
        self.c = c
        self.t = t  # tuple of (sym, coef), sorted by sym, coef != 0
        self._h = None

    # ---- constructors
    @staticmethod
    def const(c):
        return Lin(int(c), ())

    @staticmethod
    def sym(s, k=1):
        return Lin(0, ((s, k),)) if k else Lin(0, ())

    @staticmethod
    def from_dict(c, d):
        return Lin(c, tuple(sorted((s, k) for s, k in d.items() if k)))

    # ---- queries
    def is_const(self):
        return not self.t

    def syms(self):
        return [s for s, _ in self.t]

    def coef(self, s):
        for a, k in self.t:
            if a == s:
                return k
        return 0

    def single_sym(self):
        """If the expression is exactly one symbol with coefficient 1 and no constant."""
        if self.c == 0 and len(self.t) == 1 and self.t[0][1] == 1:
            return self.t[0][0]
        return None

    # ---- arithmetic
    def add(self, o):
        if isinstance(o, int):
            return Lin(self.c + o, self.t)
        d = dict(self.t)
        for s, k in o.t:
            d[s] = d.get(s, 0) + k
        return Lin.from_dict(self.c + o.c, d)

    def neg(self):
        return Lin(-self.c, tuple((s, -k) for s, k in self.t))

    def sub(self, o):
        if isinstance(o, int):
            return Lin(self.c - o, self.t)
        return self.add(o.neg())

    def scale(self, k):
        if k == 0:
            return Lin(0, ())
        return Lin(self.c * k, tuple((s, c * k) for s, c in self.t))

    def subst(self, s, e):
        k = self.coef(s)
        if not k:
            return self
        d = dict(self.t)
        del d[s]
        base = Lin.from_dict(self.c, d)
        return base.add(e.scale(k))

    def __eq__(self, o):
        return isinstance(o, Lin) and self.c == o.c and self.t == o.t

    def __hash__(self):
        if self._h is None:
            self._h = hash((self.c, self.t))
        return self._h

    def __repr__(self):
        parts = []
        for s, k in self.t:
            if k == 1:
                parts.append("+ %s" % s)
            elif k == -1:
                parts.append("- %s" % s)
            elif k > 0:
                parts.append("+ %d*%s" % (k, s))
            else:
                parts.append("- %d*%s" % (-k, s))
        if self.c or not parts:
            parts.append(("+ %d" % self.c) if self.c >= 0 else ("- %d" % -self.c))
        r = " ".join(parts)
        return r[2:] if r.startswith("+ ") else r


def interval(e, bounds):
    """(lo, hi) of a Lin under symbol bounds {sym: (lo, hi)}; missing = unbounded."""
    lo = hi = e.c
    for s, k in e.t:
        b = bounds.get(s)
        if b is None:
            return (-INF, INF)
        slo, shi = b
        if k > 0:
            lo += k * slo if slo is not None else -INF
            hi += k * shi if shi is not None else INF
        else:
            lo += k * shi if shi is not None else -INF
            hi += k * slo if slo is not None else INF
    return (lo, hi)


def entails(e, facts, bounds, depth=2):
    """Is `e >= 0` implied by the facts (each `f >= 0`) and the symbol bounds?"""
    lo, _ = interval(e, bounds)
    if lo >= 0:
        return True
    if not facts:
        return False
    es = set(e.syms())
    rel = [f for f in facts if es.intersection(f.syms())]
    # e = f + (e - f): enough that (e - f) >= 0 by intervals
    for f in rel:
        ks = {1}
        for s in es.intersection(f.syms()):
            ce, cf = e.coef(s), f.coef(s)
            if cf and ce % cf == 0 and ce // cf > 0:
                ks.add(ce // cf)
        for k in ks:
            d = e.sub(f.scale(k)) if k != 1 else e.sub(f)
            if interval(d, bounds)[0] >= 0:
                return True
    if depth >= 2:
        fl = list(facts)
        for i, f in enumerate(rel):
            d1 = e.sub(f)
            s1 = set(d1.syms())
            if not s1:
                continue
            for g in fl:
                if g is f:
                    continue
                if not s1.intersection(g.syms()):
                    continue
                d2 = d1.sub(g)
                if interval(d2, bounds)[0] >= 0:
                    return True
                if depth >= 3:
                    s2 = set(d2.syms())
                    for h in fl:
                        if h is f or h is g or not s2.intersection(h.syms()):
                            continue
                        if interval(d2.sub(h), bounds)[0] >= 0:
                            return True
    return False


def refutes(e, facts, bounds):
    """Is `e >= 0` impossible, i.e. is `-e - 1 >= 0` entailed?"""
    return entails(e.neg().sub(1), facts, bounds)
