"""Terminators, proof obligations and calls of the abstract interpreter."""
import re

from engine import cfg as CFG
from engine.lin import Lin
from engine.report import span_loc
from engine.state import Dead
from engine.values import (Arr, Bool, Cont, Enum, FALSE, Flt, Fn, Int, Ref, Slice, Struct, Top, TRUE, UNIT, Unit, int_const, ty_range)


class TermMixin:
    # ------------------------------------------------------------------ descriptors (line-free site keys)
    def describe_operand(self, fr, o, depth=0):
        if "k" in o:
            k = o["k"]
            if "int" in k:
                return str(k["int"])
            if "fn" in k:
                return k["fn"]["path"]
            if "item" in k:
                return k["item"].split("::")[-1]
            if "str" in k:
                return repr(k["str"])
            return "const"
        p = o.get("c") or o.get("m")
        return self.describe_place(fr, p, depth)

    def describe_place(self, fr, p, depth=0):
        l = p["l"]
        base = fr.names.get(l)
        proj = p["p"]
        if base is None:
            if 1 <= l <= fr.body["arg_count"]:
                base = "arg%d" % l
            elif depth < 7:
                d = self._unique_def(fr, l)
                if d is not None:
                    base = self.describe_rv(fr, d, depth + 1)
                    if d["k"] == "bin" and d["op"].endswith("WithOverflow") and proj and isinstance(proj[0], dict) and proj[0].get("f") == 0:
                        proj = proj[1:]
            if base is None:
                base = "tmp"
        for e in proj:
            if e == "*":
                pass
            elif isinstance(e, dict):
                if "f" in e:
                    base += ".%d" % e["f"]
                elif "d" in e:
                    base += "@%s" % (e.get("n") or e["d"])
                elif "i" in e:
                    base += "[%s]" % (fr.names.get(e["i"]) or "i")
                elif "ci" in e:
                    base += "[%d]" % e["ci"]
        return base

    def _unique_def(self, fr, l):
        cache = getattr(fr, "_defs", None)
        if cache is None:
            cache = {}
            for blk in fr.body["blocks"]:
                for s in blk["stmts"]:
                    if s["k"] == "assign" and not s["p"]["p"]:
                        cache.setdefault(s["p"]["l"], []).append(s["rv"])
                t = blk["term"]
                if t["k"] == "call" and not t["dest"]["p"]:
                    cache.setdefault(t["dest"]["l"], []).append({"k": "callrv", "t": t})
            try:
                fr._defs = cache
            except AttributeError:
                pass
            self._defs_cache = getattr(self, "_defs_cache", {})
            self._defs_cache[fr.fid] = cache
        ds = cache.get(l, [])
        return ds[0] if len(ds) == 1 else None

    def describe_rv(self, fr, rv, depth):
        k = rv["k"]
        if k == "use":
            return self.describe_operand(fr, rv["a"], depth)
        if k == "cast":
            return "%s as %s" % (self.describe_operand(fr, rv["a"], depth), self.T.s(rv["ty"]))
        if k == "bin":
            op = rv["op"].replace("WithOverflow", "")
            sym = {"Add": "+", "Sub": "-", "Mul": "*", "Div": "/", "Rem": "%", "BitAnd": "&", "BitOr": "|", "Shl": "<<", "Shr": ">>"}.get(op)
            if sym:
                return "(%s %s %s)" % (self.describe_operand(fr, rv["a"], depth), sym, self.describe_operand(fr, rv["b"], depth))
            return "%s(%s,%s)" % (op, self.describe_operand(fr, rv["a"], depth), self.describe_operand(fr, rv["b"], depth))
        if k == "un":
            return "%s(%s)" % (rv["op"], self.describe_operand(fr, rv["a"], depth))
        if k == "callrv":
            f = CFG.callee_of(rv["t"])
            nm = (f["path"].split("::")[-1] if f else "call")
            aa = [self.describe_operand(fr, a, depth + 1) for a in rv["t"]["args"][:3]]
            if nm in ("index", "index_mut") and len(aa) == 2:
                return "%s[%s]" % (aa[0], aa[1])
            if nm in ("deref", "deref_mut", "as_ref", "as_bytes", "borrow") and len(aa) == 1:
                return aa[0]
            if nm == "len" and len(aa) == 1:
                return "%s.len()" % aa[0]
            return "%s(%s)" % (nm, ",".join(aa))
        if k in ("ref", "copyderef"):
            return self.describe_place(fr, rv["p"], depth).lstrip("*")
        if k == "agg":
            ops = [self.describe_operand(fr, o, depth + 1) for o in rv["ops"]]
            if rv["ak"] == "adt":
                nm = rv["adt"].split("::")[-1]
                if nm == "Range" and len(ops) == 2:
                    return "%s..%s" % (ops[0], ops[1])
                if nm == "RangeFrom" and len(ops) == 1:
                    return "%s.." % ops[0]
                if nm == "RangeTo" and len(ops) == 1:
                    return "..%s" % ops[0]
                if nm == "RangeFull":
                    return ".."
                return "%s{%s}" % (rv.get("vname") or nm, ",".join(ops))
            return "(%s)" % ",".join(ops)
        if k == "discr":
            return "discr(%s)" % self.describe_place(fr, rv["p"], depth)
        return k

    # ------------------------------------------------------------------ obligations
    def obligation(self, fr, blk, kind, desc, ok, need="", st=None, reason=""):
        key = "%s|%s %s" % (fr.path, kind, desc)
        ob = self.obligations.get(key)
        if ob is None:
            f, l = span_loc(blk["sp"])
            ob = self.obligations[key] = self.Obl(key, kind, fr.path, f, l, desc)
        ob.count += 1
        if ok:
            if ob.status is None:
                ob.status = "discharged"
                ob.reason = reason
            elif ob.status == "discharged" and reason and reason not in ob.reason:
                ob.reason += "; " + reason
        else:
            if ob.status != "open":
                ob.status = "open"
                ob.need = need
                ob.chain = fr.chain()
                ob.facts = sorted(repr(f) for f in (st.facts if st else []))[:40]
                ob.reason = reason
        return ob

    @property
    def Obl(self):
        from engine.interp import Obligation

        return Obligation

    def in_range(self, st, lin, w, signed):
        lo, hi = ty_range(w, signed)
        if signed or w < 64:
            return st.holds(lin.sub(lo), self) and st.holds(Lin.const(hi).sub(lin), self)
        # usize/u64 upper bound: address-space axiom for length-derived sums
        if not st.holds(lin.sub(lo), self):
            return False
        if st.holds(Lin.const(hi).sub(lin), self):
            return True
        return False

    # ------------------------------------------------------------------ terminators
    def exec_term(self, fr, b, st, blk):
        t = blk["term"]
        k = t["k"]
        if k == "goto":
            return [(t["t"], st)]
        if k == "ret":
            return [("ret", st)]
        if k in ("unreachable", "resume", "terminate", "codrop"):
            return []
        if k == "drop":
            return [(t["t"], st)]
        if k == "yield":
            loc, path = self.M.resolve(st, fr, t["resume_arg"])
            ti = self.place_ty(fr, t["resume_arg"])
            self.M.write_path(st, loc, path, self.top_of(ti, "resume") if ti is not None else ("ANY", "resume"))
            return [(t["t"], st)]
        if k == "switch":
            return self.exec_switch(fr, b, st, t, blk)
        if k == "assert":
            return self.exec_assert(fr, b, st, t, blk)
        if k in ("call", "tailcall"):
            return self.exec_call(fr, b, st, t, blk)
        return []

    def _want_partition(self, fr, b, kind, detail):
        """Partition (key) only on input-shape predicates: variants of enums named by an access
        path from the entry's parameters, bits/bools of input symbols.  Values produced by
        calls (ret#, agg, opt, res, ...) are refined but never keyed."""
        if self.key_all:
            return True
        if kind == "variant":
            name = detail if isinstance(detail, str) else str(detail)
            if re.match(r"^(ret#|agg|opt|res|ires|cf|next|ctor|nomerr|needed|utf8|find|chk|nz|dflt|residual|phi\(|hv\d|u#|t#|const|prom|resume|count|map#|mapped#|andthen#|err#|from#|join\()", name):
                return False
        elif kind == "cond":
            ki = detail
            if ki and ki[0] in ("bit", "sym"):
                nm = ki[1]
                if re.match(r"^(phi\(|hv\d|b2i#|bop#|cmp#|fcmp#|ovf#|ret#|u#|t#)", nm):
                    return False
            if ki and ki[0] == "variant":
                return self._want_partition(fr, b, "variant", ki[1])
        if self.partition_filter is None:
            return True
        return self.partition_filter(fr, b, kind, detail)

    def exec_switch(self, fr, b, st, t, blk):
        d = self.eval_operand(fr, st, t["d"])
        vals = [int(v) for v in t["vals"]]
        tg = t["tgts"]
        other = t["otherwise"]
        out = []
        if isinstance(d, Bool):
            c = self.simplify_cond(st, d.cond)
            false_t = other
            true_t = other
            for v, x in zip(vals, tg):
                if v == 0:
                    false_t = x
                else:
                    true_t = x
            if c[0] == "const":
                return [(true_t if c[1] else false_t, st)]
            for truth, target in ((True, true_t), (False, false_t)):
                ns = st.fork()
                try:
                    ki = self.assume(ns, c, truth)
                except Dead:
                    continue
                if ki is None and self.key_all and c[0] == "cmp":
                    ki = ("cmp", c[1], repr(c[2]), repr(c[3]), truth)
                if ki is not None and (self._want_partition(fr, b, "cond", ki) or (ki[0] == "variant" and self._cond_key_adt(st, c))):
                    ns.key = ns.key + (ki,)
                out.append((target, ns))
            return out
        if isinstance(d, Int):
            discr = None
            for tag in d.tags:
                if isinstance(tag, tuple) and tag[0] == "discr":
                    discr = tag
            if discr is not None:
                _, loc, path = discr
                ev = self.M.read_path(st, loc, path)
                if isinstance(ev, Enum):
                    T = self.T
                    handled = set()
                    for v, x in zip(vals, tg):
                        vi = T.variant_by_discr(ev.ty, v)
                        handled.add(vi)
                        if not any(z[0] == vi for z in ev.variants):
                            continue
                        ns = st.fork()
                        try:
                            self.M.write_path(ns, loc, path, self.M.refine_enum(ns, ev, {vi}))
                        except Dead:
                            continue
                        if len(ev.variants) > 1 and (self._want_partition(fr, b, "variant", ev.name) or self._key_adt(ev)):
                            ns.key = ns.key + (("variant", ev.name, T.variant_name(ev.ty, vi)),)
                        out.append((x, ns))
                    rest = {z[0] for z in ev.variants if z[0] not in handled}
                    if rest:
                        ns = st.fork()
                        try:
                            self.M.write_path(ns, loc, path, self.M.refine_enum(ns, ev, rest))
                            if len(ev.variants) > len(rest) and (self._want_partition(fr, b, "variant", ev.name) or self._key_adt(ev)):
                                ns.key = ns.key + (("variant", ev.name, "|".join(self.T.variant_name(ev.ty, z) for z in sorted(rest))),)
                            out.append((other, ns))
                        except Dead:
                            pass
                    return out
            if d.lin.is_const():
                for v, x in zip(vals, tg):
                    if v == (d.lin.c & ((1 << d.w) - 1) if d.lin.c < 0 else d.lin.c):
                        return [(x, st)]
                return [(other, st)]
            bits = self.bits_of(st, d) if (d.bits is not None or d.lin.single_sym()) else None
            shape = bits is not None and any(isinstance(x, tuple) and x[0] in ("b", "nb") for x in bits) and all(x is not None for x in bits)
            excluded = []
            for v, x in zip(vals, tg):
                ns = st.fork()
                try:
                    if shape:
                        for i, at in enumerate(bits):
                            want = (v >> i) & 1
                            if at in (0, 1):
                                if at != want:
                                    raise Dead()
                            elif at[0] == "b":
                                ns.set_bit(at[1], at[2], want)
                            elif at[0] == "nb":
                                ns.set_bit(at[1], at[2], 1 - want)
                        # bits beyond the width of the value must be zero in v
                        if v >> len(bits):
                            raise Dead()
                    ns.add_fact(d.lin.sub(v), self)
                    ns.add_fact(Lin.const(v).sub(d.lin), self)
                    s = d.lin.single_sym()
                    if s and v in ns.excl.get(s, ()):
                        raise Dead()
                except Dead:
                    continue
                if shape and self._want_partition(fr, b, "value", v):
                    unk1 = [(i, at) for i, at in enumerate(bits) if at not in (0, 1)]
                    if len(unk1) == 1 and unk1[0][1][0] in ("b", "nb"):
                        # a single flag bit matched against a literal (`match h & FLAG { 0 => .., _ => .. }`): the same
                        # partition predicate as `if h & FLAG != 0`
                        i1, at1 = unk1[0]
                        w1 = (v >> i1) & 1
                        kb = ("bit", at1[1], at1[2], w1 if at1[0] == "b" else 1 - w1)
                        if kb not in ns.key:
                            ns.key = ns.key + (kb,)
                    else:
                        ns.key = ns.key + (("val", repr(d.lin) if not shape else self._bits_name(bits), v),)
                excluded.append(v)
                out.append((x, ns))
            ns = st.fork()
            s = d.lin.single_sym()
            if s:
                ns.excl[s] = frozenset(ns.excl.get(s, frozenset()) | set(vals))
            if s or not shape:
                # tighten bounds when the excluded values sit at the edge of the range (for a compound linear value,
                # e.g. `a.len() - b.len()` matched against 0, only the values of this switch are known to be excluded)
                ex = ns.excl[s] if s else frozenset(vals)
                lo, hi = self.ival(ns, d.lin)
                try:
                    while lo in ex and lo != float("-inf"):
                        lo += 1
                    if lo != float("-inf") and lo > self.ival(ns, d.lin)[0]:
                        ns.add_fact(d.lin.sub(int(lo)), self)
                    while hi in ex and hi != float("inf"):
                        hi -= 1
                    if hi != float("inf") and hi < self.ival(ns, d.lin)[1]:
                        ns.add_fact(Lin.const(int(hi)).sub(d.lin), self)
                    if not s and len(ex) <= 16:
                        # bounds that are linear facts rather than intervals
                        for v in sorted(ex):
                            if ns.holds(d.lin.sub(Lin.const(v)), self):
                                ns.add_fact(d.lin.sub(Lin.const(v + 1)), self)
                        for v in sorted(ex, reverse=True):
                            if ns.holds(Lin.const(v).sub(d.lin), self):
                                ns.add_fact(Lin.const(v - 1).sub(d.lin), self)
                except Dead:
                    return out
            if shape:
                ns.notes = ns.notes + (("excl", self._bits_name(bits), tuple(vals)),)
                # infeasible if the values enumerated all patterns of the unknown bits
                unk = [i for i, at in enumerate(bits) if at not in (0, 1)]
                if len(unk) <= 8:
                    fixed = sum((1 << i) for i, at in enumerate(bits) if at == 1)
                    allv = set()
                    for m in range(1 << len(unk)):
                        x = fixed
                        for j, i in enumerate(unk):
                            if (m >> j) & 1:
                                x |= 1 << i
                        allv.add(x)
                    if allv <= set(vals):
                        return out
                    rest1 = sorted(allv - set(vals))
                    if len(unk) == 1 and len(rest1) == 1 and bits[unk[0]][0] in ("b", "nb"):
                        # the only value left for a single flag bit: decided, and keyed like the branch on the bit
                        at1 = bits[unk[0]]
                        w1 = (rest1[0] >> unk[0]) & 1
                        real1 = w1 if at1[0] == "b" else 1 - w1
                        try:
                            ns.set_bit(at1[1], at1[2], real1)
                        except Dead:
                            return out
                        if self._want_partition(fr, b, "value", "other"):
                            kb = ("bit", at1[1], at1[2], real1)
                            if kb not in ns.key:
                                ns.key = ns.key + (kb,)
                        out.append((other, ns))
                        return out
                if self._want_partition(fr, b, "value", "other"):
                    ns.key = ns.key + (("val", self._bits_name(bits), "other"),)
            out.append((other, ns))
            return out
        # unknown discriminant: all targets possible
        seen = set()
        for x in list(tg) + [other]:
            if x not in seen:
                seen.add(x)
                out.append((x, st.fork()))
        return out

    def _cond_key_adt(self, st, c):
        """Is the condition a variant test (`==` of a derived PartialEq, `matches!`) on an enum of a key ADT?"""
        while c and c[0] == "not":
            c = c[1]
        if not self.key_adts or not c or c[0] != "isvar":
            return False
        try:
            ev = self.M.read_path(st, c[1], c[2])
        except Exception:
            return False
        return isinstance(ev, Enum) and self._key_adt(ev)

    def _key_adt(self, ev):
        if not self.key_adts or not isinstance(ev.ty, int):
            return False
        t = self.T.t(ev.ty)
        return t["k"] == "adt" and t["path"] in self.key_adts

    def _bits_name(self, bits):
        parts = []
        for x in bits:
            if x in (0, 1):
                parts.append(str(x))
            elif x is None:
                parts.append("?")
            else:
                parts.append("%s%s.%d" % ("~" if x[0] == "nb" else "", x[1], x[2]))
        # compress
        return ",".join(parts)

    def exec_assert(self, fr, b, st, t, blk):
        c = self.eval_operand(fr, st, t["cond"])
        m = t["msg"]
        kind = m["k"]
        exp = t["exp"]
        if kind == "Overflow":
            op = m["op"]
            desc = "%s(%s,%s)" % (op, self.describe_operand(fr, m["a"]), self.describe_operand(fr, m["b"]))
            if isinstance(c, Bool) and c.cond[0] == "ovf":
                _, base, exact, w, sg, la, lb = c.cond
                ok = self.in_range(st, exact, w, sg)
                reason = "result %s fits %s%d by interval/guard facts" % (exact, "i" if sg else "u", w)
                if not ok and not sg and w == 64 and base in ("Add",):
                    # address-space axiom: a sum of lengths of live objects and small constants
                    if self._len_derived(st, exact):
                        ok = True
                        reason = "address-space axiom: sum of lengths of live objects"
                    elif len(exact.t) == 1 and exact.t[0][1] == 1 and exact.t[0][0] in self.counters and 0 <= exact.c <= 65536:
                        ok = True
                        reason = "counter axiom: a 64-bit counter incremented by a small constant per loop iteration cannot overflow"
                lo, hi = ty_range(w, sg)
                self.obligation(fr, blk, "Overflow", "%s:%s%d" % (desc, "i" if sg else "u", w), ok, need="%d <= %s <= %d" % (lo, exact, hi), st=st, reason=reason)
                # success edge: the result is in range
                ns = st
                try:
                    ns.add_fact(exact.sub(lo), self)
                    ns.add_fact(Lin.const(hi).sub(exact), self)
                except Dead:
                    return []
                return [(t["t"], ns)]
            if op in ("Shl", "Shr"):
                bv = self.eval_operand(fr, st, m["b"])
                av = self.eval_operand(fr, st, m["a"])
                w = av.w if isinstance(av, Int) else 64
                ok = isinstance(bv, Int) and st.holds(bv.lin, self) and st.holds(Lin.const(w - 1).sub(bv.lin), self)
                self.obligation(fr, blk, "Overflow", desc, ok, need="shift amount < %d" % w, st=st, reason="shift amount in range")
                return [(t["t"], st)]
            ok = isinstance(c, Bool) and self.simplify_cond(st, c.cond) == ("const", exp)
            self.obligation(fr, blk, "Overflow", desc, ok, need="no overflow", st=st, reason="condition constant")
            return [(t["t"], st)]
        if kind in ("DivisionByZero", "RemainderByZero"):
            # the checked condition is `divisor == 0` expected false
            desc = "%s(%s)" % (kind, self.describe_operand(fr, m["a"]))
            ok = False
            if isinstance(c, Bool):
                sc = self.simplify_cond(st, c.cond)
                ok = sc == ("const", exp)
            self.obligation(fr, blk, kind, desc, ok, need="divisor != 0", st=st, reason="divisor is a non-zero constant / guarded")
            ns = st
            if isinstance(c, Bool):
                try:
                    self.assume(ns, c.cond, exp)
                except Dead:
                    return []
            return [(t["t"], ns)]
        if kind == "BoundsCheck":
            ln = self.eval_operand(fr, st, m["len"])
            ix = self.eval_operand(fr, st, m["index"])
            desc = "BoundsCheck(%s)[%s]" % (self.describe_operand(fr, m["len"]), self.describe_operand(fr, m["index"]))
            ok = isinstance(ln, Int) and isinstance(ix, Int) and st.holds(ln.lin.sub(ix.lin).sub(1), self) and st.holds(ix.lin, self)
            self.obligation(fr, blk, "BoundsCheck", desc, ok, need="%s < %s" % (ix.lin if isinstance(ix, Int) else "?", ln.lin if isinstance(ln, Int) else "?"), st=st, reason="index < len by guard facts")
            if isinstance(ln, Int) and isinstance(ix, Int):
                try:
                    st.add_fact(ln.lin.sub(ix.lin).sub(1), self)
                except Dead:
                    return []
            return [(t["t"], st)]
        if kind == "OverflowNeg":
            desc = "Neg(%s)" % self.describe_operand(fr, m["a"])
            ok = isinstance(c, Bool) and self.simplify_cond(st, c.cond) == ("const", exp)
            self.obligation(fr, blk, "Overflow", desc, ok, need="operand != MIN", st=st)
            return [(t["t"], st)]
        # coroutine resume asserts etc.: not panics of interest
        return [(t["t"], st)]

    def key_outcome(self, st, kind, label):
        """Contracts call this for their own outcome distinctions (utf8 ok/err, find some/none)."""
        if self.key_all or kind in self.keyed_events:
            st.key = st.key + ((kind, label),)

    def _len_derived(self, st, lin):
        """Is the expression a non-negative combination of length symbols of live objects plus a small constant?"""
        if lin.c < 0 or lin.c > (1 << 32):
            return False
        n = 0
        for s, k in lin.t:
            if k < 0 or k > 16:
                return False
            b = self.bounds.get(s)
            if b is None or b[0] < 0:
                return False
            if s in self.len_syms or (b[1] is not None and b[1] <= self.len_max):
                n += k
                continue
            return False
        return n <= 64

    # ------------------------------------------------------------------ calls
    def exec_call(self, fr, b, st, t, blk):
        fo = t["f"]
        args = [self.eval_operand(fr, st, a) for a in t["args"]]
        site = {"fr": fr, "block": b, "blk": blk, "term": t}
        fv = self.eval_operand(fr, st, fo)
        outcomes = None
        if isinstance(fv, Fn):
            outcomes = self.apply_fn(st, fr, fv, args, site, t)
        if outcomes is None:
            ti = self.place_ty(fr, t["dest"])
            outcomes = [(st, self.top_of(ti, "ret") if ti is not None else ("ANY", "ret"))]
        if t.get("t") is None:
            return []
        out = []
        if len(outcomes) > 1 and not self.key_all and self.key_top_outcomes and fr.parent is None:
            # path sensitivity on call outcomes in the entry function only: exits stay apart per outcome shape
            cf = CFG.callee_of(t)
            nm = (cf["path"].split("::")[-1] if cf else "call")
            labs = [self._shape_label(rv) if rv is not None else None for (_, rv) in outcomes]
            if len(set(labs)) > 1:
                for (ns, rv), lb in zip(outcomes, labs):
                    if lb:
                        ns.key = ns.key + (("out", nm, lb),)
        if len(outcomes) > 1 and self.key_all:
            # full path sensitivity requested (small functions): outcomes that return different
            # variants stay apart
            labels = []
            for (ns, rv) in outcomes:
                if isinstance(rv, Enum) and len(rv.variants) == 1:
                    labels.append(self.T.variant_name(rv.ty, rv.variants[0][0]) if isinstance(rv.ty, int) and self.T.adt(rv.ty) else str(rv.variants[0][0]))
                else:
                    labels.append(None)
            if len(set(labels)) > 1:
                cf = CFG.callee_of(t)
                nm = (cf["path"].split("::")[-1] if cf else "call")
                for (ns, rv), lb in zip(outcomes, labels):
                    if lb is not None:
                        ns.key = ns.key + (("out", nm, lb),)
        for (ns, rv) in outcomes:
            if rv is None:
                continue
            loc, path = self.M.resolve(ns, fr, t["dest"])
            self.M.write_path(ns, loc, path, rv)
            out.append((t["t"], ns))
        return out

    def apply_fn(self, st, fr, fv, args, site, t=None):
        """Apply a set of callables to argument values: join over members."""
        items = sorted(fv.items, key=repr)
        if len(items) == 1:
            return self.apply_item(st, fr, items[0], args, site, t)
        outs = []
        for it in items:
            r = self.apply_item(st.fork(), fr, it, args, site, t)
            if r is None:
                return None
            outs.extend(r)
        return outs

    def fn_info(self, item):
        """Decode an ('item', path, fkey) callable into a dict."""
        _, path, fkey = item
        (p, args, trait, name, self_ty, resolved, rargs, impl_self, impl_trait, ctor_adt, ctor_variant) = fkey
        return {"path": p, "args": args, "trait": trait, "name": name, "self_ty": self_ty, "resolved": resolved, "resolved_args": rargs, "impl_self": impl_self, "impl_trait": impl_trait,
                "ctor_adt": ctor_adt, "ctor_variant": ctor_variant}

    def resolve_local(self, f):
        """Resolve a (possibly trait-dispatched) fn reference to a local body path + its generic args."""
        F = self.F
        if f["resolved"] and f["resolved"] in F.bodies:
            return f["resolved"], f["resolved_args"]
        if f["trait"] and f["self_ty"] is not None:
            st = self.T.t(f["self_ty"])
            if st["k"] != "param":
                p = self.impl_index.get((f["trait"], st["s"], f["name"]))
                if p and p in F.bodies:
                    return p, ()
        if f["path"] in F.bodies and not f["trait"]:
            return f["path"], f["args"]
        if f["path"] in F.bodies and f["trait"] and f["self_ty"] is not None and self.T.t(f["self_ty"])["k"] != "param":
            return f["path"], f["args"]
        return None, None

    def apply_item(self, st, fr, item, args, site, t=None):
        kind = item[0]
        if kind == "opaque":
            from engine import contracts

            return contracts.apply_opaque(self, st, fr, item, args, site)
        if kind == "closure":
            _, dpath, envloc, subitems = item
            body = self.F.body(dpath)
            if body is None:
                return None
            return self.inline(st, fr, body, dict(subitems), args, site, closure_env=envloc)
        f = self.fn_info(item)
        if f["ctor_adt"]:
            a = self.F.adts.get(f["ctor_adt"])
            if a and "variants" in a:
                ti = self.T.mk_adt(f["ctor_adt"], [x for x in f["args"] if isinstance(x, int)])
                for vi, v in enumerate(a["variants"]):
                    if v["name"] == f["ctor_variant"]:
                        if a["kind"] == "enum":
                            return [(st, Enum(ti, ((vi, tuple(args)),), "ctor"))]
                        return [(st, Struct(ti, tuple(args)))]
            return None
        if self.on_call is not None:
            r = self.on_call(self, st, fr, f, args, site)
            if r is not None:
                return r
        lp, largs = self.resolve_local(f)
        if lp is None and f["trait"] and f["self_ty"] is not None and self.T.t(f["self_ty"])["k"] == "dyn" and args:
            # dynamic dispatch: resolved through the concrete type of the value behind the receiver on this path
            rcv = args[0]
            try:
                pv = self.M.read_path(st, rcv.loc, rcv.path) if isinstance(rcv, Ref) else None
            except Exception:
                pv = None
            if isinstance(pv, Struct) and isinstance(pv.ty, int):
                p = self.impl_index.get((f["trait"], self.T.t(pv.ty)["s"], f["name"]))
                if p and p in self.F.bodies:
                    lp, largs = p, ()
            if lp is None and not f["trait"].startswith(("std::", "core::", "alloc::")):
                # receiver not known on this path: any impl of the (crate-local) trait may be the target
                cands = sorted(pp for (tr, _s, nm), pp in self.impl_index.items() if tr == f["trait"] and nm == f["name"] and pp in self.F.bodies)
                if cands and len(cands) <= 8 and self.contracts.lookup(f["path"]) is None and (self.on_call is None or True):
                    outs = []
                    for pp in cands:
                        if pp in self.cuts or (self.inline_filter is not None and not self.inline_filter(pp)):
                            outs = None
                            break
                        r = self.inline(st.fork(), fr, self.F.body(pp), {}, args, site)
                        if r is None:
                            outs = None
                            break
                        outs.extend(r)
                    if outs is not None:
                        return outs
        for key in ([lp] if lp else []) + [f["resolved"], f["path"]]:
            if not key:
                continue
            c = self.contracts.lookup(key)
            if c is not None:
                r = c(self, st, fr, f, args, site)
                if r is not None:
                    return r
        if lp and lp in self.cuts:
            self.cut_uses[lp] += 1
            r = self.cut_call(st, fr, f, lp, args, site)
            if r is not None:
                return r
            return self.default_call(st, fr, f, args, site)
        if lp:
            body = self.F.body(lp)
            if self.inline_filter is None or self.inline_filter(lp):
                names = [g for g in body.get("generics", []) if not g.startswith("const ")]
                targs = [a for a in (largs or ()) if isinstance(a, int)]
                sub = dict(zip(names, targs)) if len(names) == len(targs) else dict(zip(names[-len(targs):], targs)) if targs else {}
                if f["trait"] and not largs and f["self_ty"] is not None:
                    sub = {}
                if f["trait"] and f["self_ty"] is not None and body.get("impl_self") is None and self.T.t(f["self_ty"])["k"] not in ("param", "dyn"):
                    # a provided (default) method of a trait, inlined for a concrete receiver type
                    sub = dict(sub)
                    sub.setdefault("Self", f["self_ty"])
                # const generics: `read::<4>(..)`, or a const parameter of the caller passed on (`read::<N>(..)`)
                allg = [g for g in body.get("generics", []) if not g.startswith("'")]
                alla = [a for a in (largs or ())]
                if any(g.startswith("const ") for g in allg) and len(allg) == len(alla):
                    for g, a in zip(allg, alla):
                        if not g.startswith("const ") or isinstance(a, int):
                            continue
                        m_ = re.match(r"^(-?\d+)(_[iu](8|16|32|64|128|size))?$", str(a))
                        if m_:
                            sub[g] = int(m_.group(1))
                        elif fr is not None and isinstance(fr.sub.get("const " + str(a)), int):
                            sub[g] = fr.sub["const " + str(a)]
                return self.inline(st, fr, body, sub, args, site)
        self.unknown_callees[f["resolved"] or f["path"]] += 1
        return self.default_call(st, fr, f, args, site)

    def inline(self, st, fr, body, sub, args, site, closure_env=None):
        if fr is not None and fr.depth >= self.max_depth:
            return None
        # recursion guard
        f = fr
        while f is not None:
            if f.path == body["path"] and f.depth > 0 and fr.depth - f.depth > 6:
                return None
            f = f.parent
        argv = list(args)
        if closure_env is not None or body["kind"] == "closure":
            # closure bodies: _1 = env (by ref or by value), remaining params = untupled args
            env_ty = self.T.t(body["locals"][1]["ty"])
            if closure_env is None:
                self.hv += 1
                closure_env = "obj:env%d" % self.hv
                st.locs[closure_env] = Struct(None, ())
            envv = Ref(closure_env, (), env_ty.get("mut", False)) if env_ty["k"] == "ref" else st.locs.get(closure_env, Struct(None, ()))
            rest = argv
            # Fn*::call passes (self, (args...)): caller hands us already-untupled args
            argv = [envv] + list(rest)
        if len(argv) != body["arg_count"]:
            # arity mismatch (e.g. tupled args): try to untuple the last argument
            if argv and isinstance(argv[-1], Struct) and len(argv) - 1 + len(argv[-1].fields) == body["arg_count"]:
                argv = argv[:-1] + list(argv[-1].fields)
            elif argv and isinstance(argv[-1], Unit) and len(argv) - 1 == body["arg_count"]:
                argv = argv[:-1]
            else:
                return None
        return self.run_body(body, sub, argv, st, fr, site)

    def cut_call(self, st, fr, f, lp, args, site):
        """Modular call of a local nom-shaped parser `fn(&[u8], ..) -> IResult<&[u8], O, E>`: assumes only the weak
        parser contract (on Ok the remainder is a suffix of the input); the rule verifies that contract on the
        callee's own exits (assume/guarantee by type)."""
        from engine.contracts import ret_ty
        if not args or not isinstance(args[0], Slice):
            return None
        rt = ret_ty(self, site)
        if rt is None:
            return None
        tt = self.T.t(rt)
        if tt["k"] != "adt" or not tt["path"].endswith("result::Result"):
            return None
        inp = args[0]
        base = self.M.force(st, Top(rt, "cut#%d" % self._hv()))
        if not isinstance(base, Enum) or len(base.variants) != 2:
            return None
        okp = base.variants[0][1][0]
        if isinstance(okp, Top):
            okp = self.M.force(st, okp)
        if not (isinstance(okp, Struct) and len(okp.fields) == 2):
            return None
        r0 = okp.fields[0]
        if isinstance(r0, Top):
            r0 = self.M.force(st, r0)
        if not isinstance(r0, Slice):
            return None
        outs = []
        ns = st.fork()
        c = self.fresh_int("cut_consumed", 64, False, 0, self.len_max)
        self.len_syms.add(c.lin.single_sym())
        try:
            ns.add_fact(inp.len.sub(c.lin), self)
            rest = Slice(inp.base, inp.off.add(c.lin), inp.len.sub(c.lin), inp.elem)
            outs.append((ns, Enum(base.ty, ((0, (Struct(okp.ty, (rest, okp.fields[1])),)),), "cut")))
        except Dead:
            pass
        outs.append((st.fork(), Enum(base.ty, (base.variants[1],), "cut")))
        return outs

    def _havoc_deep(self, cur):
        if isinstance(cur, Cont):
            self.hv += 1
            n = "len(hv%d)" % self.hv
            self.declare(n, 0, self.len_max)
            self.len_syms.add(n)
            return Cont(cur.kind, "hv%d" % self.hv, Lin.sym(n), cur.elem, None, cur.ty)
        return self.M.havoc_like(cur)

    def default_call(self, st, fr, f, args, site):
        """Unknown external callee: total, havocs what its &mut arguments point to, returns top."""
        for a in args:
            if isinstance(a, Ref) and a.mut:
                cur = self.M.read_path(st, a.loc, a.path)
                if cur is not None:
                    self.M.write_path(st, a.loc, a.path, self.M.havoc_like(cur))
            elif isinstance(a, Slice) and isinstance(a.base, tuple) and a.base[0] == "loc":
                pass
            elif isinstance(a, Fn):
                # a closure handed to code we do not model may be called any number of times: whatever it captured
                # by mutable reference is unknown afterwards
                for it in a.items:
                    if it[0] == "closure" and it[2] is not None:
                        env = st.locs.get(it[2])
                        if isinstance(env, Struct):
                            for fld in env.fields:
                                if isinstance(fld, Ref):
                                    cur = self.M.read_path(st, fld.loc, fld.path)
                                    if isinstance(cur, Ref):
                                        fld = cur
                                        cur = self.M.read_path(st, fld.loc, fld.path)
                                    if cur is not None and (fld.mut or isinstance(cur, Cont)):
                                        self.M.write_path(st, fld.loc, fld.path, self._havoc_deep(cur))
        t = site["term"]
        ti = self.place_ty(site["fr"], t["dest"])
        if ti is None:
            return [(st, ("ANY", "ret"))]
        return [(st, self.top_of(ti, "ret"))]
