"""CFG / call-graph queries over mirdump facts: successors, dominators, natural
loops, reachability, operand walking, resolved call graph (calls, fn-item values,
closures, local trait impl fan-out)."""
from collections import defaultdict


def term_succs(t, with_unwind=False):
    k = t["k"]
    out = []
    if k == "goto":
        out = [t["t"]]
    elif k == "switch":
        out = list(t["tgts"]) + [t["otherwise"]]
    elif k in ("call", "drop", "assert", "yield"):
        if t.get("t") is not None:
            out = [t["t"]]
        if k == "yield" and t.get("drop") is not None and with_unwind:
            out.append(t["drop"])
        if with_unwind and t.get("u") is not None:
            out.append(t["u"])
    return out


def succs(body, with_unwind=False):
    return [term_succs(b["term"], with_unwind) for b in body["blocks"]]


def reachable_blocks(body, start=0, with_unwind=False):
    sc = succs(body, with_unwind)
    seen = {start}
    st = [start]
    while st:
        n = st.pop()
        for s in sc[n]:
            if s not in seen:
                seen.add(s)
                st.append(s)
    return seen


def dominators(body):
    """Iterative dominator sets over normal (non-unwind) edges from bb0."""
    sc = succs(body)
    n = len(sc)
    reach = reachable_blocks(body)
    preds = defaultdict(list)
    for a in reach:
        for b in sc[a]:
            preds[b].append(a)
    order = rpo(sc, 0)
    dom = {b: None for b in reach}
    dom[0] = {0}
    changed = True
    while changed:
        changed = False
        for b in order:
            if b == 0:
                continue
            ps = [dom[p] for p in preds[b] if dom.get(p) is not None]
            if not ps:
                continue
            new = set.intersection(*ps) | {b}
            if new != dom[b]:
                dom[b] = new
                changed = True
    return dom, preds


def rpo(sc, start):
    seen = set()
    post = []
    stack = [(start, iter(sc[start]))]
    seen.add(start)
    while stack:
        n, it = stack[-1]
        adv = False
        for s in it:
            if s not in seen:
                seen.add(s)
                stack.append((s, iter(sc[s])))
                adv = True
                break
        if not adv:
            post.append(n)
            stack.pop()
    post.reverse()
    return post


def natural_loops(body):
    """Returns list of dict(header, back_edges=[(src, header)], blocks=set)."""
    dom, preds = dominators(body)
    sc = succs(body)
    loops = {}
    for a in dom:
        if dom[a] is None:
            continue
        for h in sc[a]:
            if dom.get(h) is not None and h in dom[a]:
                # back edge a -> h
                lp = loops.setdefault(h, {"header": h, "back_edges": [], "blocks": {h}})
                lp["back_edges"].append((a, h))
                st = [a]
                while st:
                    x = st.pop()
                    if x not in lp["blocks"]:
                        lp["blocks"].add(x)
                        st.extend(preds[x])
    return list(loops.values())


def reaches_within(sc, start, goal, allowed):
    """Is `goal` reachable from `start` (path of length >= 0) staying inside `allowed`?"""
    if start not in allowed:
        return False
    seen = {start}
    st = [start]
    while st:
        n = st.pop()
        if n == goal:
            return True
        for s in sc[n]:
            if s in allowed and s not in seen:
                seen.add(s)
                st.append(s)
    return False


# ---------------------------------------------------------------- operand walking


def rv_operands(rv):
    k = rv["k"]
    if k in ("use", "cast", "un", "repeat"):
        yield rv["a"]
    elif k == "bin":
        yield rv["a"]
        yield rv["b"]
    elif k == "agg":
        for o in rv["ops"]:
            yield o


def term_operands(t):
    k = t["k"]
    if k == "switch":
        yield t["d"]
    elif k in ("call", "tailcall"):
        yield t["f"]
        for a in t["args"]:
            yield a
    elif k == "assert":
        yield t["cond"]
        m = t["msg"]
        for key in ("a", "b", "len", "index"):
            if key in m:
                yield m[key]
    elif k == "yield":
        yield t["v"]


def all_operands(body, include_promoted=True):
    """Yields (block index, stmt index or None for terminator, operand, span)."""
    for bi, blk in enumerate(body["blocks"]):
        for si, s in enumerate(blk["stmts"]):
            if s["k"] == "assign":
                for o in rv_operands(s["rv"]):
                    yield bi, si, o, s.get("sp")
        for o in term_operands(blk["term"]):
            yield bi, None, o, blk["sp"]
    if include_promoted:
        for pb in body.get("promoted", []):
            for x in all_operands(pb, False):
                yield x


def const_fn(o):
    """If operand is a fn-item constant return its fn dict."""
    k = o.get("k")
    if k and "fn" in k:
        return k["fn"]
    return None


def callee_of(t):
    if t["k"] not in ("call", "tailcall"):
        return None
    return const_fn(t["f"])


def fn_target(f):
    """Most specific def path known for a fn reference."""
    return f.get("resolved") or f["path"]


# ---------------------------------------------------------------- call graph


class CallGraph:
    def __init__(self, facts):
        self.facts = facts
        self.edges = defaultdict(set)  # caller path -> set of callee paths (local or external)
        self.sites = defaultdict(list)  # caller -> [(callee fn dict, kind 'call'|'value', block, span)]
        # impl fan-out table for local traits: (trait, method) -> [impl method path]
        self.trait_impls = defaultdict(list)
        for imp in facts.impls:
            tr = imp.get("trait")
            if not tr:
                continue
            for it in imp["items"]:
                self.trait_impls[(tr, it["name"])].append((imp["self"], it["path"]))
        for b in facts.doc["bodies"]:
            self._scan(b)

    def _scan(self, b):
        caller = b["path"]
        for body in [b] + b.get("promoted", []):
            for bi, blk in enumerate(body["blocks"]):
                if blk["cleanup"]:
                    continue
                t = blk["term"]
                cf = callee_of(t)
                for si, s in enumerate(blk["stmts"]):
                    if s["k"] != "assign":
                        continue
                    rv = s["rv"]
                    if rv["k"] == "agg" and rv["ak"] in ("closure", "coroutine", "coroutine_closure"):
                        self.edges[caller].add(rv["def"])
                        self.sites[caller].append(({"path": rv["def"], "s": rv["def"], "local": True}, "closure", bi, s["sp"]))
                    for o in rv_operands(rv):
                        f = const_fn(o)
                        if f:
                            self._add(caller, f, "value", bi, s["sp"])
                        k = o.get("k")
                        if k and "closure" in k:
                            self.edges[caller].add(k["closure"])
                for o in term_operands(t):
                    f = const_fn(o)
                    if f:
                        kind = "call" if (cf is f) else "value"
                        self._add(caller, f, kind, bi, blk["sp"])
                    k = o.get("k")
                    if k and "closure" in k:
                        self.edges[caller].add(k["closure"])

    def _add(self, caller, f, kind, bi, sp):
        self.sites[caller].append((f, kind, bi, sp))
        tgt = fn_target(f)
        self.edges[caller].add(tgt)
        # unresolved trait method on a type parameter: fan out to every local impl
        if "trait" in f and "resolved" not in f:
            for (_self, path) in self.trait_impls.get((f["trait"], f["name"]), []):
                self.edges[caller].add(path)
        # closure types passed as generic args of library HOFs are reached via the
        # closure aggregate edge already; fn items passed as generic args:
        for ti in f.get("args", []):
            if isinstance(ti, int):
                self._ty_edges(caller, ti, 0)

    def _ty_edges(self, caller, ti, depth):
        if depth > 6:
            return
        t = self.facts.ty(ti)
        k = t["k"]
        if k in ("fndef", "closure", "coroutine"):
            self.edges[caller].add(t["path"])
        for key in ("args", "of", "upvars"):
            v = t.get(key)
            if isinstance(v, list):
                for x in v:
                    if isinstance(x, int):
                        self._ty_edges(caller, x, depth + 1)
            elif isinstance(v, int):
                self._ty_edges(caller, v, depth + 1)
        if "to" in t:
            self._ty_edges(caller, t["to"], depth + 1)

    def reachable(self, roots):
        seen = set()
        st = list(roots)
        while st:
            n = st.pop()
            if n in seen:
                continue
            seen.add(n)
            for m in self.edges.get(n, ()):
                if m not in seen:
                    st.append(m)
        return seen

    def local_reachable(self, roots):
        return {p for p in self.reachable(roots) if p in self.facts.bodies}

    def path_to(self, roots, goal):
        """Shortest call path from any root to goal (for reports)."""
        from collections import deque

        prev = {}
        dq = deque()
        for r in roots:
            prev[r] = None
            dq.append(r)
        while dq:
            n = dq.popleft()
            if n == goal:
                out = []
                while n is not None:
                    out.append(n)
                    n = prev[n]
                return list(reversed(out))
            for m in sorted(self.edges.get(n, ())):
                if m not in prev:
                    prev[m] = n
                    dq.append(m)
        return None
