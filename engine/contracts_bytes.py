"""Contracts: bytes::BytesMut / BufMut (segment sequences), byteorder, memchr."""
import re

from engine.contracts import contract, deref, ret_ty, variant_payload_ty
from engine.contracts_coll import LEN, len_int, new_cont, register_cont, view
from engine.contracts_std import force
from engine.lin import Lin
from engine.state import Dead
from engine.values import (Arr, Bool, Cont, Enum, FALSE, Flt, Fn, Int, Ref, Slice, Struct, Top, TRUE, UNIT, Unit, int_const)

NUMRE = r"(u8|i8|u16|i16|u32|i32|u64|i64|u128|i128|f32|f64)"
WIDTH = {"u8": 1, "i8": 1, "u16": 2, "i16": 2, "u32": 4, "i32": 4, "u64": 8, "i64": 8, "u128": 16, "i128": 16, "f32": 4, "f64": 8}


def order_of(eng, f):
    st = f.get("self_ty")
    if st is None:
        return "?"
    t = eng.T.t(st)
    if t["k"] == "param":
        return "T"
    return {"byteorder::BigEndian": "BE", "byteorder::LittleEndian": "LE", "byteorder::NetworkEndian": "BE"}.get(t.get("path"), "?")


def seg_len(seg):
    k = seg[0]
    if k == "num":
        return Lin.const(seg[1])
    if k == "bytes":
        return seg[3]
    if k == "const":
        return Lin.const(len(seg[1]))
    if k == "rep":
        return None
    if k == "fill":
        return seg[2]
    if k == "byte":
        return Lin.const(1)
    if k == "zeros":
        return seg[1]
    return None


def slice_segments(eng, st, vw):
    """Segments describing the bytes of a sequence view."""
    if vw.get("arr") is not None:
        es = vw["arr"].elems
        # whole array = one number written by ByteOrder::write_*
        if es and all(isinstance(e, tuple) and e and e[0] == "NB" for e in es):
            ids = {e[1] for e in es}
            if len(ids) == 1 and [e[2] for e in es] == list(range(len(es))):
                n = eng.nums[es[0][1]]
                if n["width"] == len(es):
                    return (("num", n["width"], n["order"], n["value"], n["desc"]),)
        if all(isinstance(e, Int) and e.lin.is_const() for e in es):
            return (("const", bytes(e.lin.c & 0xFF for e in es)),)
        return (("bytes", "arr?", Lin.const(0), Lin.const(len(es))),)
    base = vw["base"]
    if isinstance(base, str) and base.startswith("const:"):
        data = eng.const_bytes.get(base)
        if data is not None and vw["off"].is_const() and vw["len"].is_const():
            return (("const", data[vw["off"].c: vw["off"].c + vw["len"].c]),)
    c = vw["cont"] or getattr(eng, "cont_by_id", {}).get(base)
    if c is not None and c.segs is not None and not c.kind.startswith("iter") and vw["off"] == Lin.const(0) and vw["len"] == c.len:
        return c.segs
    return (("bytes", base, vw["off"], vw["len"]),)


def append(eng, st, r, segs, ln):
    c = force(eng, st, deref(eng, st, r))
    if not isinstance(c, Cont):
        return False
    if segs is not None:
        segs = tuple(x for x in segs if not (x[0] == "const" and len(x[1]) == 0))   # appending nothing adds no segment
    nsegs = None if (c.segs is None or segs is None) else c.segs + tuple(segs)
    eng.M.write_path(st, r.loc, r.path, new_cont(eng, c.kind, c.len.add(ln), c.elem, nsegs, c.ty, hint="buf"))
    return True


@contract(r"^bytes::BytesMut::(with_capacity|new)$")
def c_bm_new(eng, st, fr, f, args, site):
    rt = ret_ty(eng, site)
    return [(st, new_cont(eng, "bytesmut", Lin.const(0), None, (), rt, hint="buf"))]


@contract(r"^bytes::BytesMut::extend_from_slice$|^<bytes::BytesMut as bytes::BufMut>::put_slice$|^bytes::BufMut::put_slice$|^(std|alloc)::vec::Vec::<T, A>::extend_from_slice$")
def c_bm_extend(eng, st, fr, f, args, site):
    r = args[0]
    vw = view(eng, st, args[1])
    if not isinstance(r, Ref) or vw is None:
        return None
    if fixed_put(eng, st, r, vw["len"], site, "put_slice"):
        return [(st, UNIT)]
    segs = slice_segments(eng, st, vw)
    if not append(eng, st, r, segs, vw["len"]):
        return None
    return [(st, UNIT)]


def fixed_put(eng, st, r, n, site, what):
    """BufMut on a fixed-size `&mut [u8]` cursor: writing panics unless `remaining >= n`; the cursor advances."""
    cur = eng.M.read_path(st, r.loc, r.path)
    if isinstance(cur, Ref):
        r = cur
        cur = eng.M.read_path(st, r.loc, r.path)
    if not isinstance(cur, Slice):
        return False
    desc = "%s(%s) on a fixed-size buffer" % (what, eng.describe_operand(site["fr"], site["term"]["args"][0]))
    ok = st.holds(cur.len.sub(n), eng)
    eng.obligation(site["fr"], site["blk"], "BufMut", desc, ok, need="%s >= %s" % (cur.len, n), st=st, reason="remaining capacity covers the write by guard facts")
    try:
        st.add_fact(cur.len.sub(n), eng)
    except Dead:
        pass
    eng.M.write_path(st, r.loc, r.path, Slice(cur.base, cur.off.add(n), cur.len.sub(n), cur.elem))
    return True


@contract(r"^(<bytes::BytesMut as )?bytes::(buf::)?BufMut(>)?::put_" + NUMRE + r"(_le|_ne)?$")
def c_bm_put_num(eng, st, fr, f, args, site):
    m = re.search(r"put_" + NUMRE + r"(_le|_ne)?$", f["path"])
    w = WIDTH[m.group(1)]
    order = "1" if w == 1 else ("LE" if m.group(2) == "_le" else "NE" if m.group(2) == "_ne" else "BE")
    r = args[0]
    if not isinstance(r, Ref):
        return None
    if fixed_put(eng, st, r, Lin.const(w), site, "put_" + m.group(1)):
        return [(st, UNIT)]
    desc = eng.describe_operand(site["fr"], site["term"]["args"][1])
    if not append(eng, st, r, (("num", w, order, args[1], desc),), Lin.const(w)):
        return None
    return [(st, UNIT)]


@contract(r"^bytes::BytesMut::resize$|^(std|alloc)::vec::Vec::<T, A>::resize$")
def c_resize(eng, st, fr, f, args, site):
    """resize(new_len, value): when new_len >= len this appends (new_len - len) copies of value."""
    r, n, v = args[0], args[1], args[2]
    if not isinstance(r, Ref) or not isinstance(n, Int):
        return None
    c = force(eng, st, deref(eng, st, r))
    if not isinstance(c, Cont):
        return None
    grow = n.lin.sub(c.len)
    if st.holds(grow, eng):
        segs = None if c.segs is None else c.segs + (("fill", v, grow),)
        eng.M.write_path(st, r.loc, r.path, new_cont(eng, c.kind, n.lin, c.elem, segs, c.ty, hint="buf"))
        return [(st, UNIT)]
    eng.M.write_path(st, r.loc, r.path, new_cont(eng, c.kind, n.lin, c.elem, None, c.ty, hint="buf"))
    return [(st, UNIT)]


@contract(r"^(std|core)::iter::repeat$|^(std|core)::iter::sources::repeat::repeat$")
def c_iter_repeat(eng, st, fr, f, args, site):
    """iter::repeat(v): an endless iterator of one value (made finite by take)."""
    rt = ret_ty(eng, site)
    return [(st, Cont("iter:repeat", "rep#%d" % eng._hv(), Lin.const(0), args[0], None, rt))]


@contract(r"^(std|core)::iter::Iterator::take$|^<(std|core)::iter::Repeat<.*> as (std|core)::iter::Iterator>::take$")
def c_iter_take(eng, st, fr, f, args, site):
    it = force(eng, st, args[0])
    n = args[1]
    if isinstance(it, Cont) and it.kind == "iter:repeat" and isinstance(n, Int):
        rt = ret_ty(eng, site)
        return [(st, Cont("iter:fill", "fillit#%d" % eng._hv(), n.lin, it.elem, None, rt))]
    return None


@contract(r"^<bytes::BytesMut as (std|core)::iter::Extend<u8>>::extend$|^(std|core)::iter::Extend::extend$|^<(std|alloc)::vec::Vec<T, A> as (std|core)::iter::Extend<T>>::extend$")
def c_extend_fill(eng, st, fr, f, args, site):
    """extend(repeat(v).take(n)): appends n copies of v (same as resize growing by n)."""
    if len(args) < 2 or not isinstance(args[0], Ref):
        return None
    it = force(eng, st, args[1])
    if not (isinstance(it, Cont) and it.kind == "iter:fill"):
        return None
    c = force(eng, st, deref(eng, st, args[0]))
    if not isinstance(c, Cont):
        return None
    segs = None if c.segs is None else c.segs + (("fill", it.elem, it.len),)
    eng.M.write_path(st, args[0].loc, args[0].path, new_cont(eng, c.kind, c.len.add(it.len), c.elem, segs, c.ty, hint="buf"))
    return [(st, UNIT)]


@contract(r"^bytes::BytesMut::(to_vec|freeze)$")
def c_bm_to_vec(eng, st, fr, f, args, site):
    return None


@contract(r"^byteorder::ByteOrder::write_" + NUMRE + r"$|^<byteorder::(BigEndian|LittleEndian) as byteorder::ByteOrder>::write_" + NUMRE + r"$")
def c_bo_write(eng, st, fr, f, args, site):
    m = re.search(r"write_" + NUMRE + r"$", f["path"])
    w = WIDTH[m.group(1)]
    order = order_of(eng, f)
    vw = view(eng, st, args[0])
    desc = "%s::write_%s(%s)" % (order, m.group(1), eng.describe_operand(site["fr"], site["term"]["args"][0]))
    if vw is None:
        eng.obligation(site["fr"], site["blk"], "ByteOrder", desc, False, need="buffer length >= %d" % w, st=st)
        return [(st, UNIT)]
    ok = st.holds(vw["len"].sub(w), eng)
    eng.obligation(site["fr"], site["blk"], "ByteOrder", desc, ok, need="%s >= %d" % (vw["len"], w), st=st, reason="fixed-size buffer is large enough")
    # write into a small array aliased by the slice
    base = vw["base"]
    if isinstance(base, tuple) and base[0] == "loc":
        _, loc, path = base
        arr = eng.M.read_path(st, loc, path)
        if isinstance(arr, Arr) and vw["off"].is_const():
            nums = getattr(eng, "nums", None)
            if nums is None:
                nums = eng.nums = {}
            nid = "n%d" % eng._hv()
            nums[nid] = {"width": w, "order": order, "value": args[1], "desc": eng.describe_operand(site["fr"], site["term"]["args"][1])}
            es = list(arr.elems)
            o = vw["off"].c
            for i in range(w):
                if o + i < len(es):
                    es[o + i] = ("NB", nid, i)
            eng.M.write_path(st, loc, path, Arr(arr.ty, tuple(es)))
    return [(st, UNIT)]


@contract(r"^byteorder::ByteOrder::read_" + NUMRE + r"$|^<byteorder::(BigEndian|LittleEndian) as byteorder::ByteOrder>::read_" + NUMRE + r"$")
def c_bo_read(eng, st, fr, f, args, site):
    m = re.search(r"read_" + NUMRE + r"$", f["path"])
    w = WIDTH[m.group(1)]
    order = order_of(eng, f)
    vw = view(eng, st, args[0])
    desc = "%s::read_%s(%s)" % (order, m.group(1), eng.describe_operand(site["fr"], site["term"]["args"][0]))
    rt = ret_ty(eng, site)
    ii = eng.T.int_info(rt)
    if vw is None:
        eng.obligation(site["fr"], site["blk"], "ByteOrder", desc, False, need="buffer length >= %d" % w, st=st)
        return None
    ok = st.holds(vw["len"].sub(w), eng)
    eng.obligation(site["fr"], site["blk"], "ByteOrder", desc, ok, need="%s >= %d" % (vw["len"], w), st=st, reason="slice is long enough by guard facts")
    # a signed read of the same bytes is a different number than the unsigned read: it gets its own symbol ("rds[..]")
    name = "%s[%s@%s:%d:%s]" % ("rds" if (ii and ii[1]) else "rd", vw["base"] if not isinstance(vw["base"], tuple) else "arr", vw["off"], w, order)
    eng.events.append(("read", vw["base"], vw["off"], w, order, name, site["fr"].path))
    eng.rd_syms[name] = (vw["base"], vw["off"], w, order)
    if ii:
        return [(st, eng.named_int(name, ii[0], ii[1]))]
    return [(st, Flt(("sym", name), w * 8))]


@contract(r"^memchr::memmem::Finder::<'n>::new$|^memchr::memmem::searcher::Finder::<'n>::new$|^memchr::memmem::Finder::new$")
def c_finder_new(eng, st, fr, f, args, site):
    vw = view(eng, st, args[0])
    rt = ret_ty(eng, site)
    if vw is None:
        return None
    return [(st, Struct(rt, (("FINDER", vw["base"], vw["off"], vw["len"]),)))]


@contract(r"^memchr::memmem::Finder::<'n>::(find|rfind)$|^memchr::memmem::searcher::Finder::<'n>::find$")
def c_finder_find(eng, st, fr, f, args, site):
    fd = deref(eng, st, args[0]) if isinstance(args[0], Ref) else args[0]
    vw = view(eng, st, args[1])
    rt = ret_ty(eng, site)
    if vw is None or rt is None or not isinstance(fd, Struct) or not fd.fields or not isinstance(fd.fields[0], tuple):
        return None
    _, nb, noff, nlen = fd.fields[0]
    # Some(i): i + len(needle) <= len(haystack) ; first occurrence
    eng.events.append(("find", nb, vw["base"], repr(vw["off"]), repr(vw["len"]), "first" if f["path"].endswith("::find") else "last", site["fr"].path))
    i = eng.fresh_int("found", 64, False, 0, eng.len_max)
    outs = []
    ns = st.fork()
    try:
        ns.add_fact(vw["len"].sub(i.lin).sub(nlen), eng)
        eng.key_outcome(ns, "find", "some")
        tag = ("found", nb, vw["base"], vw["off"], "first" if f["path"].endswith("::find") else "last")
        outs.append((ns, Enum(rt, ((1, (i._replace(tags=frozenset([tag])),)),), "find")))
    except Dead:
        pass
    ns = st.fork()
    eng.key_outcome(ns, "find", "none")
    outs.append((ns, Enum(rt, ((0, ()),), "find")))
    return outs
