"""std contracts, part 2: slices, Vec, String, str, indexing, UTF-8, iterators."""
import re

from engine.contracts import contract, deref, ret_ty, variant_payload_ty
from engine.contracts_std import as_enum, call_closure, force, split_variants
from engine.lin import Lin
from engine.state import Dead
from engine.values import (Arr, Bool, Cont, Enum, FALSE, Flt, Fn, Int, Ref, Slice, Struct, Top, TRUE, UNIT, Unit, int_const, ty_range)

LEN = frozenset(["len"])


def len_int(lin):
    return Int(lin, None, 64, False, LEN)


def register_cont(eng, c):
    reg = getattr(eng, "cont_by_id", None)
    if reg is None:
        reg = eng.cont_by_id = {}
    reg[c.id] = c
    return c


def new_cont(eng, kind, ln, elem, segs, ty, hint=None):
    cid = "%s#%d" % (hint or kind, eng._hv())
    return register_cont(eng, Cont(kind, cid, ln, elem, segs, ty))


def view(eng, st, v):
    """Sequence view of a value: dict(base, off, len, elem, cont, ref) or None."""
    ref = None
    if isinstance(v, Ref):
        ref = v
        v = deref(eng, st, v)
    v = force(eng, st, v)
    if isinstance(v, Slice):
        d = {"base": v.base, "off": v.off, "len": v.len, "elem": v.elem, "cont": None, "ref": ref, "slice": v}
        if isinstance(v.base, tuple) and v.base[0] == "loc" and v.off == Lin.const(0):
            # a slice covering a whole small array (e.g. `&tmp[..]` after ByteOrder::write_*): expose the array content
            arr = eng.M.read_path(st, v.base[1], v.base[2])
            if isinstance(arr, Arr) and v.len == Lin.const(len(arr.elems)):
                d["arr"] = arr
        return d
    if isinstance(v, Cont):
        register_cont(eng, v)
        return {"base": v.id, "off": Lin.const(0), "len": v.len, "elem": v.elem, "cont": v, "ref": ref}
    if isinstance(v, Arr) and ref is not None:
        return {"base": ("loc", ref.loc, ref.path), "off": Lin.const(0), "len": Lin.const(len(v.elems)), "elem": None, "cont": None, "ref": ref, "arr": v}
    return None


def mk_slice(vw, off=None, ln=None):
    return Slice(vw["base"], vw["off"] if off is None else off, vw["len"] if ln is None else ln, vw["elem"])


# ------------------------------------------------------------------ len / is_empty / deref / as_bytes


@contract(r"^(core|std)::slice::<impl \[T\]>::len$|^(std|alloc)::vec::Vec::<T, A>::len$|^(std|alloc)::string::String::len$|^(core|std)::str::<impl str>::len$|^bytes::BytesMut::len$|^std::collections::HashSet::<T, S, A>::len$|^std::collections::HashMap::<K, V, S, A>::len$")
def c_len(eng, st, fr, f, args, site):
    vw = view(eng, st, args[0])
    if vw is None:
        r = eng.fresh_int("len", 64, False, 0, eng.len_max)._replace(tags=LEN)
        eng.len_syms.add(r.lin.single_sym())
        return [(st, r)]
    return [(st, len_int(vw["len"]))]


@contract(r"^(core|std)::slice::<impl \[T\]>::is_empty$|^(std|alloc)::vec::Vec::<T, A>::is_empty$|^(std|alloc)::string::String::is_empty$|^(core|std)::str::<impl str>::is_empty$")
def c_is_empty(eng, st, fr, f, args, site):
    vw = view(eng, st, args[0])
    if vw is None:
        return None
    return [(st, Bool(eng.simplify_cond(st, ("cmp", "Eq", vw["len"], Lin.const(0)))))]


@contract(r"^<(std|alloc)::vec::Vec<T, A> as (std|core)::ops::Deref(Mut)?>::deref(_mut)?$|^<(std|alloc)::string::String as (std|core)::ops::Deref>::deref$|^<bytes::BytesMut as (std|core)::ops::Deref(Mut)?>::deref(_mut)?$"
          r"|^(std|alloc)::string::String::(as_bytes|as_str)$|^(core|std)::str::<impl str>::as_bytes$|^<(std|alloc)::string::String as (std|core)::convert::AsRef<(str|\[u8\])>>::as_ref$|^(std|alloc)::vec::Vec::<T, A>::as_slice$"
          r"|^<(std|alloc)::vec::Vec<T, A> as (std|core)::convert::AsRef<\[T\]>>::as_ref$|^<(std|alloc)::vec::Vec<T, A> as (std|core)::borrow::Borrow<\[T\]>>::borrow$")
def c_deref_seq(eng, st, fr, f, args, site):
    vw = view(eng, st, args[0])
    if vw is None:
        return None
    return [(st, mk_slice(vw))]


@contract(r"^(std|core)::convert::AsRef::as_ref$|^(std|core)::borrow::Borrow::borrow$|^(std|core)::convert::<impl (std|core)::convert::AsRef<U> for &(mut )?T>::as_ref$"
          r"|^<str as (std|core)::convert::AsRef<(str|\[u8\])>>::as_ref$|^(std|core)::convert::<impl (std|core)::convert::AsRef<(str|\[u8\])> for str>::as_ref$"
          r"|^<\[T\] as (std|core)::convert::AsRef<\[T\]>>::as_ref$|^(std|core)::convert::<impl (std|core)::convert::AsRef<\[T\]> for \[T\]>::as_ref$")
def c_as_ref_generic(eng, st, fr, f, args, site):
    """`AsRef<str>` / `AsRef<[u8]>` on a generic parameter (or through the `&T` blanket impl): for the byte-sequence
    types the engine models (String, &str, Vec<u8>, slices, any level of `&`) the result is a view of the same bytes."""
    rt = ret_ty(eng, site)
    rs = eng.T.s(rt) if rt is not None else ""
    if not re.match(r"^&(mut )?(str|\[u8\])$", rs):
        return None
    v = args[0]
    for _ in range(4):
        vw = view(eng, st, v)
        if vw is not None:
            return [(st, mk_slice(vw))]
        if not isinstance(v, Ref):
            return None
        v = deref(eng, st, v)
    return None


# ------------------------------------------------------------------ indexing


def describe_range(eng, site, idx):
    fr = site["fr"]
    t = site["term"]
    try:
        a0 = eng.describe_operand(fr, t["args"][0])
        a1 = eng.describe_operand(fr, t["args"][1])
    except Exception:
        a0, a1 = "?", "?"
    return "%s[%s]" % (a0.lstrip("&*"), a1)


def range_bounds(eng, st, rng, ln):
    """(start Lin, end Lin, kind) of a range value applied to a sequence of length ln."""
    rng = force(eng, st, rng)
    if isinstance(rng, Int):
        return rng.lin, rng.lin.add(1), "index"
    if isinstance(rng, Struct):
        s = eng.T.s(rng.ty) if isinstance(rng.ty, int) else ""
        fs = [force(eng, st, x) for x in rng.fields]
        if "RangeFull" in s:
            return Lin.const(0), ln, "full"
        if "RangeFrom" in s and isinstance(fs[0], Int):
            return fs[0].lin, ln, "from"
        if "RangeToInclusive" in s and isinstance(fs[0], Int):
            return Lin.const(0), fs[0].lin.add(1), "to="
        if "RangeTo" in s and isinstance(fs[0], Int):
            return Lin.const(0), fs[0].lin, "to"
        if "Range<" in s and len(fs) == 2 and isinstance(fs[0], Int) and isinstance(fs[1], Int):
            return fs[0].lin, fs[1].lin, "range"
    return None


@contract(r"^(core|std)::slice::index::<impl (std|core)::ops::Index(Mut)?<I> for \[T\]>::index(_mut)?$|^<(std|alloc)::vec::Vec<T, A> as (std|core)::ops::Index(Mut)?<I>>::index(_mut)?$|^<(std|alloc)::string::String as (std|core)::ops::Index(Mut)?<I>>::index(_mut)?$|^(core|std)::str::traits::<impl (std|core)::ops::Index<I> for str>::index$")
def c_index(eng, st, fr, f, args, site):
    vw = view(eng, st, args[0])
    if vw is None:
        eng.obligation(site["fr"], site["blk"], "Index", describe_range(eng, site, None), False, need="unknown sequence", st=st)
        return None
    rb = range_bounds(eng, st, args[1], vw["len"])
    desc = describe_range(eng, site, None)
    pp_ = f["path"] + " " + str(f.get("resolved") or "")
    is_str = "String" in pp_ or "for str" in pp_ or "str::traits" in pp_ or (vw.get("cont") is not None and getattr(vw["cont"], "kind", "") == "string")
    if not is_str:
        # the receiver's static type decides: `&str` / `String` indexed by a range needs char boundaries
        try:
            a0 = site["term"]["args"][0]
            pl_ = a0.get("c") or a0.get("m")
            if pl_ is not None:
                ts_ = eng.T.s(eng.place_ty(site["fr"], pl_) or 0)
                is_str = bool(re.match(r"^&(mut )?(str|(std|alloc)::string::String)$", ts_))
        except Exception:
            pass
    if rb is None:
        eng.obligation(site["fr"], site["blk"], "Index", desc, False, need="unrecognised range", st=st)
        return None
    s, e, kind = rb
    ok = st.holds(s, eng) and st.holds(e.sub(s), eng) and st.holds(vw["len"].sub(e), eng)
    need = "0 <= %s <= %s <= %s" % (s, e, vw["len"])
    reason = "range within bounds by guard facts"
    if kind == "full":
        ok = True
        reason = "full range"
    if is_str and kind != "full":
        # str range indexing also needs char boundaries: not decidable here
        ok = False
        need += " and char boundaries"
    eng.obligation(site["fr"], site["blk"], "Index", desc, ok, need=need, st=st, reason=reason)
    try:
        st.add_fact(s, eng)
        st.add_fact(e.sub(s), eng)
        st.add_fact(vw["len"].sub(e), eng)
    except Dead:
        return []
    if kind == "index":
        # &T element
        if vw.get("arr") is not None and s.is_const():
            return [(st, Ref(vw["ref"].loc, vw["ref"].path + (("i", s),), False))]
        loc = "obj:elem#%d" % eng._hv()
        if vw["elem"] is not None:
            st.locs[loc] = vw["elem"]
        else:
            st.locs[loc] = eng.named_int("byte[%s@%s]" % (_bn(vw["base"]), vw["off"].add(s)), 8, False)
        return [(st, Ref(loc, (), False))]
    return [(st, Slice(vw["base"], vw["off"].add(s), e.sub(s), vw["elem"]))]


def _bn(base):
    if isinstance(base, tuple):
        return "arr"
    return str(base)


@contract(r"^(core|std)::slice::<impl \[T\]>::(split_at|split_at_mut)$")
def c_split_at(eng, st, fr, f, args, site):
    vw = view(eng, st, args[0])
    mid = args[1]
    if vw is None or not isinstance(mid, Int):
        return None
    ok = st.holds(mid.lin, eng) and st.holds(vw["len"].sub(mid.lin), eng)
    eng.obligation(site["fr"], site["blk"], "split_at", describe_range(eng, site, None), ok, need="%s <= %s" % (mid.lin, vw["len"]), st=st, reason="mid <= len by contract/guard facts")
    try:
        st.add_fact(vw["len"].sub(mid.lin), eng)
    except Dead:
        return []
    a = Slice(vw["base"], vw["off"], mid.lin, vw["elem"])
    b = Slice(vw["base"], vw["off"].add(mid.lin), vw["len"].sub(mid.lin), vw["elem"])
    return [(st, Struct(None, (a, b)))]


@contract(r"^(core|std)::num::<impl (u16|u32|u64|u128|i16|i32|i64|i128|usize)>::(from_be_bytes|from_le_bytes)$")
def c_from_bytes(eng, st, fr, f, args, site):
    """uN::from_be_bytes([b0, b1, ..]) / from_le_bytes: the number whose bytes are the array's elements (named byte reads
    of one sequence compose to the multi-byte read of that sequence)."""
    a = force(eng, st, args[0])
    rt = ret_ty(eng, site)
    ii = eng.T.int_info(rt) if rt is not None and eng.T.t(rt)["k"] in ("uint", "int") else None
    if ii is None:
        # applied as a function value (`opt.map(u16::from_be_bytes)`): the type is the impl's
        m_ = re.search(r"<impl ([ui])(\d+|size)>::from_[bl]e_bytes$", f["path"]) or re.search(r"<impl ([ui])(\d+|size)>::from_[bl]e_bytes$", f.get("resolved") or "")
        if m_:
            ii = (64 if m_.group(2) == "size" else int(m_.group(2)), m_.group(1) == "i")
    if not isinstance(a, Arr) or not ii or len(a.elems) * 8 != ii[0]:
        return None
    be = f["path"].endswith("from_be_bytes")
    elems = list(a.elems)
    if be:
        elems = list(reversed(elems))  # least significant byte first
    bits = []
    for e in elems:
        e = force(eng, st, e)
        if not isinstance(e, Int):
            return None
        eb = eng.bits_of(st, e)
        if eb is None:
            s1 = e.lin.single_sym()
            if s1 is None and e.lin.is_const():
                eb = tuple((e.lin.c >> i) & 1 for i in range(8))
            elif s1 is not None:
                eb = tuple(("b", s1, i) for i in range(8))
            else:
                return None
        bits.extend(list(eb)[:8])
    return [(st, eng.int_from_bits(st, tuple(bits), ii[0], ii[1]))]


def byte_read(eng, base, off):
    """The named single-byte read of sequence `base` at offset `off` (shared naming with indexing and the nom contracts)."""
    name = "rd[%s@%s:1:1]" % (base if not isinstance(base, tuple) else "arr", off)
    eng.rd_syms[name] = (base, off, 1, "1")
    return eng.named_int(name, 8, False)


@contract(r"^(core|std)::slice::<impl \[T\]>::(first|last|get)$|^(core|std)::str::<impl str>::get$")
def c_slice_get(eng, st, fr, f, args, site):
    """`s.get(i)` / `s.get(range)` / `first()` / `last()`: Some(..) exactly when the index / range is within bounds
    (the checked form of indexing: no obligation, two outcomes)."""
    vw = view(eng, st, args[0])
    rt = ret_ty(eng, site)
    if vw is None or rt is None:
        return None
    name = f["path"].split("::")[-1]
    ln = vw["len"]
    if name == "first":
        rb = (Lin.const(0), Lin.const(1), "index")
    elif name == "last":
        rb = (ln.sub(1), ln, "index")
    else:
        if len(args) < 2:
            return None
        rb = range_bounds(eng, st, args[1], ln)
    if rb is None:
        return None
    s, e, kind = rb
    if "str" in f["path"] and kind != "full":
        return None  # char boundaries
    outs = []
    ns = st.fork()
    try:
        ns.add_fact(s, eng)
        ns.add_fact(e.sub(s), eng)
        ns.add_fact(ln.sub(e), eng)
        if kind == "index":
            if vw.get("arr") is not None and s.is_const() and vw["off"].is_const() and 0 <= vw["off"].c + s.c < len(vw["arr"].elems):
                # an element of an array whose elements are known (a constant table): the element itself
                loc = "obj:elem#%d" % eng._hv()
                ns.locs[loc] = vw["arr"].elems[vw["off"].c + s.c]
                val = Ref(loc, (), False)
            else:
                loc = "obj:elem#%d" % eng._hv()
                ns.locs[loc] = vw["elem"] if vw["elem"] is not None else byte_read(eng, vw["base"], vw["off"].add(s))
                val = Ref(loc, (), False)
        else:
            val = Slice(vw["base"], vw["off"].add(s), e.sub(s), vw["elem"])
        outs.append((ns, Enum(rt, ((1, (val,)),), "opt")))
    except Dead:
        pass
    # None: out of bounds.  For the one-sided forms the negation is a single linear fact.
    ns = st.fork()
    try:
        if kind in ("to", "to=", "index") or (kind == "range" and st.holds(e.sub(s), eng)) or (kind == "from"):
            hi = e if kind != "from" else s
            ns.add_fact(hi.sub(ln).sub(1), eng)   # hi > len
        elif kind == "full":
            raise Dead()
        outs.append((ns, Enum(rt, ((0, ()),), "opt")))
    except Dead:
        pass
    return outs


@contract(r"^(std|core)::array::<impl (std|core)::convert::TryFrom<&(mut )?\[T\]> for \[T; N\]>::try_from$|^(std|core)::array::<impl (std|core)::convert::TryFrom<&'a (mut )?\[T\]> for &'a (mut )?\[T; N\]>::try_from$")
def c_array_try_from(eng, st, fr, f, args, site):
    """`<[u8; N]>::try_from(slice)`: Ok(the N elements) exactly when the slice has N elements."""
    vw = view(eng, st, args[0])
    rt = ret_ty(eng, site)
    if vw is None:
        return None
    at = variant_payload_ty(eng, rt, 0) if rt is not None else None
    if (at is None or eng.T.t(at)["k"] not in ("array", "ref")) and f.get("self_ty") is not None:
        # applied as a function value by a higher-order contract (`opt.map(<[u8; N]>::try_from)`): the site's type is the
        # combinator's, the result type is rebuilt from the impl's Self type
        et_ = eng.T.by_string("std::array::TryFromSliceError") or eng.T.by_string("core::array::TryFromSliceError")
        at = eng.T.subst(f["self_ty"], getattr(fr, "sub", None) or {})
        rt = eng.T.mk_adt("std::result::Result", [at, et_]) if et_ is not None else None
    if at is None or rt is None:
        return None
    t = eng.T.t(at)
    by_ref = t["k"] == "ref"
    if by_ref:
        t = eng.T.t(t["to"])
    if t["k"] == "array" and t.get("len") is None and t.get("lenp") and re.match(r"^[A-Z_][A-Z0-9_]*$", str(t["lenp"])):
        # length is a const parameter of a function analysed stand-alone: the elements are not enumerated, but the
        # conversion still succeeds exactly when the slice has that many elements
        nl = Lin.sym("const:%s" % t["lenp"])
        outs = []
        ns = st.fork()
        try:
            ns.add_fact(vw["len"].sub(nl), eng)
            ns.add_fact(nl.sub(vw["len"]), eng)
            outs.append((ns, Enum(rt, ((0, (Top(at, "arr#%d" % eng._hv()),)),), "res")))
        except Dead:
            pass
        if not (st.holds(vw["len"].sub(nl), eng) and st.holds(nl.sub(vw["len"]), eng)):
            et = variant_payload_ty(eng, rt, 1)
            outs.append((st.fork(), Enum(rt, ((1, (Top(et, "tryfrom_err#%d" % eng._hv()),)),), "res")))
        return outs
    if t["k"] != "array" or not isinstance(t.get("len"), int) or t["len"] > 32 or vw["elem"] is not None:
        return None
    n = t["len"]
    outs = []
    ns = st.fork()
    try:
        ns.add_fact(vw["len"].sub(n), eng)
        ns.add_fact(Lin.const(n).sub(vw["len"]), eng)
        arr = Arr(at if not by_ref else eng.T.t(at)["to"], tuple(byte_read(eng, vw["base"], vw["off"].add(i)) for i in range(n)))
        if by_ref:
            loc = "obj:arr#%d" % eng._hv()
            ns.locs[loc] = arr
            arr = Ref(loc, (), False)
        outs.append((ns, Enum(rt, ((0, (arr,)),), "res")))
    except Dead:
        pass
    if not (st.holds(vw["len"].sub(n), eng) and st.holds(Lin.const(n).sub(vw["len"]), eng)):
        et = variant_payload_ty(eng, rt, 1)
        outs.append((st.fork(), Enum(rt, ((1, (Top(et, "tryfrom_err#%d" % eng._hv()),)),), "res")))
    return outs


# ------------------------------------------------------------------ copies


@contract(r"^(std|alloc)::slice::<impl \[T\]>::to_vec$|^<(std|alloc)::vec::Vec<T> as (std|core)::convert::From<&\[T\]>>::from$|^(std|alloc)::str::<impl (std|alloc)::borrow::ToOwned for str>::to_owned$|^<str as (std|alloc)::string::ToString>::to_string$"
          r"|^<(std|alloc)::string::String as (std|core)::clone::Clone>::clone$|^<(std|alloc)::vec::Vec<T, A> as (std|core)::clone::Clone>::clone$|^<T as (std|alloc)::borrow::ToOwned>::to_owned$|^<T as (std|alloc)::string::ToString>::to_string$|^(std|alloc)::string::ToString::to_string$|^(std|alloc)::borrow::ToOwned::to_owned$|^(std|alloc)::slice::<impl (std|alloc)::borrow::ToOwned for \[T\]>::to_owned$|^<(std|alloc)::string::String as (std|core)::convert::From<&str>>::from$")
def c_to_owned(eng, st, fr, f, args, site):
    rt = ret_ty(eng, site)
    vw = view(eng, st, args[0])
    if vw is None or rt is None:
        return None
    kind = eng.M.container_kind(rt)
    if kind is None:
        # applied as a function value by a higher-order contract (Option::map(str::to_string)): the call site's
        # type is the combinator's, take the result type from the method itself
        if f["path"].endswith("to_string") or (vw.get("slice") is not None and vw["elem"] is None and "str" in (f.get("s") or f["path"])):
            rt = eng.T.by_string("std::string::String") or eng.T.by_string("alloc::string::String")
            kind = "string" if rt is not None else None
        if kind is None:
            return None
    segs = None
    c = vw["cont"] or getattr(eng, "cont_by_id", {}).get(vw["base"])
    if c is not None and c.segs is not None and vw["off"] == Lin.const(0) and vw["len"] == c.len:
        segs = c.segs
    elif vw.get("arr") is not None:
        from engine.contracts_bytes import slice_segments
        segs = slice_segments(eng, st, vw)
    elif not isinstance(vw["base"], tuple):
        segs = (("bytes", vw["base"], vw["off"], vw["len"]),)
    nc = new_cont(eng, kind, vw["len"], vw["elem"], segs, rt, hint="copy(%s)" % _bn(vw["base"]))
    return [(st, nc)]


# ------------------------------------------------------------------ Vec / String construction and mutation


@contract(r"^(std|alloc)::vec::Vec::<T>::new$|^(std|alloc)::vec::Vec::<T>::with_capacity$|^(std|alloc)::string::String::new$|^(std|alloc)::string::String::with_capacity$")
def c_vec_new(eng, st, fr, f, args, site):
    rt = ret_ty(eng, site)
    kind = eng.M.container_kind(rt)
    if not kind:
        return None
    return [(st, new_cont(eng, kind, Lin.const(0), None, None, rt))]


@contract(r"^<(std|alloc)::(vec::Vec<T>|string::String) as (std|core)::default::Default>::default$|^(std|alloc)::vec::<impl (std|core)::default::Default for (std|alloc)::vec::Vec<T>>::default$|^(std|alloc)::string::<impl (std|core)::default::Default for (std|alloc)::string::String>::default$|^<(std|core)::option::Option<T> as (std|core)::default::Default>::default$")
def c_default_cont(eng, st, fr, f, args, site):
    """Default of Vec / String: empty; of Option: None."""
    rt = ret_ty(eng, site)
    if rt is None:
        return None
    t = eng.T.t(rt)
    if t["k"] == "adt" and t.get("path") in ("std::option::Option", "core::option::Option"):
        return [(st, Enum(rt, ((0, ()),), "dflt"))]
    kind = eng.M.container_kind(rt)
    if not kind:
        return None
    return [(st, new_cont(eng, kind, Lin.const(0), None, None, rt))]


@contract(r"^(std|alloc)::vec::from_elem$")
def c_from_elem(eng, st, fr, f, args, site):
    rt = ret_ty(eng, site)
    n = args[1]
    if not isinstance(n, Int):
        return None
    return [(st, new_cont(eng, "vec", n.lin, args[0] if not (isinstance(args[0], Int) and eng.T.s(rt) == "std::vec::Vec<u8>") else None, None, rt))]


@contract(r"^(std|alloc)::vec::Vec::<T, A>::push$")
def c_vec_push(eng, st, fr, f, args, site):
    r = args[0]
    if not isinstance(r, Ref):
        return None
    c = force(eng, st, deref(eng, st, r))
    if not isinstance(c, Cont):
        return None
    elem = args[1] if c.elem is None else (c.elem if c.elem == args[1] else eng.M.join_val(c.elem, args[1], "push#%d" % eng._hv(), [], 0))
    eng.M.write_path(st, r.loc, r.path, new_cont(eng, c.kind, c.len.add(1), elem, None, c.ty))
    return [(st, UNIT)]


@contract(r"^(std|alloc)::vec::Vec::<T, A>::clear$|^(std|alloc)::string::String::clear$")
def c_vec_clear(eng, st, fr, f, args, site):
    r = args[0]
    if not isinstance(r, Ref):
        return None
    c = force(eng, st, deref(eng, st, r))
    if not isinstance(c, Cont):
        return None
    eng.M.write_path(st, r.loc, r.path, new_cont(eng, c.kind, Lin.const(0), c.elem, None, c.ty))
    return [(st, UNIT)]


# ------------------------------------------------------------------ UTF-8


@contract(r"^(core|std)::str::from_utf8$|^(core|std)::str::converts::from_utf8$")
def c_from_utf8(eng, st, fr, f, args, site):
    rt = ret_ty(eng, site)
    vw = view(eng, st, args[0])
    if vw is None or rt is None:
        return None
    ok = Enum(rt, ((0, (mk_slice(vw),)),), "utf8")
    et = variant_payload_ty(eng, rt, 1)
    # the error remembers which slice it came from: valid_up_to(e) <= len(slice)
    up = eng.fresh_int("valid_up_to", 64, False, 0, eng.len_max)
    ns = st.fork()
    try:
        ns.add_fact(vw["len"].sub(up.lin).sub(1), eng)  # an error means valid_up_to < len
    except Dead:
        return [(st, ok)]
    errv = Struct(et, (up, ("UTF8ERR", vw["base"], vw["off"], vw["len"])))
    st2 = st.fork()
    eng.key_outcome(st2, "utf8", "ok")
    eng.key_outcome(ns, "utf8", "err")
    eng.events.append(("from_utf8", vw["base"], vw["off"], vw["len"]))
    return [(st2, ok), (ns, Enum(rt, ((1, (errv,)),), "utf8"))]


@contract(r"^(core|std)::str::Utf8Error::valid_up_to$|^(core|std)::str::error::Utf8Error::valid_up_to$")
def c_valid_up_to(eng, st, fr, f, args, site):
    v = deref(eng, st, args[0]) if isinstance(args[0], Ref) else args[0]
    if isinstance(v, Struct) and v.fields and isinstance(v.fields[0], Int):
        return [(st, v.fields[0]._replace(tags=frozenset([("valid_up_to",)]) | (frozenset([("of", v.fields[1][1], v.fields[1][2], v.fields[1][3])]) if len(v.fields) > 1 and isinstance(v.fields[1], tuple) else frozenset())))]
    r = eng.fresh_int("valid_up_to", 64, False, 0, eng.len_max)
    return [(st, r)]


@contract(r"^(core|std)::str::from_utf8_unchecked$|^(core|std)::str::converts::from_utf8_unchecked$")
def c_from_utf8_unchecked(eng, st, fr, f, args, site):
    vw = view(eng, st, args[0])
    if vw is None:
        return None
    eng.events.append(("from_utf8_unchecked", vw["base"], vw["off"], vw["len"], site["fr"].path))
    return [(st, mk_slice(vw))]


@contract(r"^(std|alloc)::string::String::from_utf8$")
def c_string_from_utf8(eng, st, fr, f, args, site):
    rt = ret_ty(eng, site)
    c = force(eng, st, args[0])
    if not isinstance(c, Cont) or rt is None:
        return None
    okt = variant_payload_ty(eng, rt, 0)
    et = variant_payload_ty(eng, rt, 1)
    s = new_cont(eng, "string", c.len, None, c.segs, okt, hint="utf8(%s)" % c.id)
    st2 = st.fork()
    ns = st.fork()
    eng.key_outcome(st2, "utf8", "ok")
    eng.key_outcome(ns, "utf8", "err")
    return [(st2, Enum(rt, ((0, (s,)),), "utf8")), (ns, Enum(rt, ((1, (Top(et, "utf8err#%d" % eng._hv()),)),), "utf8"))]


# ------------------------------------------------------------------ iterators (summaries)


def mk_iter(eng, kind, vw, ty, by_ref):
    return Cont("iter:" + kind, "it#%d" % eng._hv(), vw["len"], vw["elem"], (("src", vw["base"], by_ref),), ty)


@contract(r"^(core|std)::slice::<impl \[T\]>::(iter|iter_mut)$|^(core|std)::slice::iter::<impl (std|core)::iter::IntoIterator for &'a (mut )?\[T\]>::into_iter$|^<&'a (mut )?(std|alloc)::vec::Vec<T, A> as (std|core)::iter::IntoIterator>::into_iter$")
def c_slice_iter(eng, st, fr, f, args, site):
    vw = view(eng, st, args[0])
    rt = ret_ty(eng, site)
    if vw is None:
        return None
    arr = vw.get("arr")
    if arr is not None and len(arr.elems) <= 64 and "iter_mut" not in f["path"] and "mut" not in f["path"].split("IntoIterator")[-1] and (not all(isinstance(e, Int) and e.w == 8 for e in arr.elems) or (len(arr.elems) <= 8 and all(isinstance(e, Int) and e.lin.is_const() for e in arr.elems))):
        # a small array whose elements are known (a constant table): the iterator knows its elements and position
        k = eng._hv()
        refs = []
        for i, e in enumerate(arr.elems):
            loc = "obj:tab#%d_%d" % (k, i)
            st.locs[loc] = e
            refs.append(Ref(loc, (), False))
        return [(st, Cont("iter:arr", "arrit#%d" % k, Lin.const(len(refs)), None, (("elems", tuple(refs), 0),), rt))]
    return [(st, mk_iter(eng, "ref", vw, rt, True))]


@contract(r"^<(std|alloc)::vec::Vec<T, A> as (std|core)::iter::IntoIterator>::into_iter$")
def c_vec_into_iter(eng, st, fr, f, args, site):
    vw = view(eng, st, args[0])
    rt = ret_ty(eng, site)
    if vw is None:
        return None
    return [(st, mk_iter(eng, "val", vw, rt, False))]


@contract(r"^<I as (std|core)::iter::IntoIterator>::into_iter$")
def c_into_iter_identity(eng, st, fr, f, args, site):
    return [(st, args[0])]


@contract(r"^(std|core)::iter::IntoIterator::into_iter$")
def c_into_iter_generic(eng, st, fr, f, args, site):
    """`IntoIterator::into_iter` on a generic parameter of the inlined function: dispatched on the type the parameter is
    instantiated with on this call path (the frame's substitution)."""
    if f.get("self_ty") is None:
        return None
    t = eng.T.t(f["self_ty"])
    if t["k"] == "param":
        ci = (getattr(fr, "sub", None) or {}).get(t["s"])
        if ci is None:
            return None
        t = eng.T.t(ci)
    cs = t["s"]
    if re.match(r"^(std|alloc)::vec::Vec<", cs):
        return c_vec_into_iter(eng, st, fr, f, args, site)
    if re.match(r"^&(mut )?((std|alloc)::vec::Vec<|\[)", cs) and "mut" not in cs.split("Vec<")[0].split("[")[0]:
        return c_slice_iter(eng, st, fr, dict(f, path="<&'a std::vec::Vec<T, A> as std::iter::IntoIterator>::into_iter"), args, site)
    v = force(eng, st, args[0])
    if isinstance(v, Cont) and v.kind.startswith("iter:"):
        return [(st, v)]
    return None


@contract(r"^(std|core)::array::(iter::)?<impl (std|core)::iter::IntoIterator for \[T; N\]>::into_iter$|^<\[T; N\] as (std|core)::iter::IntoIterator>::into_iter$")
def c_array_into_iter(eng, st, fr, f, args, site):
    """By-value iteration over a small fixed-size array: the iterator knows its elements and position, so a `for`
    over it is analysed iteration by iteration (see the "unroll" key items)."""
    a = force(eng, st, args[0])
    rt = ret_ty(eng, site)
    if not isinstance(a, Arr) or len(a.elems) > 8:
        return None
    return [(st, Cont("iter:arr", "arrit#%d" % eng._hv(), Lin.const(len(a.elems)), None, (("elems", tuple(a.elems), 0),), rt))]


def _known_iter(eng, st, r):
    if not isinstance(r, Ref):
        return None
    it = deref(eng, st, r)
    if isinstance(it, Cont) and it.kind == "iter:arr" and it.segs and it.segs[0][0] == "elems":
        return it
    return None


@contract(r"^<(std|core)::slice::Iter<'a, T> as (std|core)::iter::Iterator>::(find|position|any|all|find_map)(::<.*>)?$|^(std|core)::iter::Iterator::(find|position|any|all|find_map)$")
def c_known_iter_search(eng, st, fr, f, args, site):
    """find / position / any / all / find_map over an iterator with known elements: element by element, the closure is
    analysed on each (a table lookup becomes a decision list)."""
    from engine.contracts_std import call_closure
    it = _known_iter(eng, st, args[0])
    rt = ret_ty(eng, site)
    if it is None or rt is None or len(args) < 2:
        return None
    op = re.sub(r"::<.*$", "", f["path"]).split("::")[-1]
    _, elems, pos = it.segs[0]
    outs = []
    live = [st]
    r = args[0]
    for i in range(pos, len(elems)):
        nxt = []
        for s0 in live:
            e = elems[i]
            arg = e
            if op == "find":
                # the predicate takes &Self::Item
                loc = "obj:findarg#%d" % eng._hv()
                s0.locs[loc] = e
                arg = Ref(loc, (), False)
            res = call_closure(eng, s0, fr, args[1], [arg], site)
            if res is None:
                return None
            for s1, v in res:
                if op == "find_map":
                    from engine.contracts_std import as_enum, split_variants
                    ev, _ = as_enum(eng, s1, v)
                    if ev is None:
                        return None
                    for s2, vi, fs in split_variants(eng, s1, ev, None):
                        if vi == 1:
                            eng.M.write_path(s2, r.loc, r.path, Cont(it.kind, it.id, Lin.const(len(elems) - i - 1), None, (("elems", elems, i + 1),), it.ty))
                            s2.key = s2.key + (("tab", it.id, i),)
                            outs.append((s2, Enum(rt, ((1, (fs[0],)),), "found")))
                        else:
                            nxt.append(s2)
                    continue
                if not isinstance(v, Bool):
                    return None
                for truth in (True, False):
                    s2 = s1.fork()
                    try:
                        ki = eng.assume(s2, v.cond, truth)
                    except Dead:
                        continue
                    if ki is not None and ki not in s2.key:
                        s2.key = s2.key + (ki,)
                    hit = truth if op != "all" else (not truth)
                    if hit:
                        eng.M.write_path(s2, r.loc, r.path, Cont(it.kind, it.id, Lin.const(len(elems) - i - 1), None, (("elems", elems, i + 1),), it.ty))
                        s2.key = s2.key + (("tab", it.id, i),)
                        if op == "find":
                            outs.append((s2, Enum(rt, ((1, (e,)),), "found")))
                        elif op == "position":
                            outs.append((s2, Enum(rt, ((1, (int_const(i - pos, 64, False),)),), "found")))
                        elif op == "any":
                            outs.append((s2, TRUE))
                        else:
                            outs.append((s2, FALSE))
                    else:
                        nxt.append(s2)
        live = nxt
    for s0 in live:
        eng.M.write_path(s0, r.loc, r.path, Cont(it.kind, it.id, Lin.const(0), None, (("elems", elems, len(elems)),), it.ty))
        s0.key = s0.key + (("tab", it.id, "none"),)
        if op in ("find", "position", "find_map"):
            outs.append((s0, Enum(rt, ((0, ()),), "notfound")))
        elif op == "any":
            outs.append((s0, FALSE))
        else:
            outs.append((s0, TRUE))
    return outs


@contract(r"^(std|core)::option::Option::<T>::iter$|^(std|core)::option::Option::<T>::into_iter$|^<(std|core)::option::Option<T> as (std|core)::iter::IntoIterator>::into_iter$|^(std|core)::option::<impl (std|core)::iter::IntoIterator for &'a (std|core)::option::Option<T>>::into_iter$")
def c_option_iter(eng, st, fr, f, args, site):
    """Option::iter / into_iter: an iterator with zero or one known element (decided per variant)."""
    e, r = as_enum(eng, st, args[0])
    rt = ret_ty(eng, site)
    if e is None or rt is None:
        return None
    by_ref = f["path"].endswith("::iter") or "for &'a" in f["path"]
    outs = []
    for ns, vi, fs in split_variants(eng, st, e, r):
        if vi == 0:
            elems = []
        elif by_ref:
            loc = "obj:optit#%d" % eng._hv()
            ns.locs[loc] = fs[0]
            elems = [Ref(loc, (), False)]
        else:
            elems = [fs[0]]
        outs.append((ns, Cont("iter:arr", "arrit#%d" % eng._hv(), Lin.const(len(elems)), None, (("elems", tuple(elems), 0),), rt)))
    return outs


@contract(r"(^|[ :<])(std|core)::iter::Iterator::chain(::<.*>)?$")
def c_known_chain(eng, st, fr, f, args, site):
    a = force(eng, st, args[0])
    b = force(eng, st, args[1]) if len(args) > 1 else None
    ok = lambda x: isinstance(x, Cont) and x.kind == "iter:arr" and x.segs and x.segs[0][0] == "elems"
    if not (ok(a) and ok(b)):
        return None
    ea, eb = a.segs[0][1][a.segs[0][2]:], b.segs[0][1][b.segs[0][2]:]
    return [(st, _mk_known(eng, a, list(ea) + list(eb), ret_ty(eng, site)))]


@contract(r"^<(std|core)::iter::(Chain|Map|Filter|Rev|Copied|Cloned|Enumerate)<.*> as (std|core)::iter::Iterator>::next$|^<(std|core)::option::(Iter|IntoIter)<.*> as (std|core)::iter::Iterator>::next$")
def c_adaptor_next(eng, st, fr, f, args, site):
    """next() on an adaptor / option iterator that was evaluated eagerly into a known-element iterator."""
    if _known_iter(eng, st, args[0]) is None:
        return None
    return c_array_iter_next(eng, st, fr, f, args, site)


@contract(r"(^|[ :<])(std|core)::iter::Iterator::collect(::<.*>)?$")
def c_collect_lazymap(eng, st, fr, f, args, site):
    """collect() of `iter.map(closure)` over an iterator of unknown length, into Vec<_> or Result<Vec<_>, _>: the
    closure is analysed as the body of an abstract loop (states joined at the loop head until stable), so what it
    captures by reference carries an inductive invariant and its panic sites are checked in context."""
    it = force(eng, st, args[0]) if not isinstance(args[0], Ref) else args[0]
    if not (isinstance(it, Cont) and it.kind == "iter:lazymap" and it.segs and it.segs[0][0] == "lazy"):
        return c_collect_local_iter(eng, st, fr, f, args, site)
    rt = ret_ty(eng, site)
    if rt is None:
        return None
    _, src, fn = it.segs[0]
    t = eng.T.t(rt)
    is_res = t["k"] == "adt" and t.get("path") in ("std::result::Result", "core::result::Result")
    outs = []
    cur = st.fork()
    key0 = cur.key
    label = "collect:%s" % it.id
    for rnd in range(6):
        k = eng._hv()
        ev = _fresh_elem(eng, src.elem, k) if src.elem is not None else eng.fresh_int("byte", 8, False)
        s0 = cur.fork()
        if src.kind == "iter:ref":
            loc = "obj:it_elem#%d" % k
            s0.locs[loc] = ev
            ev = Ref(loc, (), False)
        res = call_closure(eng, s0, fr, fn, [ev], site)
        if res is None:
            return None
        cont = []
        for s1, v in res:
            if is_res:
                e, _ = as_enum(eng, s1, v)
                if e is None:
                    return None
                for s2, vi, fs in split_variants(eng, s1, e, None):
                    if vi == 1:
                        s2.key = key0
                        outs.append((s2, Enum(rt, ((1, (fs[0],)),), "collected")))
                    else:
                        cont.append(s2)
            else:
                cont.append(s1)
        new = cur
        for s2 in cont:
            s2.key = key0
            new = eng.M.join_states(new, s2, label, loop_head=True)
            new.key = key0
        if rnd >= 3:
            new.facts = cur.facts & new.facts
        if eng._same_state(cur, new):
            cur = new
            break
        cur = new
    vt = variant_payload_ty(eng, rt, 0) if is_res else rt
    kind = eng.M.container_kind(vt) if vt is not None else None
    vec = new_cont(eng, kind or "vec", Lin.sym("len(collected#%d)" % eng._hv()), None, None, vt) if kind else Top(vt, "collected#%d" % eng._hv())
    if kind:
        eng.declare(repr(vec.len), 0, eng.len_max)
    outs.append((cur, Enum(rt, ((0, (vec,)),), "collected") if is_res else vec))
    return outs


def local_iter_next(eng, st, v):
    """(ref to the iterator object, body of its `next`, substitution) when v is — or refers to, through any number of
    `&mut` — a value of a crate-local type with its own `impl Iterator`."""
    r = v
    for _ in range(4):
        if isinstance(r, Ref):
            inner = deref(eng, st, r)
            if isinstance(inner, Ref):
                r = inner
                continue
            obj = force(eng, st, inner)
            break
        else:
            obj = force(eng, st, r)
            if not isinstance(obj, Struct):
                return None
            loc = "obj:iter#%d" % eng._hv()
            st.locs[loc] = obj
            r = Ref(loc, (), True)
            break
    else:
        return None
    if not isinstance(obj, Struct) or not isinstance(obj.ty, int):
        return None
    t = eng.T.t(obj.ty)
    if t["k"] != "adt":
        return None
    for (tr, selfs, name), path in eng.impl_index.items():
        if name != "next" or not tr.endswith("iter::Iterator") or path not in eng.F.bodies:
            continue
        if selfs == t["path"] or selfs.startswith(t["path"] + "<"):
            body = eng.F.bodies[path]
            names = [g for g in (body.get("generics") or []) if not g.startswith("const ") and not g.startswith("'")]
            targs = [a for a in t.get("args", []) if isinstance(a, int)]
            sub = dict(zip(names, targs)) if len(names) == len(targs) else {}
            return r, body, sub
    return None


def drain_local_iter(eng, st, fr, itv, site, each, label):
    """Abstract loop `while let Some(x) = it.next() { each(x) }` over a crate-local iterator: `next` is inlined, the
    states that continue are joined at the loop head until stable.  `each(state, item)` returns a list of
    ("continue" | "break", state, value).  Returns (state after exhaustion or None, [(state, break value)])."""
    got = local_iter_next(eng, st, itv)
    if got is None:
        return None
    r, body, sub = got
    cur = st.fork()
    key0 = cur.key
    exits, breaks = [], []
    for rnd in range(6):
        res = eng.inline(cur.fork(), fr, body, sub, [r], site)
        if res is None:
            return None
        cont = []
        for s1, v in res:
            e, _ = as_enum(eng, s1, v)
            if e is None:
                return None
            for s2, vi, fs in split_variants(eng, s1, e, None):
                if vi == 0:
                    s2.key = key0
                    exits.append(s2)
                    continue
                for kind, s3, val in each(s2, fs[0]):
                    s3.key = key0
                    if kind == "break":
                        breaks.append((s3, val))
                    else:
                        cont.append(s3)
        if not cont:
            break
        new = cur
        for s2 in cont:
            new = eng.M.join_states(new, s2, label, loop_head=True)
            new.key = key0
        if rnd >= 3:
            new.facts = cur.facts & new.facts
        if eng._same_state(cur, new):
            cur = new
            break
        cur = new
    done = None
    for s2 in exits:
        done = s2 if done is None else eng.M.join_states(done, s2, label + ":exit")
        done.key = key0
    return done, breaks


@contract(r"(^|[ :<])(std|core)::iter::Iterator::by_ref(::<.*>)?$")
def c_iter_by_ref(eng, st, fr, f, args, site):
    """`it.by_ref()` is `&mut it`."""
    return [(st, args[0])] if args and isinstance(args[0], Ref) else None


def c_collect_local_iter(eng, st, fr, f, args, site):
    """collect() of a crate-local iterator (by value or through `by_ref()`) into Vec<_> / Result<Vec<_>, _>."""
    rt = ret_ty(eng, site)
    if rt is None or local_iter_next(eng, st, args[0]) is None:
        return None
    t = eng.T.t(rt)
    is_res = t["k"] == "adt" and t.get("path") in ("std::result::Result", "core::result::Result")

    def each(s, item):
        if not is_res:
            return [("continue", s, None)]
        e, _ = as_enum(eng, s, item)
        if e is None:
            return [("continue", s, None), ("break", s.fork(), Top(rt, "collected_err#%d" % eng._hv()))]
        out = []
        for s2, vi, fs in split_variants(eng, s, e, None):
            if vi == 1:
                out.append(("break", s2, Enum(rt, ((1, (fs[0],)),), "collected")))
            else:
                out.append(("continue", s2, None))
        return out

    got = drain_local_iter(eng, st, fr, args[0], site, each, "collect:local#%d" % eng._hv())
    if got is None:
        return None
    done, breaks = got
    outs = list(breaks)
    if done is not None:
        vt = variant_payload_ty(eng, rt, 0) if is_res else rt
        kind = eng.M.container_kind(vt) if vt is not None else None
        vec = new_cont(eng, kind or "vec", Lin.sym("len(collected#%d)" % eng._hv()), None, None, vt) if kind else Top(vt, "collected#%d" % eng._hv())
        if kind:
            eng.declare(repr(vec.len), 0, eng.len_max)
        outs.append((done, Enum(rt, ((0, (vec,)),), "collected") if is_res else vec))
    return outs


def _mk_known(eng, it, elems, rt):
    return Cont("iter:arr", "arrit#%d" % eng._hv(), Lin.const(len(elems)), None, (("elems", tuple(elems), 0),), rt if rt is not None else it.ty)


@contract(r"(^|[ :<])(std|core)::iter::Iterator::(filter|map|count|fold|sum|for_each|rev|copied|cloned|enumerate|zip|flatten)(::<.*>)?$|^<(std|core)::iter::(Filter|Map|Rev|Copied|Cloned|Enumerate|Zip|Flatten)<.*> as (std|core)::iter::Iterator>::(count|fold|sum|for_each)$")
def c_known_iter_adaptors(eng, st, fr, f, args, site):
    """Iterator adaptors / consumers over an iterator whose elements are known (an array literal, a constant table):
    evaluated eagerly, element by element, with the closures analysed on each element."""
    it = force(eng, st, args[0]) if not isinstance(args[0], Ref) else _known_iter(eng, st, args[0])
    op = re.sub(r"::<.*$", "", f["path"]).split("::")[-1]
    if op == "map" and getattr(eng, "model_lazy_collect", False) and isinstance(it, Cont) and it.kind in ("iter:ref", "iter:val") and len(args) >= 2 and isinstance(args[1], Fn):
        # lazily mapped iterator of unknown length: evaluated as an abstract loop when it is collected
        return [(st, Cont("iter:lazymap", "lazy#%d" % eng._hv(), it.len, None, (("lazy", it, args[1]),), ret_ty(eng, site)))]
    if not (isinstance(it, Cont) and it.kind == "iter:arr" and it.segs and it.segs[0][0] == "elems"):
        return None
    rt = ret_ty(eng, site)
    _, elems, pos = it.segs[0]
    elems = list(elems[pos:])
    if len(elems) > 16:
        return None
    if op == "count":
        return [(st, int_const(len(elems), 64, False))]
    if op == "rev":
        return [(st, _mk_known(eng, it, list(reversed(elems)), rt))]
    if op in ("copied", "cloned"):
        vals = [deref(eng, st, e) if isinstance(e, Ref) else e for e in elems]
        return [(st, _mk_known(eng, it, vals, rt))]
    if op == "enumerate":
        return [(st, _mk_known(eng, it, [Struct(None, (int_const(i, 64, False), e)) for i, e in enumerate(elems)], rt))]
    if op == "zip":
        # the other side: an array value / an iterator with known elements (anything else is not modelled)
        o = force(eng, st, args[1]) if len(args) > 1 and not isinstance(args[1], Ref) else (_known_iter(eng, st, args[1]) if len(args) > 1 else None)
        if isinstance(o, Arr):
            oe = list(o.elems)
        elif isinstance(o, Cont) and o.kind == "iter:arr" and o.segs and o.segs[0][0] == "elems":
            oe = list(o.segs[0][1][o.segs[0][2]:])
        else:
            return None
        n = min(len(elems), len(oe))
        return [(st, _mk_known(eng, it, [Struct(None, (a, b)) for a, b in zip(elems[:n], oe[:n])], rt))]
    if op == "sum":
        vals = [deref(eng, st, e) if isinstance(e, Ref) else e for e in elems]
        if not all(isinstance(v, Int) for v in vals):
            return None
        ii = eng.T.int_info(rt)
        if not ii:
            return None
        tot = Lin.const(0)
        for v in vals:
            tot = tot.add(v.lin)
        return [(st, Int(tot, None, ii[0], ii[1], frozenset()))]
    if op == "flatten":
        # known elements that are Options: the present ones, in order (decided per element like a branch on it)
        live = [(st, [])]
        for e in elems:
            nxt = []
            for s0, kept in live:
                ev, _ = as_enum(eng, s0, e)
                if ev is None or not str(eng.T.t(ev.ty).get("path", "")).endswith("option::Option"):
                    return None
                for s2, vi, fs in split_variants(eng, s0, ev, None):
                    if len(ev.variants) > 1:
                        ki = ("variant", ev.name, eng.T.variant_name(ev.ty, vi))
                        if ki not in s2.key and (eng._want_partition(fr, site.get("block"), "variant", ev.name) or eng._key_adt(ev)):
                            s2.key = s2.key + (ki,)
                        elif ki not in s2.key:
                            s2.key = s2.key + (("flt", it.id, len(kept), vi == 1),)
                    nxt.append((s2, kept + [fs[0]] if vi == 1 else kept))
            live = nxt
            if len(live) > 64:
                return None
        return [(s0, _mk_known(eng, it, kept, rt)) for s0, kept in live]
    if len(args) < 2:
        return None
    if op == "filter":
        live = [(st, [])]
        for e in elems:
            nxt = []
            for s0, kept in live:
                loc = "obj:filtarg#%d" % eng._hv()
                s0.locs[loc] = e
                res = call_closure(eng, s0, fr, args[1], [Ref(loc, (), False)], site)
                if res is None:
                    return None
                for s1, v in res:
                    if not isinstance(v, Bool):
                        return None
                    for truth in (True, False):
                        s2 = s1.fork()
                        try:
                            ki = eng.assume(s2, v.cond, truth)
                        except Dead:
                            continue
                        if ki is not None and ki not in s2.key:
                            s2.key = s2.key + (ki,)
                        elif ki is None:
                            s2.key = s2.key + (("flt", it.id, len(kept) if truth else -1, truth),)
                        nxt.append((s2, kept + [e] if truth else kept))
            live = nxt
            if len(live) > 64:
                return None
        return [(s0, _mk_known(eng, it, kept, rt)) for s0, kept in live]
    if op == "map":
        live = [(st, [])]
        for e in elems:
            nxt = []
            for s0, done in live:
                res = call_closure(eng, s0, fr, args[1], [e], site)
                if res is None:
                    return None
                for s1, v in res:
                    nxt.append((s1, done + [v]))
            live = nxt
            if len(live) > 64:
                return None
        return [(s0, _mk_known(eng, it, done, rt)) for s0, done in live]
    if op == "for_each":
        live = [st]
        for e in elems:
            nxt = []
            for s0 in live:
                res = call_closure(eng, s0, fr, args[1], [e], site)
                if res is None:
                    return None
                nxt.extend(s1 for s1, _ in res)
            live = nxt
            if len(live) > 64:
                return None
        return [(s0, UNIT) for s0 in live]
    if op == "fold" and len(args) >= 3:
        live = [(st, args[1])]
        for e in elems:
            nxt = []
            for s0, acc in live:
                res = call_closure(eng, s0, fr, args[2], [acc, e], site)
                if res is None:
                    return None
                nxt.extend(res)
            live = nxt
            if len(live) > 64:
                return None
        return live
    return None


@contract(r"^<(std|core)::array::IntoIter<T, N> as (std|core)::iter::Iterator>::next$|^(std|core)::array::iter::<impl (std|core)::iter::Iterator for (std|core)::array::IntoIter<T, N>>::next$")
def c_array_iter_next(eng, st, fr, f, args, site):
    r = args[0]
    rt = ret_ty(eng, site)
    if not isinstance(r, Ref) or rt is None:
        return None
    it = deref(eng, st, r)
    if not isinstance(it, Cont) or it.kind != "iter:arr" or not it.segs:
        return None
    _, elems, pos = it.segs[0]
    if pos >= len(elems):
        return [(st, Enum(rt, ((0, ()),), "next"))]
    eng.M.write_path(st, r.loc, r.path, Cont(it.kind, it.id, it.len.sub(1), None, (("elems", elems, pos + 1),), it.ty))
    # iteration number becomes part of the partition: states of different iterations are never joined (unrolling)
    st.key = tuple(k for k in st.key if not (k[0] == "unroll" and k[1] == it.id)) + (("unroll", it.id, pos),)
    return [(st, Enum(rt, ((1, (elems[pos],)),), "next"))]


@contract(r"^<(std|core)::slice::Iter<'a, T> as (std|core)::iter::Iterator>::next$|^<(std|core)::slice::IterMut<'a, T> as (std|core)::iter::Iterator>::next$|^<(std|alloc)::vec::IntoIter<T, A> as (std|core)::iter::Iterator>::next$")
def c_iter_next(eng, st, fr, f, args, site):
    r = args[0]
    rt = ret_ty(eng, site)
    if not isinstance(r, Ref) or rt is None:
        return None
    it = deref(eng, st, r)
    if not isinstance(it, Cont) or not it.kind.startswith("iter:"):
        return None
    if it.kind == "iter:arr":
        return c_array_iter_next(eng, st, fr, f, args, site)
    outs = []
    pt = variant_payload_ty(eng, rt, 1)
    # None: nothing left
    ns = st.fork()
    try:
        ns.add_fact(it.len.neg(), eng)  # remaining <= 0
        outs.append((ns, Enum(rt, ((0, ()),), "next")))
    except Dead:
        pass
    ns = st.fork()
    try:
        ns.add_fact(it.len.sub(1), eng)
        k = eng._hv()
        by_ref = it.kind == "iter:ref"
        if it.elem is not None:
            ev = _fresh_elem(eng, it.elem, k)
        else:
            ev = eng.fresh_int("byte", 8, False)
        if by_ref:
            loc = "obj:it_elem#%d" % k
            ns.locs[loc] = ev
            ev = Ref(loc, (), "IterMut" in f["path"])
        eng.M.write_path(ns, r.loc, r.path, Cont(it.kind, it.id, it.len.sub(1), it.elem, it.segs, it.ty))
        outs.append((ns, Enum(rt, ((1, (ev,)),), "next")))
    except Dead:
        pass
    return outs


@contract(r"^(std|core)::iter::Iterator::next$")
def c_iter_next_generic(eng, st, fr, f, args, site):
    """`Iterator::next` on a generic / projected iterator type of an inlined generic function: dispatched on the iterator
    value that reached it on this call path."""
    r = args[0] if args else None
    if not isinstance(r, Ref):
        return None
    it = deref(eng, st, r)
    if isinstance(it, Cont) and it.kind in ("iter:val", "iter:ref", "iter:arr"):
        return c_iter_next(eng, st, fr, f, args, site)
    return None


@contract(r"^(core|std)::slice::<impl \[T\]>::(binary_search_by_key|binary_search)$")
def c_binary_search(eng, st, fr, f, args, site):
    """`table.binary_search_by_key(&key, |e| k(e))` over a slice whose elements are known (a constant table): analysed as
    the decision list it is equivalent to on a table sorted by unique keys — Ok(i) under `k(e_i) == key` for each i in
    turn, Err otherwise (the insertion point is not tracked).  Sortedness of constant string / integer keys is checked;
    an unsorted table is left undecided (its result is unspecified)."""
    from engine.contracts_std import call_closure
    vw = view(eng, st, args[0])
    rt = ret_ty(eng, site)
    if vw is None or rt is None or vw.get("arr") is None or not vw["off"].is_const() or not vw["len"].is_const():
        return None
    elems = list(vw["arr"].elems)[vw["off"].c: vw["off"].c + vw["len"].c]
    if len(elems) > 64:
        return None
    by_key = f["path"].endswith("binary_search_by_key")
    target = args[1]
    tv = deref(eng, st, target) if isinstance(target, Ref) else target
    keys = []
    cur = st
    for e in elems:
        if by_key:
            rs = call_closure(eng, cur, fr, args[2], [_elem_ref(eng, cur, e)], site)
            if rs is None or len(rs) != 1:
                return None
            cur, k = rs[0]
        else:
            k = e
        keys.append(k)

    def const_of(v):
        v = force(eng, cur, v)
        if isinstance(v, Int) and v.lin.is_const():
            return v.lin.c
        vv = view(eng, cur, v)
        if vv and isinstance(vv["base"], str) and vv["base"].startswith("const:") and vv["off"].is_const() and vv["len"].is_const():
            d = eng.const_bytes.get(vv["base"])
            if d is not None:
                return d[vv["off"].c: vv["off"].c + vv["len"].c]
        return None

    cks = [const_of(k) for k in keys]
    if any(c is None for c in cks) or any(not (a < b) for a, b in zip(cks, cks[1:])):
        return None  # keys not constants, or the table is not strictly sorted
    tc = const_of(tv)
    et = variant_payload_ty(eng, rt, 1)
    outs = []
    live = cur
    for i, (k, ck) in enumerate(zip(keys, cks)):
        if tc is not None:
            if tc == ck:
                return outs + [(live, Enum(rt, ((0, (int_const(i, 64, False),)),), "res"))]
            continue
        cond = None
        if eng.on_call is not None:
            r = eng.on_call(eng, live, fr, {"path": "core::cmp::PartialEq::eq", "resolved": None, "name": "eq", "trait": "core::cmp::PartialEq", "self_ty": None, "args": []}, [k, tv], site)
            if r and len(r) == 1 and isinstance(r[0][1], Bool):
                cond = r[0][1].cond
        if cond is None:
            if isinstance(ck, bytes):
                cond = ("sym", "eq:%s" % ck.decode("latin1"))
            else:
                tvi = force(eng, live, tv)
                if not isinstance(tvi, Int):
                    return None
                bits = eng.bits_of(live, tvi) if (tvi.bits is not None or tvi.lin.single_sym()) else None
                if bits is not None and all(x is not None for x in bits) and any(isinstance(x, tuple) and x[0] in ("b", "nb") for x in bits):
                    # a value assembled from input bits (`(info >> 4) & 0x7f`): matched like a switchInt arm — the bits
                    # are refined and the decision is a partition predicate
                    hit = live.fork()
                    try:
                        for bi_, at in enumerate(bits):
                            want = (ck >> bi_) & 1
                            if at in (0, 1):
                                if at != want:
                                    raise Dead()
                            elif at[0] == "b":
                                hit.set_bit(at[1], at[2], want)
                            elif at[0] == "nb":
                                hit.set_bit(at[1], at[2], 1 - want)
                        if ck >> len(bits):
                            raise Dead()
                        hit.add_fact(tvi.lin.sub(ck), eng)
                        hit.add_fact(Lin.const(ck).sub(tvi.lin), eng)
                        nm_ = eng._bits_name(bits)
                        if eng._want_partition(fr, site.get("block"), "value", ck):
                            hit.key = hit.key + (("val", nm_, ck),)
                        outs.append((hit, Enum(rt, ((0, (int_const(i, 64, False),)),), "res")))
                    except Dead:
                        pass
                    live = live.fork()
                    live.notes = live.notes + (("excl", eng._bits_name(bits), (ck,)),)
                    continue
                cond = ("cmp", "Eq", tvi.lin, Lin.const(ck))
        hit = live.fork()
        try:
            ki = eng.assume(hit, cond, True)
            if ki is not None and ki not in hit.key:
                hit.key = hit.key + (ki,)
            outs.append((hit, Enum(rt, ((0, (int_const(i, 64, False),)),), "res")))
        except Dead:
            pass
        miss = live.fork()
        try:
            ki = eng.assume(miss, cond, False)
            if ki is not None and ki not in miss.key:
                miss.key = miss.key + (ki,)
            live = miss
        except Dead:
            return outs
    outs.append((live, Enum(rt, ((1, (Top(et, "insert_at#%d" % eng._hv()),)),), "res")))
    return outs


def _elem_ref(eng, st, e):
    loc = "obj:bsarg#%d" % eng._hv()
    st.locs[loc] = e
    return Ref(loc, (), False)


def _fresh_elem(eng, elem, k):
    if isinstance(elem, Top):
        return Top(elem.ty, "%s#%d" % (elem.name, k))
    return elem


@contract(r"^(std|core)::iter::range::<impl (std|core)::iter::Iterator for (std|core)::ops::Range<A>>::next$")
def c_range_next(eng, st, fr, f, args, site):
    r = args[0]
    rt = ret_ty(eng, site)
    if not isinstance(r, Ref) or rt is None:
        return None
    rng = force(eng, st, deref(eng, st, r))
    if not isinstance(rng, Struct) or len(rng.fields) != 2:
        return None
    s, e = force(eng, st, rng.fields[0]), force(eng, st, rng.fields[1])
    if not (isinstance(s, Int) and isinstance(e, Int)):
        return None
    outs = []
    ns = st.fork()
    try:
        ns.add_fact(s.lin.sub(e.lin), eng)  # start >= end
        outs.append((ns, Enum(rt, ((0, ()),), "next")))
    except Dead:
        pass
    ns = st.fork()
    try:
        ns.add_fact(e.lin.sub(s.lin).sub(1), eng)
        eng.M.write_path(ns, r.loc, r.path, Struct(rng.ty, (Int(s.lin.add(1), None, s.w, s.signed, s.tags), e)))
        outs.append((ns, Enum(rt, ((1, (s,)),), "next")))
    except Dead:
        pass
    return outs


from engine import contracts_bytes  # noqa: E402,F401
