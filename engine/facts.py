"""Loading and pretty-printing of the mirdump facts document (no analysis here)."""
import json


class Facts:
    def __init__(self, path):
        with open(path) as f:
            self.doc = json.load(f)
        self.path = path
        self.types = self.doc["types"]
        self.bodies = {}
        for b in self.doc["bodies"]:
            self.bodies[b["path"]] = b
        self.adts = {a["path"]: a for a in self.doc["adts"]}
        self.consts = {c["path"]: c for c in self.doc["consts"]}
        self.impls = self.doc["impls"]
        self.features = self.doc["features"]

    # ---- types
    def ty(self, i):
        return self.types[i]

    def ty_s(self, i):
        return self.types[i]["s"]

    # ---- bodies
    def body(self, path):
        return self.bodies.get(path)

    def handwritten(self):
        return [b for b in self.doc["bodies"] if not b["derived"]]

    # ---- pretty printing (for reports / --explain)
    def pp_place(self, p):
        s = "_%d" % p["l"]
        for e in p["p"]:
            if e == "*":
                s = "(*%s)" % s
            elif isinstance(e, dict):
                if "f" in e:
                    s = "%s.%d" % (s, e["f"])
                elif "d" in e:
                    s = "(%s as %s)" % (s, e.get("n") or e["d"])
                elif "i" in e:
                    s = "%s[_%d]" % (s, e["i"])
                elif "ci" in e:
                    s = "%s[%s%d]" % (s, "-" if e["fe"] else "", e["ci"])
                elif "ss" in e:
                    s = "%s[%d..%s%d]" % (s, e["ss"][0], "-" if e["fe"] else "", e["ss"][1])
                else:
                    s = "%s.<%s>" % (s, list(e.keys())[0])
            else:
                s = "%s.<%s>" % (s, e)
        return s

    def pp_const(self, k):
        if "fn" in k:
            f = k["fn"]
            r = f["s"]
            if "resolved_s" in f:
                r += " => " + f["resolved_s"]
            return "fn " + r
        if "closure" in k:
            return "closure " + k["closure"]
        if "promoted" in k:
            return "promoted[%d]" % k["promoted"]
        t = self.ty_s(k["ty"])
        if "int" in k:
            v = "%s_%s" % (k["int"], t)
        elif "str" in k:
            v = json.dumps(k["str"])
        elif "bytes" in k:
            v = "b" + repr(bytes(k["bytes"]))
        elif "ptr_bytes" in k:
            v = "&b" + repr(bytes(k["ptr_bytes"]))
        elif "indirect_bytes" in k:
            v = "ind" + repr(bytes(k["indirect_bytes"]))
        elif "zst" in k:
            v = "<%s>" % t
        else:
            v = "const?:%s" % t
        if "item" in k:
            v = "%s /*%s*/" % (v, k["item"])
        return v

    def pp_op(self, o):
        if "c" in o:
            return "copy " + self.pp_place(o["c"])
        if "m" in o:
            return "move " + self.pp_place(o["m"])
        if "k" in o:
            return self.pp_const(o["k"])
        return str(o)

    def pp_rv(self, rv):
        k = rv["k"]
        if k == "use":
            return self.pp_op(rv["a"])
        if k == "ref":
            return "&%s%s" % ("mut " if rv["mut"] else "", self.pp_place(rv["p"]))
        if k == "rawptr":
            return "&raw %s" % self.pp_place(rv["p"])
        if k == "cast":
            return "%s as %s (%s)" % (self.pp_op(rv["a"]), self.ty_s(rv["ty"]), rv["ck"])
        if k == "bin":
            return "%s(%s, %s)" % (rv["op"], self.pp_op(rv["a"]), self.pp_op(rv["b"]))
        if k == "un":
            return "%s(%s)" % (rv["op"], self.pp_op(rv["a"]))
        if k == "discr":
            return "discriminant(%s)" % self.pp_place(rv["p"])
        if k == "agg":
            ops = ", ".join(self.pp_op(o) for o in rv["ops"])
            if rv["ak"] == "adt":
                return "%s::%s{%s}" % (rv["adt"], rv["vname"], ops)
            if rv["ak"] in ("closure", "coroutine"):
                return "%s %s{%s}" % (rv["ak"], rv["def"], ops)
            return "%s(%s)" % (rv["ak"], ops)
        if k == "repeat":
            return "[%s; %s]" % (self.pp_op(rv["a"]), rv["n"])
        if k == "copyderef":
            return "deref_copy %s" % self.pp_place(rv["p"])
        return rv.get("s", k)

    def pp_term(self, t):
        k = t["k"]
        if k == "goto":
            return "goto bb%d" % t["t"]
        if k == "switch":
            arms = ", ".join("%s: bb%d" % (v, tg) for v, tg in zip(t["vals"], t["tgts"]))
            return "switchInt(%s) -> [%s, otherwise: bb%d]" % (self.pp_op(t["d"]), arms, t["otherwise"])
        if k == "call":
            return "%s = %s(%s) -> %s" % (
                self.pp_place(t["dest"]),
                self.pp_op(t["f"]),
                ", ".join(self.pp_op(a) for a in t["args"]),
                "bb%d" % t["t"] if t["t"] is not None else "!",
            )
        if k == "assert":
            m = t["msg"]
            extra = ""
            if m["k"] == "Overflow":
                extra = "Overflow(%s, %s, %s)" % (m["op"], self.pp_op(m["a"]), self.pp_op(m["b"]))
            elif m["k"] == "BoundsCheck":
                extra = "BoundsCheck(len=%s, index=%s)" % (self.pp_op(m["len"]), self.pp_op(m["index"]))
            else:
                extra = m["k"] + ("(%s)" % self.pp_op(m["a"]) if "a" in m else "")
            return "assert(%s == %s, %s) -> bb%d" % (self.pp_op(t["cond"]), t["exp"], extra, t["t"])
        if k == "drop":
            return "drop(%s) -> bb%d" % (self.pp_place(t["p"]), t["t"])
        if k == "yield":
            return "yield(%s) -> bb%d" % (self.pp_op(t["v"]), t["t"])
        return k

    def pp_body(self, b, out=None):
        lines = []
        lines.append("fn %s  [%s] args=%d" % (b["path"], b["kind"], b["arg_count"]))
        names = {}
        for d in b["debug"]:
            if not d["p"]["p"]:
                names[d["p"]["l"]] = d["name"]
        for i, l in enumerate(b["locals"]):
            lines.append("  let %s_%d: %s;%s" % ("mut " if l["mut"] else "", i, self.ty_s(l["ty"]), "  // " + names[i] if i in names else ""))
        for i, blk in enumerate(b["blocks"]):
            lines.append("  bb%d%s:" % (i, " (cleanup)" if blk["cleanup"] else ""))
            for s in blk["stmts"]:
                if s["k"] == "assign":
                    lines.append("    %s = %s;   // %s:%d" % (self.pp_place(s["p"]), self.pp_rv(s["rv"]), s["sp"]["f"].split("/")[-1], s["sp"]["l"]))
                elif s["k"] == "setdiscr":
                    lines.append("    discriminant(%s) = %d;" % (self.pp_place(s["p"]), s["v"]))
                else:
                    lines.append("    %s" % s.get("s", s["k"]))
            sp = blk["sp"]
            lines.append("    %s;   // %s:%d%s" % (self.pp_term(blk["term"]), sp["f"].split("/")[-1], sp["l"], " !" + sp["x"] if "x" in sp else ""))
        return "\n".join(lines)
