"""std contracts, part 1: Option/Result plumbing, integer helpers, mem."""
import re

from engine.contracts import contract, deref, ret_ty, variant_payload_ty
from engine.lin import Lin
from engine.state import Dead
from engine.values import (Arr, Bool, Cont, Enum, FALSE, Flt, Fn, Int, Ref, Slice, Struct, Top, TRUE, UNIT, Unit, int_const, ty_range)


def force(eng, st, v):
    if isinstance(v, Top):
        return eng.M.force(st, v)
    return v


def as_enum(eng, st, v):
    """Value (or reference to it) as an Enum; returns (enum, ref or None)."""
    r = None
    if isinstance(v, Ref):
        r = v
        v = deref(eng, st, v)
    v = force(eng, st, v)
    if isinstance(v, Enum):
        return v, r
    return None, r


def split_variants(eng, st, e, r, name_hint="opt"):
    """Fork the state per possible variant of enum value e (refining the referenced object when r is given)."""
    outs = []
    for vi, fs in e.variants:
        ns = st.fork() if len(e.variants) > 1 else st
        try:
            one = eng.M.refine_enum(ns, e, {vi})
        except Dead:
            continue
        if r is not None and len(e.variants) > 1:
            eng.M.write_path(ns, r.loc, r.path, one)
        if len(e.variants) > 1 and eng._want_partition(fr_of(eng), 0, "variant", e.name):
            ns.key = ns.key + (("variant", e.name, eng.T.variant_name(e.ty, vi)),)
        outs.append((ns, vi, fs))
    return outs


def fr_of(eng):
    return None


def call_closure(eng, st, fr, fnv, args, site):
    """Call a callable value with already-untupled args -> [(state, ret)] or None."""
    if not isinstance(fnv, Fn):
        return None
    return eng.apply_fn(st, fr, fnv, list(args), site)


def ret_enum_ty(eng, site):
    return ret_ty(eng, site)


# ------------------------------------------------------------------ Try / ?


@contract(r"^<(std|core)::result::Result<T, E> as (std|core)::ops::Try>::branch$")
def c_try_branch(eng, st, fr, f, args, site):
    e, _ = as_enum(eng, st, args[0])
    rt = ret_ty(eng, site)
    if e is None or rt is None:
        return None
    outs = []
    for ns, vi, fs in split_variants(eng, st, e, None):
        if vi == 0:  # Ok(v) -> Continue(v)
            outs.append((ns, Enum(rt, ((0, (fs[0],)),), "cf")))
        else:  # Err(e) -> Break(Err(e))
            bt = variant_payload_ty(eng, rt, 1)
            inner = Enum(bt, ((1, (fs[0],)),), "residual") if bt is not None else Top(rt, "residual")
            outs.append((ns, Enum(rt, ((1, (inner,)),), "cf")))
    return outs


@contract(r"^<(std|core)::option::Option<T> as (std|core)::ops::Try>::branch$")
def c_try_branch_opt(eng, st, fr, f, args, site):
    e, _ = as_enum(eng, st, args[0])
    rt = ret_ty(eng, site)
    if e is None or rt is None:
        return None
    outs = []
    for ns, vi, fs in split_variants(eng, st, e, None):
        if vi == 1:
            outs.append((ns, Enum(rt, ((0, (fs[0],)),), "cf")))
        else:
            bt = variant_payload_ty(eng, rt, 1)
            outs.append((ns, Enum(rt, ((1, (Enum(bt, ((0, ()),), "residual"),)),), "cf")))
    return outs


def convert_from(eng, st, fr, site, val, from_ty, to_ty):
    """`From::from(val)`: identity, a local impl (inlined), or top."""
    T = eng.T
    if from_ty == to_ty or T.s(from_ty) == T.s(to_ty):
        return [(st, val)]
    key = ("std::convert::From", T.s(to_ty), "from")
    # local impls are keyed by the trait's generic form: search by self type and argument type
    for imp in eng.F.impls:
        if imp.get("trait") == "std::convert::From" and imp["self"] == T.s(to_ty):
            ta = [x for x in imp.get("trait_args", []) if isinstance(x, int)]
            if len(ta) >= 2 and _ty_match(T, ta[1], from_ty):
                for it in imp["items"]:
                    if it["name"] == "from" and it["path"] in eng.F.bodies:
                        return eng.inline(st, fr, eng.F.body(it["path"]), {}, [val], site)
    # &str / &[T] -> String / Vec<T>: an owned copy of the viewed bytes
    kind = eng.M.container_kind(to_ty)
    if kind is not None:
        from engine.contracts_coll import new_cont, view
        vw = view(eng, st, val)
        if vw is not None:
            segs = (("bytes", vw["base"], vw["off"], vw["len"]),) if not isinstance(vw["base"], tuple) else None
            return [(st, new_cont(eng, kind, vw["len"], vw["elem"], segs, to_ty, hint="copy(%s)" % (vw["base"] if isinstance(vw["base"], str) else "tmp")))]
    return [(st, Top(to_ty, "from#%d" % eng._hv()))]


def _ty_match(T, a, b):
    sa, sb = T.s(a), T.s(b)
    if sa == sb:
        return True
    # ignore lifetimes
    strip = lambda s: re.sub(r"'\w+ ?", "", s)
    return strip(sa) == strip(sb)


@contract(r"^<(std|core)::result::Result<T, F> as (std|core)::ops::FromResidual<(std|core)::result::Result<(std|core)::convert::Infallible, E>>>::from_residual$")
def c_from_residual(eng, st, fr, f, args, site):
    e, _ = as_enum(eng, st, args[0])
    rt = ret_ty(eng, site)
    if rt is None:
        return None
    et = variant_payload_ty(eng, rt, 1)
    if e is None or not e.variants:
        return [(st, Enum(rt, ((1, (Top(et, "err#%d" % eng._hv()),)),), "res"))]
    outs = []
    for vi, fs in e.variants:
        if vi != 1:
            continue
        val = fs[0]
        src_ty = None
        ra = [a for a in (f.get("resolved_args") or ()) if isinstance(a, int)]
        fa = [a for a in f["args"] if isinstance(a, int)]
        # impl args of from_residual: [T, F, E]  (Result<T,F> as FromResidual<Result<Infallible,E>>)
        if len(ra) >= 3:
            src_ty = ra[2]
        elif len(fa) >= 2:
            src_ty = variant_payload_ty(eng, fa[1], 1)
        if src_ty is None:
            outs.append((st, Enum(rt, ((1, (Top(et, "err#%d" % eng._hv()),)),), "res")))
            continue
        for ns, cv in convert_from(eng, st, fr, site, val, src_ty, et) or []:
            outs.append((ns, Enum(rt, ((1, (cv,)),), "res")))
    return outs


@contract(r"^<T as (std|core)::convert::Into<U>>::into$|^(std|core)::convert::Into::into$")
def c_into(eng, st, fr, f, args, site):
    fa = [a for a in f["args"] if isinstance(a, int)]
    rt = ret_ty(eng, site)
    if len(fa) >= 2 and rt is not None:
        return convert_from(eng, st, fr, site, args[0], fa[0], rt)
    return None


@contract(r"^<T as (std|core)::convert::From<T>>::from$")
def c_from_identity(eng, st, fr, f, args, site):
    return [(st, args[0])]


# ------------------------------------------------------------------ Option / Result methods


@contract(r"^(std|core)::option::Option::<T>::(is_some|is_none)$")
def c_opt_is(eng, st, fr, f, args, site):
    e, r = as_enum(eng, st, args[0])
    if e is None:
        return None
    want_some = f["path"].endswith("is_some")
    if len(e.variants) == 1:
        return [(st, TRUE if (e.variants[0][0] == 1) == want_some else FALSE)]
    if r is not None:
        return [(st, Bool(("isvar", r.loc, r.path, eng.T.variant_discr(e.ty, 1), want_some)))]
    outs = []
    for ns, vi, fs in split_variants(eng, st, e, r):
        outs.append((ns, TRUE if (vi == 1) == want_some else FALSE))
    return outs


@contract(r"^(std|core)::result::Result::<T, E>::(is_ok|is_err)$")
def c_res_is(eng, st, fr, f, args, site):
    e, r = as_enum(eng, st, args[0])
    if e is None:
        return None
    want_ok = f["path"].endswith("is_ok")
    if len(e.variants) == 1:
        return [(st, TRUE if (e.variants[0][0] == 0) == want_ok else FALSE)]
    if r is not None:
        return [(st, Bool(("isvar", r.loc, r.path, eng.T.variant_discr(e.ty, 0), want_ok)))]
    outs = []
    for ns, vi, fs in split_variants(eng, st, e, r):
        outs.append((ns, TRUE if (vi == 0) == want_ok else FALSE))
    return outs


@contract(r"^(std|core)::option::Option::<T>::as_ref$|^(std|core)::option::Option::<T>::as_mut$|^(std|core)::option::Option::<T>::as_deref$")
def c_opt_as_ref(eng, st, fr, f, args, site):
    e, r = as_enum(eng, st, args[0])
    rt = ret_ty(eng, site)
    if e is None or r is None or rt is None:
        return None
    outs = []
    for ns, vi, fs in split_variants(eng, st, e, r):
        if vi == 0:
            outs.append((ns, Enum(rt, ((0, ()),), "opt")))
        else:
            inner = Ref(r.loc, r.path + (("v", 1), ("f", 0)), f["path"].endswith("as_mut"))
            if f["path"].endswith("as_deref"):
                tgt = deref(eng, ns, inner)
                if isinstance(tgt, Cont):
                    inner = Slice(tgt.id, Lin.const(0), tgt.len, tgt.elem)
            outs.append((ns, Enum(rt, ((1, (inner,)),), "opt")))
    return outs


@contract(r"^(std|core)::option::Option::<T>::(map|and_then)$")
def c_opt_map(eng, st, fr, f, args, site):
    e, _ = as_enum(eng, st, args[0])
    rt = ret_ty(eng, site)
    if e is None or rt is None:
        return None
    is_map = f["path"].endswith("::map")
    outs = []
    for ns, vi, fs in split_variants(eng, st, e, None):
        if vi == 0:
            outs.append((ns, Enum(rt, ((0, ()),), "opt")))
        else:
            rs = call_closure(eng, ns, fr, args[1], [fs[0]], site)
            if rs is None:
                pt = variant_payload_ty(eng, rt, 1)
                outs.append((ns, Enum(rt, ((1, (Top(pt, "map#%d" % eng._hv()),)),), "opt") if is_map else Top(rt, "andthen#%d" % eng._hv())))
                continue
            for ns2, v in rs:
                outs.append((ns2, Enum(rt, ((1, (v,)),), "opt") if is_map else v))
    return outs


@contract(r"^(std|core)::option::Option::<T>::(is_some_and|is_none_or)$|^(std|core)::result::Result::<T, E>::(is_ok_and|is_err_and)$")
def c_is_some_and(eng, st, fr, f, args, site):
    """is_some_and / is_none_or / is_ok_and / is_err_and: the predicate is analysed on the payload of the variant."""
    e, _ = as_enum(eng, st, args[0])
    if e is None:
        return None
    name = f["path"].split("::")[-1]
    hot = {"is_some_and": 1, "is_none_or": 1, "is_ok_and": 0, "is_err_and": 1}[name]
    other = TRUE if name == "is_none_or" else FALSE
    outs = []
    for ns, vi, fs in split_variants(eng, st, e, None):
        if vi != hot:
            outs.append((ns, other))
        else:
            rs = call_closure(eng, ns, fr, args[1], [fs[0]], site)
            if rs is None:
                return None
            outs.extend(rs)
    return outs


@contract(r"^(std|core)::option::Option::<T>::map_or_else$")
def c_opt_map_or_else(eng, st, fr, f, args, site):
    e, _ = as_enum(eng, st, args[0])
    if e is None:
        return None
    outs = []
    for ns, vi, fs in split_variants(eng, st, e, None):
        rs = call_closure(eng, ns, fr, args[1], [], site) if vi == 0 else call_closure(eng, ns, fr, args[2], [fs[0]], site)
        if rs is None:
            return None
        outs.extend(rs)
    return outs


@contract(r"^(std|core)::option::Option::<T>::(or|or_else)$")
def c_opt_or(eng, st, fr, f, args, site):
    """`a.or(b)` / `a.or_else(f)`: a when it is Some, otherwise b / f()."""
    e, _ = as_enum(eng, st, args[0])
    rt = ret_ty(eng, site)
    if e is None or rt is None:
        return None
    outs = []
    for ns, vi, fs in split_variants(eng, st, e, None):
        if vi != 0:
            outs.append((ns, Enum(rt, ((vi, fs),), "opt")))
        elif f["path"].endswith("or_else"):
            rs = call_closure(eng, ns, fr, args[1], [], site)
            if rs is None:
                return None
            outs.extend(rs)
        else:
            outs.append((ns, args[1]))
    return outs


@contract(r"^(std|core)::option::Option::<T>::(filter)$")
def c_opt_filter(eng, st, fr, f, args, site):
    e, _ = as_enum(eng, st, args[0])
    rt = ret_ty(eng, site)
    if e is None or rt is None:
        return None
    outs = []
    for ns, vi, fs in split_variants(eng, st, e, None):
        if vi == 0:
            outs.append((ns, Enum(rt, ((0, ()),), "opt")))
            continue
        loc = "obj:filt#%d" % eng._hv()
        ns.locs[loc] = fs[0]
        rs = call_closure(eng, ns, fr, args[1], [Ref(loc, (), False)], site)
        if rs is None:
            return None
        for s1, v in rs:
            if not isinstance(v, Bool):
                return None
            for truth in (True, False):
                s2 = s1.fork()
                try:
                    eng.assume(s2, v.cond, truth)
                except Dead:
                    continue
                outs.append((s2, Enum(rt, ((1, (fs[0],)),), "opt") if truth else Enum(rt, ((0, ()),), "opt")))
    return outs


@contract(r"^(std|core)::option::Option::<T>::zip$")
def c_opt_zip(eng, st, fr, f, args, site):
    a, _ = as_enum(eng, st, args[0])
    rt = ret_ty(eng, site)
    if a is None or rt is None:
        return None
    outs = []
    for ns, vi, fs in split_variants(eng, st, a, None):
        if vi == 0:
            outs.append((ns, Enum(rt, ((0, ()),), "opt")))
            continue
        b, _ = as_enum(eng, ns, args[1])
        if b is None:
            return None
        for ns2, vj, gs in split_variants(eng, ns, b, None):
            if vj == 0:
                outs.append((ns2, Enum(rt, ((0, ()),), "opt")))
            else:
                outs.append((ns2, Enum(rt, ((1, (Struct(None, (fs[0], gs[0])),)),), "opt")))
    return outs


@contract(r"^(std|core)::option::Option::<T>::map_or$")
def c_opt_map_or(eng, st, fr, f, args, site):
    e, _ = as_enum(eng, st, args[0])
    if e is None:
        return None
    outs = []
    for ns, vi, fs in split_variants(eng, st, e, None):
        if vi == 0:
            outs.append((ns, args[1]))
        else:
            rs = call_closure(eng, ns, fr, args[2], [fs[0]], site)
            if rs is None:
                return None
            outs.extend(rs)
    return outs


@contract(r"^(std|core)::option::Option::<T>::(ok_or_else|ok_or)$")
def c_opt_ok_or_else(eng, st, fr, f, args, site):
    e, _ = as_enum(eng, st, args[0])
    rt = ret_ty(eng, site)
    if e is None or rt is None:
        return None
    outs = []
    for ns, vi, fs in split_variants(eng, st, e, None):
        if vi == 1:
            outs.append((ns, Enum(rt, ((0, (fs[0],)),), "res")))
        else:
            if f["path"].endswith("ok_or"):
                outs.append((ns, Enum(rt, ((1, (args[1],)),), "res")))
                continue
            rs = call_closure(eng, ns, fr, args[1], [], site)
            if rs is None:
                et = variant_payload_ty(eng, rt, 1)
                rs = [(ns, Top(et, "err#%d" % eng._hv()))]
            for ns2, v in rs:
                outs.append((ns2, Enum(rt, ((1, (v,)),), "res")))
    return outs


@contract(r"^(std|core)::option::Option::<T>::(unwrap_or|unwrap_or_else|unwrap_or_default)$")
def c_opt_unwrap_or(eng, st, fr, f, args, site):
    e, _ = as_enum(eng, st, args[0])
    if e is None:
        return None
    outs = []
    for ns, vi, fs in split_variants(eng, st, e, None):
        if vi == 1:
            outs.append((ns, fs[0]))
        elif f["path"].endswith("unwrap_or"):
            outs.append((ns, args[1]))
        elif f["path"].endswith("unwrap_or_else"):
            rs = call_closure(eng, ns, fr, args[1], [], site)
            if rs is None:
                rs = [(ns, Top(ret_ty(eng, site), "dflt#%d" % eng._hv()))]
            outs.extend(rs)
        else:
            outs.append((ns, default_value(eng, ns, ret_ty(eng, site))))
    return outs


def default_value(eng, st, rt):
    """`T::default()` for the types whose default the engine models: integers 0, bool false, Option None, empty
    String / Vec; anything else is an unknown value."""
    if rt is None:
        return Top(rt, "dflt#%d" % eng._hv())
    t = eng.T.t(rt)
    if t["k"] == "bool":
        return FALSE
    ii = eng.T.int_info(rt)
    if ii and t["k"] in ("uint", "int"):
        return int_const(0, ii[0], ii[1])
    if t["k"] == "adt" and t.get("path", "").endswith("option::Option"):
        return Enum(rt, ((0, ()),), "dflt")
    return Top(rt, "dflt#%d" % eng._hv())


@contract(r"^(std|core)::result::Result::<T, E>::(unwrap_or|unwrap_or_else|unwrap_or_default)$")
def c_res_unwrap_or(eng, st, fr, f, args, site):
    e, _ = as_enum(eng, st, args[0])
    if e is None:
        return None
    outs = []
    for ns, vi, fs in split_variants(eng, st, e, None):
        if vi == 0:
            outs.append((ns, fs[0]))
        elif f["path"].endswith("unwrap_or"):
            outs.append((ns, args[1]))
        elif f["path"].endswith("unwrap_or_else"):
            rs = call_closure(eng, ns, fr, args[1], [fs[0]], site)
            if rs is None:
                rs = [(ns, Top(ret_ty(eng, site), "dflt#%d" % eng._hv()))]
            outs.extend(rs)
        else:
            outs.append((ns, default_value(eng, ns, ret_ty(eng, site))))
    return outs


@contract(r"^(std|core)::option::Option::<&T>::(cloned|copied)$|^<(std|core)::option::Option<T> as (std|core)::clone::Clone>::clone$")
def c_opt_cloned(eng, st, fr, f, args, site):
    e, _ = as_enum(eng, st, args[0])
    rt = ret_ty(eng, site)
    if e is None or rt is None:
        return None
    outs = []
    for ns, vi, fs in split_variants(eng, st, e, None):
        if vi == 0:
            outs.append((ns, Enum(rt, ((0, ()),), "opt")))
        else:
            v = fs[0]
            if isinstance(v, Ref):
                v = deref(eng, ns, v)
            outs.append((ns, Enum(rt, ((1, (v,)),), "opt")))
    return outs


@contract(r"^(std|core)::result::Result::<T, E>::(map_err|map)$")
def c_res_map(eng, st, fr, f, args, site):
    e, _ = as_enum(eng, st, args[0])
    rt = ret_ty(eng, site)
    if e is None or rt is None:
        return None
    which = 1 if f["path"].endswith("map_err") else 0
    outs = []
    for ns, vi, fs in split_variants(eng, st, e, None):
        if vi != which:
            outs.append((ns, Enum(rt, ((vi, fs),), "res")))
        else:
            rs = call_closure(eng, ns, fr, args[1], [fs[0]], site)
            if rs is None:
                pt = variant_payload_ty(eng, rt, vi)
                rs = [(ns, Top(pt, "mapped#%d" % eng._hv()))]
            for ns2, v in rs:
                outs.append((ns2, Enum(rt, ((vi, (v,)),), "res")))
    return outs


@contract(r"^(std|core)::result::Result::<T, E>::(ok|err)$")
def c_res_ok(eng, st, fr, f, args, site):
    e, _ = as_enum(eng, st, args[0])
    rt = ret_ty(eng, site)
    if e is None or rt is None:
        return None
    which = 0 if f["path"].endswith("::ok") else 1
    outs = []
    for ns, vi, fs in split_variants(eng, st, e, None):
        outs.append((ns, Enum(rt, ((1, (fs[0],)),), "opt") if vi == which else Enum(rt, ((0, ()),), "opt")))
    return outs


@contract(r"^(std|core)::num::NonZero::<T>::new$|^(std|core)::num::nonzero::NonZero::<T>::new$")
def c_nonzero_new(eng, st, fr, f, args, site):
    rt = ret_ty(eng, site)
    v = args[0]
    if not isinstance(v, Int) or rt is None:
        return None
    outs = []
    pt = variant_payload_ty(eng, rt, 1)
    # Some iff v != 0
    if st.holds(v.lin.sub(1), eng):
        return [(st, Enum(rt, ((1, (Struct(pt, (v,)),)),), "nz"))]
    if v.lin.is_const() and v.lin.c == 0:
        return [(st, Enum(rt, ((0, ()),), "nz"))]
    ns = st.fork()
    try:
        eng.assume(ns, ("cmp", "Ne", v.lin, Lin.const(0)), True)
        outs.append((ns, Enum(rt, ((1, (Struct(pt, (v,)),)),), "nz")))
    except Dead:
        pass
    ns = st.fork()
    try:
        eng.assume(ns, ("cmp", "Eq", v.lin, Lin.const(0)), True)
        outs.append((ns, Enum(rt, ((0, ()),), "nz")))
    except Dead:
        pass
    return outs


# ------------------------------------------------------------------ comparisons through references


@contract(r"^(std|core)::cmp::impls::<impl (std|core)::cmp::PartialEq<&'?\w* ?(mut )?B> for &'?\w* ?(mut )?A>::(eq|ne)$")
def c_ref_eq(eng, st, fr, f, args, site):
    """`&a == &b`: the pointees' equality (integers directly; a local ADT through its (derived) PartialEq::eq)."""
    if len(args) != 2 or not all(isinstance(a, Ref) for a in args):
        return None
    neg = f["path"].endswith("::ne") or (f.get("resolved") or "").endswith("::ne")
    a, b = deref1(eng, st, args[0]), deref1(eng, st, args[1])
    va, vb = force(eng, st, a) if not isinstance(a, Ref) else a, force(eng, st, b) if not isinstance(b, Ref) else b
    if isinstance(va, Int) and isinstance(vb, Int):
        c = ("cmp", "Ne" if neg else "Eq", va.lin, vb.lin)
        return [(st, Bool(c))]
    if isinstance(va, Bool) and isinstance(vb, Bool):
        return None
    ty = getattr(va, "ty", None)
    if isinstance(va, (Enum, Struct)) and isinstance(ty, int):
        t = eng.T.t(ty)
        p = eng.impl_index.get(("std::cmp::PartialEq", t.get("s"), "eq")) or eng.impl_index.get(("core::cmp::PartialEq", t.get("s"), "eq"))
        if p and p in eng.F.bodies:
            ra = a if isinstance(a, Ref) else args[0]
            rb = b if isinstance(b, Ref) else args[1]
            # the pointee's eq takes (&A, &B): hand it references to the pointees
            la, lb = "obj:eqa#%d" % eng._hv(), "obj:eqb#%d" % eng._hv()
            st.locs[la], st.locs[lb] = va, vb
            rs = eng.inline(st, fr, eng.F.body(p), {}, [Ref(la, (), False), Ref(lb, (), False)], site)
            if rs is None:
                return None
            if neg:
                return [(s1, Bool(eng.neg_cond(v.cond))) if isinstance(v, Bool) else (s1, v) for s1, v in rs]
            return rs
    return None


def deref1(eng, st, r):
    """One level of dereference (a `&&T` argument yields the inner `&T`, a `&T` the value)."""
    x = eng.M.read_path(st, r.loc, r.path)
    if isinstance(x, Top):
        x = eng.M.force_at(st, r.loc, r.path, x)
    if isinstance(x, Ref):
        y = eng.M.read_path(st, x.loc, x.path)
        if isinstance(y, Top):
            y = eng.M.force_at(st, x.loc, x.path, y)
        return y
    return x


# ------------------------------------------------------------------ mem / misc


@contract(r"^(std|core)::mem::take$")
def c_mem_take(eng, st, fr, f, args, site):
    r = args[0]
    if not isinstance(r, Ref):
        return None
    v = deref(eng, st, r)
    rt = ret_ty(eng, site)
    # Default of the type: Option -> None, String/Vec -> empty, ints -> 0
    dflt = default_of(eng, rt)
    if dflt is None:
        return None
    eng.M.write_path(st, r.loc, r.path, dflt)
    return [(st, v)]


@contract(r"^(std|core)::option::Option::<T>::take$")
def c_option_take(eng, st, fr, f, args, site):
    """Option::take: returns the old value, leaves None."""
    r = args[0]
    if not isinstance(r, Ref):
        return None
    v = deref(eng, st, r)
    rt = ret_ty(eng, site)
    eng.M.write_path(st, r.loc, r.path, Enum(rt, ((0, ()),), "dflt"))
    return [(st, v)]


@contract(r"^(std|core)::mem::replace$|^(std|core)::option::Option::<T>::replace$")
def c_mem_replace(eng, st, fr, f, args, site):
    r = args[0]
    if not isinstance(r, Ref) or len(args) < 2:
        return None
    v = deref(eng, st, r)
    new = args[1]
    if f["path"].endswith("Option::<T>::replace"):
        rt = ret_ty(eng, site)
        new = Enum(rt, ((1, (args[1],)),), "opt")
    eng.M.write_path(st, r.loc, r.path, new)
    return [(st, v)]


def default_of(eng, ti):
    T = eng.T
    t = T.t(ti)
    if t["k"] == "adt":
        if t["path"] in ("std::option::Option", "core::option::Option"):
            return Enum(ti, ((0, ()),), "dflt")
        kind = eng.M.container_kind(ti)
        if kind:
            targs = [x for x in t["args"] if isinstance(x, int)]
            return Cont(kind, "empty#%d" % eng._hv(), Lin.const(0), None, () if kind == "bytesmut" else None, ti)
    ii = T.int_info(ti)
    if ii and t["k"] != "bool":
        return int_const(0, ii[0], ii[1])
    if t["k"] == "bool":
        return FALSE
    return None


@contract(r"^(std|core)::convert::num::<impl (std|core)::convert::From<bool> for u(8|16|32|64|size)>::from$")
def c_from_bool(eng, st, fr, f, args, site):
    if isinstance(args[0], Bool):
        w = eng.T.int_info(ret_ty(eng, site))[0]
        c = eng.simplify_cond(st, args[0].cond)
        while c[0] == "not":
            c = c[1]
        if c[0] == "sym" and "#" not in str(c[1]):
            # a named input flag used arithmetically (`usize::from(flag) * N`): decide it, as a branch on it would
            outs = []
            for truth in (True, False):
                ns = st.fork()
                try:
                    ki = eng.assume(ns, args[0].cond, truth)
                except Dead:
                    continue
                if ki is not None and ki not in ns.key:
                    ns.key = ns.key + (ki,)
                outs.append((ns, int_const(1 if truth else 0, w, False)))
            if outs:
                return outs
        if c[0] in ("bit", "isvar"):
            # presence flags used arithmetically (`u8::from(x.is_some()) * N`): decided like the `if` they replace
            c0 = eng.simplify_cond(st, args[0].cond)
            outs = []
            for truth in (True, False):
                ns = st.fork()
                try:
                    ki = eng.assume(ns, c0, truth)
                except Dead:
                    continue
                if ki is not None and ki not in ns.key and (eng._want_partition(fr, site.get("block"), "cond", ki) or (ki[0] == "variant" and eng._cond_key_adt(st, c0))):
                    ns.key = ns.key + (ki,)
                outs.append((ns, int_const(1 if truth else 0, w, False)))
            if outs:
                return outs
        return [(st, eng.bool_to_int(st, args[0], w))]
    return None


@contract(r"^(std|core)::num::<impl [ui](8|16|32|64|128|size)>::(count_ones|count_zeros|trailing_zeros|leading_zeros|trailing_ones|leading_ones)$")
def c_bit_counts(eng, st, fr, f, args, site):
    """Bit counting on a value whose bits are known up to a few input bits: decided per assignment of those bits, the
    way a chain of `if x & FLAG != 0` would (same refinement, same partition rule)."""
    import itertools
    v = force(eng, st, args[0])
    if not isinstance(v, Int):
        return None
    op = f["path"].split("::")[-1]
    bits = eng.bits_of(st, v)
    if bits is None and v.lin.is_const():
        c = v.lin.c & ((1 << v.w) - 1)
        bits = tuple((c >> i) & 1 for i in range(v.w))
    def bounded(hi):
        return [(st, eng.fresh_int("bitcnt", 32, False, 0, hi))]

    if bits is None or any(x is None for x in bits):
        return bounded(v.w)
    bits = tuple(bits[:v.w]) + (0,) * max(0, v.w - len(bits))
    unk = [i for i, x in enumerate(bits) if x not in (0, 1)]
    if len(unk) > 4 or any(not (isinstance(bits[i], tuple) and bits[i][0] in ("b", "nb")) for i in unk):
        return bounded(sum(1 for x in bits if x != 0) if op == "count_ones" else v.w)

    def count(bs):
        n = len(bs)
        if op == "count_ones":
            return sum(bs)
        if op == "count_zeros":
            return n - sum(bs)
        seq = bs if op.startswith("trailing") else tuple(reversed(bs))
        want = 1 if op.endswith("ones") else 0
        k = 0
        for x in seq:
            if x != want:
                break
            k += 1
        return k

    outs = []
    site_b = site.get("block") if isinstance(site, dict) else None
    for combo in itertools.product((0, 1), repeat=len(unk)):
        ns = st.fork() if unk else st
        bs = list(bits)
        try:
            for i, val in zip(unk, combo):
                at = bits[i]
                real = val if at[0] == "b" else 1 - val
                ns.set_bit(at[1], at[2], real)
                ki = ("bit", at[1], at[2], real)
                if ki not in ns.key and eng._want_partition(fr, site_b, "cond", ki):
                    ns.key = ns.key + (ki,)
                bs[i] = val
        except Dead:
            continue
        outs.append((ns, int_const(count(tuple(bs)), 32, False)))
    return outs or None


@contract(r"^(std|core)::convert::num::<impl (std|core)::convert::From<[ui]\d+> for [ui](\d+|size)>::from$")
def c_from_int(eng, st, fr, f, args, site):
    v = force(eng, st, args[0])
    rt_ = ret_ty(eng, site)
    ii = eng.T.int_info(rt_) if rt_ is not None and eng.T.t(rt_)["k"] in ("uint", "int") else None
    if ii is None:
        # applied as a function value (`opt.map(usize::from)`): the target type is the impl's Self type
        m_ = re.search(r"for ([ui])(\d+|size)>::from$", f["path"]) or re.search(r"for ([ui])(\d+|size)>::from$", f.get("resolved") or "")
        if m_:
            ii = (64 if m_.group(2) == "size" else int(m_.group(2)), m_.group(1) == "i")
    if isinstance(v, Int) and ii:
        return [(st, Int(v.lin, v.bits + (0,) * (ii[0] - v.w) if v.bits is not None and not v.signed else None, ii[0], ii[1], v.tags))]
    return None


def _binop_ref(eng, st, fr, f, args, site, op):
    a, b = args[0], args[1]
    if isinstance(a, Ref):
        a = deref(eng, st, a)
    if isinstance(b, Ref):
        b = deref(eng, st, b)
    a, b = force(eng, st, a), force(eng, st, b)
    if isinstance(a, Int) and isinstance(b, Int):
        if op in ("Shl", "Shr") and b.w != a.w:
            b = Int(b.lin, None, a.w, a.signed, b.tags)
        return [(st, eng.eval_bin(fr, st, op, a, b, None))]
    return None


for _op, _tr in (("BitAnd", "BitAnd"), ("BitOr", "BitOr"), ("BitXor", "BitXor"), ("Shl", "Shl"), ("Shr", "Shr"), ("Add", "Add"), ("Sub", "Sub"), ("Mul", "Mul")):

    def _mk(op):
        def c(eng, st, fr, f, args, site):
            return _binop_ref(eng, st, fr, f, args, site, op)

        return c

    contract(r"^<&[ui](8|16|32|64|128|size) as (std|core)::ops::%s<&?[ui](8|16|32|64|128|size)>>::%s$" % (_tr, _tr.lower()))(_mk(_op))
    contract(r"^<[ui](8|16|32|64|128|size) as (std|core)::ops::%s<&[ui](8|16|32|64|128|size)>>::%s$" % (_tr, _tr.lower()))(_mk(_op))


@contract(r"^(std|core)::num::<impl [ui](8|16|32|64|128|size)>::wrapping_(add|sub|mul)$")
def c_wrapping(eng, st, fr, f, args, site):
    a, b = args
    if not (isinstance(a, Int) and isinstance(b, Int)):
        return None
    op = {"add": "Add", "sub": "Sub", "mul": "Mul"}[f["path"].rsplit("_", 1)[1]]
    return [(st, eng.eval_bin(fr, st, op, a, b, None))]


@contract(r"^(std|core)::num::<impl [ui](8|16|32|64|128|size)>::(checked|saturating|overflowing)_(add|sub|mul)$")
def c_checked(eng, st, fr, f, args, site):
    a, b = args
    rt = ret_ty(eng, site)
    if not (isinstance(a, Int) and isinstance(b, Int)) or rt is None:
        return None
    m = re.search(r"::(checked|saturating|overflowing)_(add|sub|mul)$", f["path"])
    mode, opn = m.group(1), m.group(2)
    op = {"add": "Add", "sub": "Sub", "mul": "Mul"}[opn]
    res = eng.eval_bin(fr, st, op + "WithOverflow", a, b, None)
    val, ovf = res.fields
    fits = eng.in_range(st, val.lin, val.w, val.signed)
    if mode == "checked":
        if fits:
            return [(st, Enum(rt, ((1, (val,)),), "chk"))]
        lo, hi = ty_range(val.w, val.signed)
        outs = []
        ns = st.fork()
        try:
            ns.add_fact(val.lin.sub(lo), eng)
            ns.add_fact(Lin.const(hi).sub(val.lin), eng)
            outs.append((ns, Enum(rt, ((1, (val,)),), "chk")))
        except Dead:
            pass
        # None: the exact result is out of range; for an unsigned subtraction that means a < b
        ns = st.fork()
        try:
            if opn == "sub" and not val.signed:
                ns.add_fact(val.lin.neg().sub(1), eng)
            outs.append((ns, Enum(rt, ((0, ()),), "chk")))
        except Dead:
            pass
        return outs
    if mode == "saturating":
        if fits:
            return [(st, val)]
        lo, hi = ty_range(val.w, val.signed)
        r = eng.fresh_int("sat", val.w, val.signed)
        eng.sym_terms[r.lin.single_sym()] = ("sat", op, a.lin, b.lin)
        if not val.signed:
            # unsigned saturation: sub gives max(a - b, 0) <= a ; add / mul give min(exact, MAX) <= exact
            try:
                if opn == "sub":
                    st.add_fact(a.lin.sub(r.lin), eng)
                    st.add_fact(r.lin.sub(val.lin), eng)
                else:
                    st.add_fact(val.lin.sub(r.lin), eng)
            except Dead:
                pass
            if opn == "sub" and "len" in a.tags or a.lin.single_sym() in eng.len_syms:
                eng.len_syms.add(r.lin.single_sym())
        return [(st, r)]
    return None


@contract(r"^(std|core)::cmp::(min|max)$|^(std|core)::cmp::Ord::(min|max)$")
def c_minmax(eng, st, fr, f, args, site):
    a, b = args
    if not (isinstance(a, Int) and isinstance(b, Int)):
        return None
    is_min = f["path"].endswith("min")
    if st.holds(b.lin.sub(a.lin), eng):  # a <= b
        return [(st, a if is_min else b)]
    if st.holds(a.lin.sub(b.lin), eng):
        return [(st, b if is_min else a)]
    r = eng.fresh_int("min" if is_min else "max", a.w, a.signed)
    try:
        if is_min:
            st.add_fact(a.lin.sub(r.lin), eng)
            st.add_fact(b.lin.sub(r.lin), eng)
        else:
            st.add_fact(r.lin.sub(a.lin), eng)
            st.add_fact(r.lin.sub(b.lin), eng)
    except Dead:
        return []
    eng.sym_terms[r.lin.single_sym()] = ("min" if is_min else "max", a.lin, b.lin)
    return [(st, r)]


@contract(r"^(std|core)::intrinsics::discriminant_value$|^(std|core)::mem::discriminant$")
def c_discriminant_value(eng, st, fr, f, args, site):
    r = args[0]
    if not isinstance(r, Ref):
        return None
    v = force(eng, st, deref(eng, st, r))
    rt = ret_ty(eng, site)
    ii = eng.T.int_info(rt) or (64, True)
    if isinstance(v, Enum):
        tag = frozenset([("discr", r.loc, r.path)])
        if len(v.variants) == 1:
            return [(st, int_const(eng.T.variant_discr(v.ty, v.variants[0][0]), ii[0], ii[1])._replace(tags=tag))]
        x = eng.fresh_int("discr", ii[0], ii[1], 0, None)
        return [(st, x._replace(tags=tag))]
    return None


from engine import contracts_coll  # noqa: E402,F401


@contract(r"^<(u8|u16|u32|u64|u128|usize|i8|i16|i32|i64|i128|isize|bool) as (std|core)::default::Default>::default$|^(std|core)::default::impls::<impl (std|core)::default::Default for (u8|u16|u32|u64|u128|usize|i8|i16|i32|i64|i128|isize|bool)>::default$")
def c_default_prim(eng, st, fr, f, args, site):
    """Default of a primitive: 0 / false."""
    rt = ret_ty(eng, site)
    if rt is None:
        return None
    t = eng.T.t(rt)
    if t["k"] == "bool":
        return [(st, FALSE)]
    ii = eng.T.int_info(rt)
    if ii:
        return [(st, int_const(0, ii[0], ii[1]))]
    return None


# ------------------------------------------------------------------ futures: awaiting a local async fn
@contract(r"^<F as (std|core)::future::IntoFuture>::into_future$|^(std|core)::future::IntoFuture::into_future$|^(std|core)::future::into_future::IntoFuture::into_future$")
def c_into_future(eng, st, fr, f, args, site):
    """`IntoFuture` for a future is the identity."""
    return [(st, args[0])]


@contract(r"^(std|core)::pin::Pin::<Ptr>::new_unchecked$|^(std|core)::pin::Pin::<Ptr>::new$")
def c_pin_new(eng, st, fr, f, args, site):
    """Pin<&mut T> is represented by the reference itself."""
    if isinstance(args[0], (Ref, Fn)):
        return [(st, args[0])]
    return None


@contract(r"^(std|core)::future::Future::poll$|^(std|core)::future::future::Future::poll$|^<.* as (std|core)::future::Future>::poll$|^futures(_core|_util)?::(future::)?Future::poll$")
def c_poll_local_coroutine(eng, st, fr, f, args, site):
    """Polling the coroutine of a local `async fn`: its (pre-transform) body is analysed in context; the result is
    Ready(return value) or Pending (no visible effect: partial progress is invisible to the caller)."""
    fut = args[0]
    if isinstance(fut, Ref):
        fut = deref(eng, st, fut)
    fut = force(eng, st, fut)
    if not isinstance(fut, Fn) or len(fut.items) != 1:
        return None
    it = next(iter(fut.items))
    if it[0] != "closure":
        return None
    _, dpath, envloc, subitems = it
    body = eng.F.body(dpath)
    if body is None or body.get("kind") not in ("coroutine", "closure") or body["arg_count"] != 2:
        return None
    rt = ret_ty(eng, site)
    if rt is None:
        return None
    poll = eng.M.force(st, Top(rt, "poll#%d" % eng._hv()))
    if not isinstance(poll, Enum) or len(poll.variants) != 2:
        return None
    names = {eng.T.variant_name(poll.ty, vi): vi for vi, _ in poll.variants}
    if "Ready" not in names or "Pending" not in names:
        return None
    ctx = args[1] if len(args) > 1 else Top(body["locals"][2]["ty"], "cx")
    res = eng.inline(st.fork(), fr, body, dict(subitems), [ctx], site, closure_env=envloc)
    if res is None:
        return None
    outs = [(ns, Enum(poll.ty, ((names["Ready"], (rv,)),), "poll")) for ns, rv in res]
    outs.append((st.fork(), Enum(poll.ty, ((names["Pending"], ()),), "poll")))
    return outs


@contract(r"^(std|core)::convert::num::<impl (std|core)::convert::From<(f32|[ui]\d+)> for f(32|64)>::from$")
def c_from_to_float(eng, st, fr, f, args, site):
    """Lossless widening into a float: the same terms as the `as` casts (IntToFloat / FloatToFloat)."""
    v = args[0]
    rt = ret_ty(eng, site)
    if rt is None:
        return None
    w = eng.T.t(rt).get("bits")
    if isinstance(v, Flt):
        return [(st, v if v.w == w else Flt(("fcvt", v.term, v.w), w))]
    if isinstance(v, Int):
        return [(st, Flt(("itof", v.lin, v.w, v.signed), w))]
    return None


@contract(r"^<(std|core)::option::Option<T> as (std|core)::ops::FromResidual<(std|core)::option::Option<(std|core)::convert::Infallible>>>::from_residual$")
def c_from_residual_opt(eng, st, fr, f, args, site):
    """`?` on an Option that is None: the function's result is None."""
    rt = ret_ty(eng, site)
    if rt is None:
        return None
    o = eng.M.force(st, Top(rt, "none#%d" % eng._hv()))
    if isinstance(o, Enum):
        for vi, fs in o.variants:
            if eng.T.variant_name(o.ty, vi) == "None":
                return [(st, Enum(o.ty, ((vi, ()),), "residual"))]
    return None


@contract(r"^(std|core)::bool::<impl bool>::(then|then_some)$")
def c_bool_then(eng, st, fr, f, args, site):
    """`flag.then(|| v)` / `flag.then_some(v)`: Some(v) when the flag holds, None otherwise (decided like a branch)."""
    rt = ret_ty(eng, site)
    b = force(eng, st, args[0])
    if rt is None or not isinstance(b, Bool):
        return None
    c = eng.simplify_cond(st, b.cond)
    outs = []
    for truth in (True, False):
        if c[0] == "const" and c[1] != truth:
            continue
        ns = st.fork()
        try:
            ki = eng.assume(ns, c, truth) if c[0] != "const" else None
        except Dead:
            continue
        if ki is not None and ki not in ns.key and (eng._want_partition(fr, site.get("block"), "cond", ki) or (ki[0] == "variant" and eng._cond_key_adt(st, c))):
            ns.key = ns.key + (ki,)
        if not truth:
            outs.append((ns, Enum(rt, ((0, ()),), "opt")))
        elif f["path"].endswith("then_some"):
            outs.append((ns, Enum(rt, ((1, (args[1],)),), "opt")))
        else:
            rs = call_closure(eng, ns, fr, args[1], [], site)
            if rs is None:
                pt = variant_payload_ty(eng, rt, 1)
                rs = [(ns, Top(pt, "then#%d" % eng._hv()))]
            for ns2, v in rs:
                outs.append((ns2, Enum(rt, ((1, (v,)),), "opt")))
    return outs


@contract(r"^(std|core)::option::Option::<(std|core)::result::Result<T, E>>::transpose$")
def c_opt_transpose(eng, st, fr, f, args, site):
    """Option<Result<T, E>> -> Result<Option<T>, E>."""
    e, _ = as_enum(eng, st, args[0])
    rt = ret_ty(eng, site)
    if e is None or rt is None:
        return None
    ot = variant_payload_ty(eng, rt, 0)
    outs = []
    for ns, vi, fs in split_variants(eng, st, e, None):
        if vi == 0:
            outs.append((ns, Enum(rt, ((0, (Enum(ot, ((0, ()),), "opt"),)),), "res")))
            continue
        r, _ = as_enum(eng, ns, fs[0])
        if r is None:
            return None
        for ns2, rvi, rfs in split_variants(eng, ns, r, None):
            if rvi == 0:
                outs.append((ns2, Enum(rt, ((0, (Enum(ot, ((1, (rfs[0],)),), "opt"),)),), "res")))
            else:
                outs.append((ns2, Enum(rt, ((1, (rfs[0],)),), "res")))
    return outs


@contract(r"^(std|core)::result::Result::<(std|core)::option::Option<T>, E>::transpose$")
def c_res_transpose(eng, st, fr, f, args, site):
    """Result<Option<T>, E> -> Option<Result<T, E>>."""
    e, _ = as_enum(eng, st, args[0])
    rt = ret_ty(eng, site)
    if e is None or rt is None:
        return None
    it = variant_payload_ty(eng, rt, 1)
    outs = []
    for ns, vi, fs in split_variants(eng, st, e, None):
        if vi == 1:
            outs.append((ns, Enum(rt, ((1, (Enum(it, ((1, (fs[0],)),), "res"),)),), "opt")))
            continue
        o, _ = as_enum(eng, ns, fs[0])
        if o is None:
            return None
        for ns2, ovi, ofs in split_variants(eng, ns, o, None):
            if ovi == 0:
                outs.append((ns2, Enum(rt, ((0, ()),), "opt")))
            else:
                outs.append((ns2, Enum(rt, ((1, (Enum(it, ((0, (ofs[0],)),), "res"),)),), "opt")))
    return outs


@contract(r"^(std|core)::result::Result::<T, E>::and_then$")
def c_res_and_then(eng, st, fr, f, args, site):
    e, _ = as_enum(eng, st, args[0])
    rt = ret_ty(eng, site)
    if e is None or rt is None:
        return None
    outs = []
    for ns, vi, fs in split_variants(eng, st, e, None):
        if vi == 1:
            outs.append((ns, Enum(rt, ((1, fs),), "res")))
            continue
        rs = call_closure(eng, ns, fr, args[1], [fs[0]], site)
        if rs is None:
            outs.append((ns, Top(rt, "andthen#%d" % eng._hv())))
            continue
        outs.extend(rs)
    return outs


@contract(r"^(std|core)::option::Option::<(std|core)::option::Option<T>>::flatten$")
def c_opt_flatten(eng, st, fr, f, args, site):
    e, _ = as_enum(eng, st, args[0])
    rt = ret_ty(eng, site)
    if e is None or rt is None:
        return None
    outs = []
    for ns, vi, fs in split_variants(eng, st, e, None):
        if vi == 0:
            outs.append((ns, Enum(rt, ((0, ()),), "opt")))
        else:
            outs.append((ns, fs[0]))
    return outs


@contract(r"^(std|core)::num::<impl u(8|16|32|64)>::(rotate_left|rotate_right)$")
def c_rotate(eng, st, fr, f, args, site):
    """Bit rotation by a constant amount: a permutation of the bit provenance."""
    v = force(eng, st, args[0])
    n = force(eng, st, args[1]) if len(args) > 1 else None
    if not isinstance(v, Int) or not isinstance(n, Int) or not n.lin.is_const():
        return None
    bits = eng.bits_of(st, v)
    if bits is None and v.lin.is_const():
        c = v.lin.c & ((1 << v.w) - 1)
        bits = tuple((c >> i) & 1 for i in range(v.w))
    if bits is None and v.lin.single_sym() and not v.signed:
        bits = tuple(eng.bit_atom(st, v.lin.single_sym(), i) for i in range(v.w))
    if bits is None or len(bits) < v.w:
        return None
    w = v.w
    k = n.lin.c % w
    if f["path"].endswith("rotate_right"):
        k = (w - k) % w
    nb = tuple(bits[(i - k) % w] for i in range(w))
    return [(st, eng.int_from_bits(st, nb, w, False))]


@contract(r"^(std|core)::clone::impls::<impl (std|core)::clone::Clone for (u8|u16|u32|u64|u128|usize|i8|i16|i32|i64|i128|isize|bool|char|f32|f64)>::clone$|^<(u8|u16|u32|u64|u128|usize|i8|i16|i32|i64|i128|isize|bool|char|f32|f64) as (std|core)::clone::Clone>::clone$")
def c_clone_prim(eng, st, fr, f, args, site):
    """Clone of a primitive is the value."""
    v = args[0]
    if isinstance(v, Ref):
        v = deref(eng, st, v)
    v = force(eng, st, v)
    return [(st, v)] if v is not None else None
