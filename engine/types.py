"""Type context over the facts' hash-consed type table: generic substitution,
ADT instantiation, integer info.  New (substituted) types are appended to the
table in memory."""


class TypeCtx:
    def __init__(self, facts):
        self.F = facts
        self.types = facts.types
        self._memo = {}
        self._by_s = {}
        for i, t in enumerate(self.types):
            self._by_s.setdefault(t["s"], i)

    def t(self, ti):
        return self.types[ti]

    def kind(self, ti):
        return self.types[ti]["k"]

    def same(self, a, b):
        """Type equality up to the driver's interning of erased regions (two ids may print identically)."""
        if a == b:
            return True
        if not isinstance(a, int) or not isinstance(b, int):
            return False
        k = (a, b) if a < b else (b, a)
        r = self._same.get(k) if hasattr(self, "_same") else None
        if r is None:
            if not hasattr(self, "_same"):
                self._same = {}
            r = self._same[k] = (self.F.ty_s(a) == self.F.ty_s(b))
        return r

    def s(self, ti):
        return self.types[ti]["s"]

    def by_string(self, s):
        return self._by_s.get(s)

    def int_info(self, ti):
        t = self.types[ti]
        if t["k"] == "uint":
            return (t["bits"], False)
        if t["k"] == "int":
            return (t["bits"], True)
        if t["k"] == "bool":
            return (1, False)
        if t["k"] == "char":
            return (32, False)
        return None

    def _intern(self, t):
        key = repr(sorted(t.items()))
        i = self._memo.get(key)
        if i is None:
            i = len(self.types)
            self.types.append(t)
            self._memo[key] = i
        return i

    def subst(self, ti, sub):
        """Substitute type parameters by name: sub = {name: type id}."""
        if not sub:
            return ti
        t = self.types[ti]
        k = t["k"]
        if k == "param":
            return sub.get(t["name"], ti)
        if k in ("bool", "char", "int", "uint", "float", "str", "never", "fnptr", "dyn", "foreign", "other", "alias"):
            return ti
        changed = False
        nt = dict(t)
        for key in ("args", "of", "upvars"):
            v = t.get(key)
            if isinstance(v, list):
                nv = [self.subst(x, sub) if isinstance(x, int) else x for x in v]
                if nv != v:
                    changed = True
                    nt[key] = nv
            elif isinstance(v, int) and key == "of":
                nv = self.subst(v, sub)
                if nv != v:
                    changed = True
                    nt[key] = nv
        if k == "array" and t.get("len") is None and t.get("lenp") and ("const " + str(t["lenp"])) in sub:
            cv = sub["const " + str(t["lenp"])]
            if isinstance(cv, int):
                nt["len"] = cv
                nt["lenp"] = None
                changed = True
        if "to" in t:
            nv = self.subst(t["to"], sub)
            if nv != t["to"]:
                changed = True
                nt["to"] = nv
        if not changed:
            return ti
        nt["s"] = self._render(nt)
        return self._intern(nt)

    def _render(self, t):
        k = t["k"]
        if k == "adt":
            a = [self.s(x) if isinstance(x, int) else str(x) for x in t["args"]]
            return t["path"] + ("<%s>" % ", ".join(a) if a else "")
        if k == "ref":
            return "&%s%s" % ("mut " if t["mut"] else "", self.s(t["to"]))
        if k == "ptr":
            return "*%s %s" % ("mut" if t["mut"] else "const", self.s(t["to"]))
        if k == "slice":
            return "[%s]" % self.s(t["of"])
        if k == "array":
            return "[%s; %s]" % (self.s(t["of"]), t["len"])
        if k == "tuple":
            return "(%s)" % ", ".join(self.s(x) for x in t["of"])
        return t["s"] + "'"

    # ---- ADTs
    def adt(self, ti):
        t = self.types[ti]
        if t["k"] != "adt":
            return None
        return self.F.adts.get(t["path"])

    def adt_sub(self, ti):
        """Substitution map for the ADT's own generics from the type's args."""
        t = self.types[ti]
        a = self.F.adts.get(t["path"])
        if not a:
            return {}
        names = [g for g in a.get("generics", []) if not g.startswith("const ")]
        targs = [x for x in t["args"] if isinstance(x, int)]
        return dict(zip(names, targs))

    def variant_fields(self, ti, vidx):
        """[(name, type id)] of variant vidx of ADT type ti, instantiated."""
        a = self.adt(ti)
        if not a or "variants" not in a:
            return None
        sub = self.adt_sub(ti)
        v = a["variants"][vidx]
        return [(f["name"], self.subst(f["ty"], sub)) for f in v["fields"]]

    def n_variants(self, ti):
        a = self.adt(ti)
        if not a or "variants" not in a:
            return None
        return len(a["variants"])

    def variant_name(self, ti, vidx):
        a = self.adt(ti)
        return a["variants"][vidx]["name"]

    def variant_discr(self, ti, vidx):
        a = self.adt(ti)
        return int(a["variants"][vidx]["discr"])

    def variant_by_discr(self, ti, d):
        a = self.adt(ti)
        for i, v in enumerate(a["variants"]):
            if int(v["discr"]) == d:
                return i
        return None

    def is_enum(self, ti):
        a = self.adt(ti)
        return bool(a) and a["kind"] == "enum" and "variants" in a

    def is_struct(self, ti):
        a = self.adt(ti)
        return bool(a) and a["kind"] == "struct" and "variants" in a

    def mk_ref(self, to, mut=False):
        return self._intern({"k": "ref", "mut": mut, "to": to, "s": "&%s%s" % ("mut " if mut else "", self.s(to))})

    def mk_tuple(self, tis):
        return self._intern({"k": "tuple", "of": list(tis), "s": "(%s)" % ", ".join(self.s(x) for x in tis)})

    def mk_adt(self, path, args):
        return self._intern({"k": "adt", "path": path, "args": list(args), "s": path + ("<%s>" % ", ".join(self.s(x) for x in args) if args else "")})

    def find_prim(self, name):
        return self._by_s.get(name)
