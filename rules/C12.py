"""C12 — loading any FIBEX file ends with a model or a refusal, never a hang or panic.

Decided (see DESIGN §4/C12): LOOP-E over every natural loop reachable from
gather_fibex_data, recursion freedom, CALL deny-list, PANIC obligations of the
module, TAB: gather_fibex_data maps Err and the empty list to None.
"""
from engine import cfg
from rules import lib_loop
from rules.common import deny_class, local_callsites, loc_of, from_macro, LOG_MACROS

LEVEL = "proof"
ENTRY = ["fibex::gather_fibex_data"]
PUMPS = [r"^quick_xml::Reader::<R>::read_event_into$", r"^quick_xml::reader::Reader::<R>::read_event_into$", r"^fibex::Reader::<B>::read_event$", r"^fibex::XmlReaderWithContext::<B>::read_event$", r"^fibex::XmlReaderWithContext::<B>::read_text$"]
EOF_VARIANTS = {"quick_xml::events::Event": "Eof", "fibex::Event": "Eof"}


def run(ctx):
    F, R, cg = ctx.facts, ctx.report, ctx.cg
    R.explanation = ("LOOP-E: every natural loop in code reachable from gather_fibex_data is driven by a finite iterator or is an event pump whose "
                     "end-of-input arm leaves the loop; no recursion; no deny-listed panicking callee; PANIC obligations of the module discharged.")
    R.not_decided = ["progress of quick-xml per read_event call and its internal panics (trusted library)", "allocation failure"]
    for e in ENTRY:
        if not F.body(e):
            R.violation("ANCHOR", "missing|" + e, "anchor function %s not found" % e, kind="ANCHOR-MISSING")
            return
    reach = sorted(cg.local_reachable(ENTRY))
    reach = [p for p in reach if not F.body(p)["derived"]]
    n_pump = 0
    n_iter = 0
    for p in reach:
        b = F.body(p)
        R.fn(p)
        for lp in lib_loop.classify_loops(F, b, PUMPS, EOF_VARIANTS):
            desc = "%s loop@%s kind=%s %s" % (p, lp.get("pump") or lp.get("iterator") or "", lp["kind"], lp["why"])
            R.instance("LOOP-E", desc)
            R.sample({"function": p, "loop_header_bb": lp["header"], "kind": lp["kind"], "verdict": lp["why"], "line": lp["line"]})
            if lp["kind"] == "pump" or lp.get("local_iterator"):
                n_pump += 1   # a loop over a local iterator that wraps the pump is a pump loop for the vacuity floor
            if lp["kind"] == "iterator":
                n_iter += 1
            if lp["ok"]:
                R.obligation("LOOP-E", "%s|loop|%s" % (p, lp["kind"] + ":" + str(lp.get("pump") or lp.get("iterator"))), "discharged", lp["why"])
            else:
                R.violation("LOOP-E", "%s|%s-loop|%s" % (p, lp["kind"], lp.get("pump") or lp.get("iterator") or "?"),
                            lp["why"], file=lp["file"], line=lp["line"], function=p, entry_point=ENTRY[0],
                            call_path=cg.path_to(ENTRY, p))
    for _ in range(n_pump):
        R.instance("LOOP-E.pump", "pump")
    for _ in range(n_iter):
        R.instance("LOOP-E.iter", "iter")
    R.floor("LOOP-E.pump", 4)
    R.floor("LOOP-E.iter", 1)
    # recursion
    cycles = lib_loop.recursion(cg, set(reach))
    R.instance("REC", "no recursion among %d reachable functions" % len(reach))
    for c in cycles:
        R.violation("REC", "recursion|" + "|".join(sorted(c)), "recursive cycle among %s: termination not decided" % ", ".join(sorted(c)), function=sorted(c)[0])
    # CALL deny-list
    n_calls = 0
    for p in reach:
        b = F.body(p)
        for bi, f, t, blk in local_callsites(F, b):
            n_calls += 1
            tgt = cfg.fn_target(f)
            d = deny_class(tgt) or deny_class(f["path"])
            if d:
                from rules.common import deny_exempt
                if deny_exempt(f, t):
                    continue
                if from_macro(blk["sp"], {"debug_assert", "debug_assert_eq", "debug_assert_ne"}):
                    pass
                fl, ln = loc_of(blk)
                R.violation("CALL-DENY", "%s|%s" % (p, f["path"]), "reachable call of panicking callee %s (%s)" % (f["s"], d), file=fl, line=ln, function=p, call_path=cg.path_to(ENTRY, p))
    R.instance("CALL-DENY", "%d call sites in %d functions scanned against the deny-list" % (n_calls, len(reach)))
    R.extra["call_sites_scanned"] = n_calls
    # PANIC obligations (numeric) are added by the engine layer
    try:
        from rules import lib_panic
        lib_panic.check(ctx, ENTRY, reach, rule="PANIC")
    except ImportError:
        R.notes.append("numeric PANIC layer not built yet")
