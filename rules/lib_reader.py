"""C07 / C08 — the two message readers (DESIGN §4/C07, C08).

INV    the reader built by `new` has len(buffer) = K (a compile-time constant >= 16 + 65535) and
       `next_message_slice` leaves len(buffer) unchanged (inductive struct invariant);
PANIC  under INV every panic-capable site of next_message_slice is discharged for every content of the buffer
       (the length field is an unconstrained u16);
ALG    two-phase algebra as linear identities: read 1 fills [0, s+4), the length is the big-endian u16 at
       offset s+2, read 2 fills [s+4, s+L), the returned slice is [0, s+L), s in {0,16} selected by with_storage_header;
DISP   typestate over the exits: failure of read 1 => Ok(empty), failure of read 2 => Err, and no Ok(non-empty) exit
       without both reads having succeeded.
SIB    (C08) the async body's ALG/DISP summary equals the blocking one's.
"""
import re

from engine.contracts import REGISTRY, contract
from engine.interp import Engine
from engine.lin import Lin
from engine.state import State
from engine.values import Bool, Cont, Enum, Int, Ref, Slice, Struct, Top
from rules import lib_panic

NAMES = {
    "read": {"struct": "read::DltMessageReader", "new": "read::DltMessageReader::<S>::new", "slice": "read::DltMessageReader::<S>::next_message_slice", "coroutine": False,
             "read_exact": r"std::io::Read::read_exact"},
    "stream": {"struct": "stream::DltStreamReader", "new": "stream::DltStreamReader::<S>::new", "slice": "stream::DltStreamReader::<S>::next_message_slice::{closure#0}", "coroutine": True,
               "read_exact": r"futures::AsyncReadExt::read_exact"},
}


def field_index(F, adt, name):
    a = F.adts.get(adt)
    if not a:
        return None
    for i, f in enumerate(a["variants"][0]["fields"]):
        if f["name"] == name:
            return i
    return None


def summary(ctx, mod):
    """Analyse `new` and `next_message_slice` of module `mod`; returns a dict with the abstract summary
    (or None after reporting ANCHOR-MISSING)."""
    F, R = ctx.facts, ctx.report
    N = NAMES[mod]
    for p in (N["new"], N["slice"]):
        if F.body(p) is None:
            R.violation("ANCHOR", "missing|" + p, "anchor function %s not found" % p, kind="ANCHOR-MISSING")
            return None
    i_buf = field_index(F, N["struct"], "buffer")
    i_wsh = field_index(F, N["struct"], "with_storage_header")
    if i_buf is None or i_wsh is None:
        R.violation("ANCHOR", "missing|%s.buffer" % N["struct"], "reader struct has no `buffer` / `with_storage_header` field", kind="ANCHOR-MISSING")
        return None
    # --- INV establishment: analyse `new`
    e0 = Engine(F)
    outs = e0.call_path(N["new"], e0.symbolic_args(F.body(N["new"])))
    K = None
    obj = None
    if len(outs) == 1 and isinstance(outs[0][1], Struct):
        obj = outs[0][1]
        buf = obj.fields[i_buf]
        if isinstance(buf, Cont) and buf.len.is_const():
            K = buf.len.c
    if K is None:
        R.violation("INV", N["new"] + "|buffer-len", "cannot establish the length of the scratch buffer created by %s as a constant" % N["new"], function=N["new"], kind="UNRECOGNISED-SHAPE")
        return None
    lib_panic.report(ctx, e0, "PANIC", entry=N["new"])
    # --- run next_message_slice on a reader satisfying INV, arbitrary buffer content / source / flag
    eng = Engine(F)
    eng.keyed_events = {"io"}
    events = []

    def on_call(eng_, st, fr, f, args, site):
        path = f["resolved"] or f["path"]
        if f["name"] == "read_exact" and len(args) >= 2:
            sl = args[1]
            if isinstance(sl, Ref):
                sl = eng_.M.read_path(st, sl.loc, sl.path)
            events.append({"fn": f["path"], "slice": sl, "key": st.key, "state": st})
            st.key = st.key + (("rx", len(events) - 1),)  # part of the partition key: survives joins
        return None

    eng.on_call = on_call
    st = State()
    fields = list(obj.fields)
    fields[i_wsh] = Bool(("sym", "with_storage_header"))
    src_i = field_index(F, N["struct"], "source")
    st.locs["obj:self"] = Struct(obj.ty, tuple(fields))
    body = F.body(N["slice"])
    selfref = Ref("obj:self", (), True)
    if N["coroutine"]:
        args = [Struct(None, (selfref,)), Top(body["locals"][2]["ty"], "resume")]
    else:
        args = [selfref]
    outs = eng.call_path(N["slice"], args, st=st)
    return {"K": K, "eng": eng, "outs": outs, "events": events, "i_buf": i_buf, "N": N, "body": body}


def check(ctx, mod):
    F, R = ctx.facts, ctx.report
    S = summary(ctx, mod)
    if S is None:
        return None
    N, eng, K = S["N"], S["eng"], S["K"]
    fn = N["slice"]
    b = S["body"]
    fl, ln = b["span"]["f"], b["span"]["l"]
    R.instance("INV", "%s creates the scratch buffer with len = %d" % (N["new"], K))
    if K < 16 + 65535:
        R.violation("INV", N["new"] + "|capacity", "the scratch buffer of a reader built by `new` has %d bytes, fewer than storage header + largest declarable message (65551)" % K, function=N["new"], file=fl, line=ln)
    else:
        R.obligation("INV", N["new"] + "|capacity", "discharged", "len(buffer) = %d >= 16 + 65535" % K)
    # PANIC under INV
    lib_panic.report(ctx, eng, "PANIC", entry=fn)
    # exits
    rows = []
    s = None
    for st, rv in S["outs"]:
        obj = st.locs.get("obj:self")
        buf = obj.fields[S["i_buf"]] if isinstance(obj, Struct) else None
        if not (isinstance(buf, Cont) and buf.len == Lin.const(K)):
            R.violation("INV", fn + "|preserved", "an exit of next_message_slice leaves the scratch buffer with length %s instead of %d: the struct invariant is not preserved" % (getattr(buf, "len", "?"), K), function=fn, file=fl, line=ln)
        else:
            R.obligation("INV", fn + "|preserved|%r" % (st.key,), "discharged", "len(buffer) unchanged at exit")
        reads = [n[1] for n in st.key if n[0] == "rx"]
        wsh = None
        for k in st.key:
            if k[0] == "sym" and k[1] == "with_storage_header":
                wsh = k[2]
        if not isinstance(rv, Enum):
            R.violation("DISP", fn + "|shape", "exit value is not a Result", function=fn, kind="UNRECOGNISED-SHAPE")
            continue
        for vi, fs in rv.variants:
            vn = eng.T.variant_name(rv.ty, vi)
            row = {"with_storage_header": wsh, "reads": len(reads), "result": vn, "key": [k for k in st.key if k[0] in ("io", "out", "ret")]}
            if vn == "Ok":
                sl = fs[0]
                if isinstance(sl, Slice):
                    row["slice"] = (repr(sl.base), repr(sl.off), repr(sl.len))
                    row["empty"] = sl.len.is_const() and sl.len.c == 0
                else:
                    row["slice"] = None
            rows.append((row, st, fs))
    S["rows"] = rows
    storage_len = {True: 16, False: 0}
    n_ok_full = 0
    for row, st, fs in rows:
        R.sample({"exit": {k: v for k, v in row.items()}})
        wsh = row["with_storage_header"]
        if wsh is None:
            R.violation("ALG", fn + "|partition", "exit not partitioned by with_storage_header", function=fn, kind="UNRECOGNISED-SHAPE")
            continue
        s = storage_len[wsh]
        evs = [S["events"][i] for i in [n[1] for n in st.key if n[0] == "rx"]]
        if row["result"] == "Ok" and not row.get("empty"):
            # a message slice: both reads happened and succeeded, slice = buffer[0 .. s+L)
            n_ok_full += 1
            okreads = [k for k in st.key if k[0] == "io"]
            good = len(evs) == 2
            why = []
            # the length symbol: a big-endian u16 read at offset s+2 of the scratch buffer
            L = None
            sl0 = fs[0]
            if isinstance(sl0, Slice):
                cand = sl0.len.sub(Lin.const(s)).single_sym()
                m = re.match(r"^rd\[(.+)@(\d+):(\d+):(\w+)\]$", cand or "")
                if m and sl0.len.sub(Lin.const(s)) == Lin.sym(cand):
                    if (m.group(1), int(m.group(2)), int(m.group(3)), m.group(4)) == (str(buf.id), s + 2, 2, "BE"):
                        L = Lin.sym(cand)
                    else:
                        why.append("the message length is read as a %s-byte %s value at offset %s of %s; the DLT length field is the big-endian u16 at offset %d" % (m.group(3), m.group(4), m.group(2), m.group(1), s + 2))
            if L is None:
                good = False
                why.append("returned slice length %s is not storage length + declared length" % (getattr(sl0, "len", "?"),))
                L = Lin.sym("?L")
            if not good:
                why.append("%d read_exact calls on the path (expected 2)" % len(evs))
            else:
                a, c = evs[0]["slice"], evs[1]["slice"]
                if not (isinstance(a, Slice) and a.off == Lin.const(0) and a.len == Lin.const(s + 4)):
                    good = False
                    why.append("first read fills [%s, +%s) instead of [0, %d)" % (getattr(a, "off", "?"), getattr(a, "len", "?"), s + 4))
                if not (isinstance(c, Slice) and c.off == Lin.const(s + 4) and c.len == L.add(Lin.const(s)).sub(Lin.const(s + 4))):
                    good = False
                    why.append("second read fills [%s, +%s) instead of [%d, %d + declared length)" % (getattr(c, "off", "?"), getattr(c, "len", "?"), s + 4, s))
            sl = fs[0]
            if not (isinstance(sl, Slice) and sl.off == Lin.const(0) and sl.len == L.add(Lin.const(s))):
                good = False
                why.append("returned slice is [%s, +%s) instead of [0, %d + big-endian u16 at offset %d)" % (getattr(sl, "off", "?"), getattr(sl, "len", "?"), s, s + 2))
            if good:
                R.obligation("ALG", fn + "|two-phase|wsh=%s" % wsh, "discharged", "read [0,%d), length = BE u16 @%d, read [%d,%d+L), return [0,%d+L)" % (s + 4, s + 2, s + 4, s, s))
                R.instance("ALG", "with_storage_header=%s: read [0,%d); L = BE u16 @%d; read [%d,%d+L); return [0,%d+L)" % (wsh, s + 4, s + 2, s + 4, s, s))
            else:
                R.violation("ALG", fn + "|two-phase|wsh=%s" % wsh, "two-phase read algebra broken (with_storage_header=%s): %s" % (wsh, "; ".join(why)), function=fn, file=fl, line=ln)
            # DISP: both reads must have succeeded on this path
            oks = [k for k in st.key if k[0] == "io"]
            if len(oks) == 2 and all(k[1] == "ok" for k in oks):
                R.obligation("DISP", fn + "|message-after-two-successful-reads|wsh=%s" % wsh, "discharged", "the Ok(non-empty) exit is reached only through the success outcome of both read_exact calls")
            else:
                R.violation("DISP", fn + "|message-without-successful-reads|wsh=%s" % wsh, "a message slice is returned on a path where a read_exact did not succeed (%s): a truncated tail can be delivered as a message" % (oks,), function=fn, file=fl, line=ln)
        elif row["result"] == "Ok":
            oks = [k for k in st.key if k[0] == "io"]
            if len(evs) == 1 and oks and oks[-1][1] == "err":
                R.obligation("DISP", fn + "|eof-on-first-read|wsh=%s" % wsh, "discharged", "failure of the first read_exact yields Ok(empty) = end of stream")
                R.instance("DISP", "first read fails -> Ok(&[]) (wsh=%s)" % wsh)
            else:
                R.violation("DISP", fn + "|empty-exit|wsh=%s" % wsh, "Ok(empty) is returned on a path with %d reads (%s): end of stream must be reported only when the header read fails" % (len(evs), oks), function=fn, file=fl, line=ln)
        else:
            oks = [k for k in st.key if k[0] == "io"]
            R.instance("DISP", "Err exit after %d reads %s (wsh=%s)" % (len(evs), [k[1] for k in oks], wsh))
            if len(evs) == 1 and oks and oks[0][1] == "ok":
                # REFUSE: after a successful header read the only refusal that leaves the rest of the message unread is
                # for a declared length that cannot hold the 4-byte standard header; any longer message — damaged or
                # not — must be consumed to its declared end, or the reader loses the message boundaries
                rng = declared_range(S, row, st)
                if rng is None:
                    R.notes.append("REFUSE: declared-length range of an Err exit of %s not tracked (not decided)" % fn)
                elif rng[1] <= 3:
                    R.obligation("REFUSE", fn + "|refusal-range|wsh=%s" % wsh, "discharged", "the exit that refuses without the second read has declared length in [%d, %d]" % rng)
                    R.instance("REFUSE", "refusal without consuming only for declared length in [%d, %d] (wsh=%s)" % (rng[0], rng[1], wsh))
                else:
                    R.violation("REFUSE", fn + "|refusal-range|wsh=%s" % wsh, "after the header read the reader can return an error without reading the rest of the message for a declared length in [%d, %d]: only a length below 4 (shorter than its own standard header) may be refused unread, any other message must be consumed to its declared end or the following messages are cut at the wrong place" % rng, function=fn, file=fl, line=ln)
    for _ in range(n_ok_full):
        R.instance("ALG.msg-exit", "message exit")
    S["norm"] = normalised(S)
    return S


def normalised(S):
    """Order-free abstract summary of next_message_slice used by SIB: per exit the flag, the outcome of each read,
    the filled ranges, the result variant and the returned range (buffer identity erased)."""
    out = set()
    for row, st, fs in S["rows"]:
        evs = [S["events"][i] for i in [n[1] for n in st.key if n[0] == "rx"]]
        ranges = tuple((repr(e["slice"].off), _unbase(repr(e["slice"].len))) if isinstance(e["slice"], Slice) else ("?", "?") for e in evs)
        ios = tuple(k[1] for k in st.key if k[0] == "io")
        sl = None
        if row["result"] == "Ok" and isinstance(fs[0], Slice):
            sl = (repr(fs[0].off), _unbase(repr(fs[0].len)))
        errk = None
        if row["result"] == "Err":
            ev = fs[0]
            if isinstance(ev, Enum):
                errk = tuple(sorted(S["eng"].T.variant_name(ev.ty, vi) for vi, _ in ev.variants))
        out.add((row["with_storage_header"], ios, ranges, row["result"], sl, errk, declared_range(S, row, st)))
    return out


def declared_range(S, row, st):
    """Feasible range of the declared message length (big-endian u16 at offset storage+2 of the scratch buffer) on an
    exit reached after the header read succeeded: the guard conditions of the exit, semantically."""
    ios = [k for k in st.key if k[0] == "io"]
    if not ios or ios[0][1] != "ok" or row["with_storage_header"] is None:
        return None
    eng = S["eng"]
    s = 16 if row["with_storage_header"] else 0
    obj = st.locs.get("obj:self")
    buf = obj.fields[S["i_buf"]] if isinstance(obj, Struct) else None
    if not isinstance(buf, Cont):
        return None
    name = "rd[%s@%d:2:BE]" % (buf.id, s + 2)
    if name not in eng.bounds:
        return None
    L = Lin.sym(name)
    lo, hi = 0, 65535
    a, b = 0, 65535
    while a < b:  # largest c with L >= c
        m = (a + b + 1) // 2
        if st.holds(L.sub(Lin.const(m)), eng):
            a = m
        else:
            b = m - 1
    lo = a
    a, b = 0, 65535
    while a < b:  # smallest c with L <= c
        m = (a + b) // 2
        if st.holds(Lin.const(m).sub(L), eng):
            b = m
        else:
            a = m + 1
    hi = a
    return (lo, hi)


def _unbase(s):
    return re.sub(r"rd\[[^@\]]+@", "rd[buffer@", s)


def sibling_check(ctx, S_async):
    """SIB: the async body's summary equals the blocking one's (modulo await plumbing)."""
    from engine.report import Report
    R = ctx.report

    class Sub:
        pass

    sub = Sub()
    sub.facts, sub.prop, sub.report = ctx.facts, ctx.prop, Report(ctx.prop)
    S_sync = check(sub, "read")
    if S_sync is None or "norm" not in S_sync:
        R.violation("SIB", "read|summary", "cannot summarise the blocking reader", kind="UNRECOGNISED-SHAPE")
        return
    a, b = S_async["norm"], S_sync["norm"]
    # error kinds are compared only where both sides resolve them (an unresolved `?` conversion is not a difference)
    def k5(r):
        return r[:5] + (r[6],)

    def wild(r):
        return r[:5] + (None, r[6])

    ka = {k5(r) for r in a if r[5] is None}
    kb = {k5(r) for r in b if r[5] is None}
    a = {r if (r[5] is not None and k5(r) not in kb) else wild(r) for r in a}
    b = {r if (r[5] is not None and k5(r) not in ka) else wild(r) for r in b}
    both = {k5(r) for r in a} & {k5(r) for r in b}
    a = {wild(r) if (k5(r) in both and wild(r) in b) else r for r in a}
    b = {wild(r) if (k5(r) in both and wild(r) in a) else r for r in b}
    if S_async["K"] != S_sync["K"]:
        R.violation("SIB", "capacity", "the async reader's scratch buffer has %d bytes, the blocking reader's %d" % (S_async["K"], S_sync["K"]), function=S_async["N"]["new"])
    else:
        R.obligation("SIB", "capacity", "discharged", "both readers allocate %d bytes" % S_sync["K"])
    for row in sorted(a - b, key=repr):
        R.violation("SIB", "async-only|%r" % (row,), "the async reader has an exit the blocking reader does not have: storage=%s reads=%s ranges=%s result=%s slice=%s err=%s declared-length range=%s" % row, function=S_async["N"]["slice"], file=S_async["body"]["span"]["f"], line=S_async["body"]["span"]["l"])
    for row in sorted(b - a, key=repr):
        R.violation("SIB", "blocking-only|%r" % (row,), "the blocking reader has an exit the async reader does not have: storage=%s reads=%s ranges=%s result=%s slice=%s err=%s declared-length range=%s" % row, function=S_async["N"]["slice"], file=S_async["body"]["span"]["f"], line=S_async["body"]["span"]["l"])
    for row in sorted(a & b, key=repr):
        R.instance("SIB", "common exit storage=%s reads=%s ranges=%s result=%s slice=%s err=%s declared-length range=%s" % row)
        R.obligation("SIB", "exit|%r" % (row,), "discharged", "same exit in both readers")


# read_exact: total; fills the whole slice or returns Err; two outcomes kept apart (keyed event "io")
@contract(r"^std::io::Read::read_exact$|^<.* as std::io::Read>::read_exact$|^std::io::impls::<impl std::io::Read for .*>::read_exact$")
def c_read_exact(eng, st, fr, f, args, site):
    from engine.contracts import ret_ty
    ti = ret_ty(eng, site)
    if ti is None or "io" not in eng.keyed_events:
        return None
    outs = []
    for lab, vi in (("ok", 0), ("err", 1)):
        ns = st.fork()
        ns.key = ns.key + (("io", lab, len([k for k in st.key if k[0] == "io"])),)
        v = eng.M.force(ns, Top(ti, "io#%d" % eng._hv()))
        if isinstance(v, Enum):
            v = Enum(v.ty, tuple(z for z in v.variants if z[0] == vi), v.name)
        outs.append((ns, v))
    return outs


# polling the ReadExact future: Pending (resumed later, no effect on locals), Ready(Ok) or Ready(Err)
@contract(r"^<futures(_util)?::io::(read_exact::)?ReadExact<.*> as (futures|futures_core|std|core)::(future::)?Future>::poll$")
def c_read_exact_poll(eng, st, fr, f, args, site):
    from engine.contracts import ret_ty
    ti = ret_ty(eng, site)
    if ti is None or "io" not in eng.keyed_events:
        return None
    outs = []
    base = eng.M.force(st, Top(ti, "poll#%d" % eng._hv()))
    if not isinstance(base, Enum):
        return None
    for vi, fs in base.variants:
        vn = eng.T.variant_name(base.ty, vi)
        if vn == "Pending":
            outs.append((st.fork(), Enum(base.ty, ((vi, fs),), base.name)))
            continue
        inner = fs[0]
        if isinstance(inner, Top):
            inner = eng.M.force(st, inner)
        if not isinstance(inner, Enum):
            return None
        for lab, ri in (("ok", 0), ("err", 1)):
            ns = st.fork()
            ns.key = ns.key + (("io", lab, len([k for k in st.key if k[0] == "io"])),)
            r = Enum(inner.ty, tuple(z for z in inner.variants if z[0] == ri), inner.name)
            outs.append((ns, Enum(base.ty, ((vi, (r,)),), base.name)))
    return outs


READ_MESSAGE = {"read": ("read::read_message", False), "stream": ("stream::read_message::{closure#0}", True)}


def check_read_message(ctx, mod, rule="MSG"):
    """read_message: the slice the reader delivers and the reader's storage flag are what dlt_message is given; an empty
    slice is end of stream (Ok(None)); otherwise the outcome of dlt_message is passed on unchanged — Ok((_, m)) as
    Ok(Some(m)), every Err as Err (no parse failure is turned into end of stream or into a message); a failure of the
    reader is an Err."""
    from engine.contracts import ret_ty
    F, R = ctx.facts, ctx.report
    path, is_co = READ_MESSAGE[mod]
    b = F.body(path)
    if b is None:
        R.notes.append("%s: %s not found (not decided)" % (rule, path))
        return
    fl, ln = b["span"]["f"], b["span"]["l"]
    eng = Engine(F)
    eng.key_all = True
    seen = {"dm_args": []}

    def on_call(eng_, st, fr, f, args, site):
        p = f.get("resolved") or f["path"]
        q = f["path"]
        if is_co and re.search(r"Future(>)?::poll$", q) and args:
            from engine.contracts import deref as _deref
            from engine.contracts_std import force as _force
            from engine.values import Fn
            fut = args[0]
            if isinstance(fut, Ref):
                fut = _deref(eng_, st, fut)
            fut = _force(eng_, st, fut)
            if isinstance(fut, Fn) and any(it[0] == "closure" and "next_message_slice" in str(it[1]) for it in fut.items):
                rt = ret_ty(eng_, site)
                poll = eng_.M.force(st, Top(rt, "poll#%d" % eng_._hv()))
                if isinstance(poll, Enum):
                    names = {eng_.T.variant_name(poll.ty, vi): (vi, fs) for vi, fs in poll.variants}
                    if "Ready" in names:
                        vi, fs = names["Ready"]
                        pt = fs[0].ty if fs and hasattr(fs[0], "ty") else None
                        return [(st, Enum(poll.ty, ((vi, (Top(pt, "slice_res"),)),), "poll"))]
            return None
        if not is_co and (q.endswith("::next_message_slice") or p.endswith("::next_message_slice")):
            return [(st, Top(ret_ty(eng_, site), "slice_res"))]
        if q == "parse::dlt_message" or p == "parse::dlt_message":
            seen["dm_args"].append([repr(a)[:200] for a in args])
            st.key = st.key + (("rx", "dm"),)
            return [(st, Top(ret_ty(eng_, site), "dm"))]
        if q.endswith("::with_storage_header") and len(args) == 1:
            return [(st, Bool(("sym", "reader.with_storage_header")))]
        return None

    eng.on_call = on_call
    try:
        if is_co:
            # pre-transform coroutine body: _1 = the captured arguments (reader, filter), _2 = the task context
            ups = [l for l in b.get("upvars", [])] if isinstance(b.get("upvars"), list) else []
            env = Top(b["locals"][1]["ty"], "co")
            args = [env, Top(b["locals"][2]["ty"], "resume")]
        else:
            args = eng.symbolic_args(b, names=["reader", "filter_config_opt"])
        outs = eng.call_path(path, args)
    except Exception as ex:
        R.notes.append("%s: %s could not be analysed (%r) (not decided)" % (rule, path, ex))
        return
    n = 0
    bad = []
    for st, rv in outs:
        v = rv
        if not isinstance(v, Enum) or len(v.variants) != 1:
            continue
        res = eng.T.variant_name(v.ty, v.variants[0][0])
        called = any(k[0] == "rx" and k[1] == "dm" for k in st.key)
        dmv = [k[2] for k in st.key if k[0] == "variant" and k[1] == "dm"]
        n += 1
        if called and dmv:
            if dmv[-1] == "Err" and res != "Err":
                bad.append("a failure of dlt_message is returned as %s(..) instead of Err" % res)
            if dmv[-1] == "Ok":
                inner = v.variants[0][1][0] if v.variants[0][1] else None
                on, ofs = (None, None)
                if isinstance(inner, Enum) and len(inner.variants) == 1:
                    on = eng.T.variant_name(inner.ty, inner.variants[0][0])
                    ofs = inner.variants[0][1]
                if res != "Ok" or on != "Some" or "dm.Ok.0" not in repr(ofs):
                    bad.append("a message parsed by dlt_message is returned as %s(%s) instead of Ok(Some(message))" % (res, on))
        elif not called:
            if res == "Ok":
                inner = v.variants[0][1][0] if v.variants[0][1] else None
                on = eng.T.variant_name(inner.ty, inner.variants[0][0]) if isinstance(inner, Enum) and len(inner.variants) == 1 else None
                if on != "None":
                    bad.append("an exit that never parsed the slice returns Ok(%s)" % on)
    for a in seen["dm_args"]:
        if len(a) >= 3 and "with_storage_header" not in a[2]:
            bad.append("dlt_message is given %s as storage-header flag instead of the reader's flag" % a[2][:80])
    if not n or not seen["dm_args"]:
        R.notes.append("%s: no outcome of %s could be followed (not decided)" % (rule, path))
        return
    if bad:
        for m in sorted(set(bad)):
            R.violation(rule, "%s|%s" % (path, m[:60]), "%s: %s" % (path, m), function=path, file=fl, line=ln)
    else:
        R.obligation(rule, path + "|dispatch", "discharged", "empty slice -> Ok(None); Ok of dlt_message -> Ok(Some(message)); Err of dlt_message -> Err; flag = reader flag")
        R.instance(rule, "%s: %d exits, dlt_message outcome passed on unchanged" % (path, n))
