"""C10 — table / flow rules of the statistics module (DESIGN §4/C10).

TAB-C   LevelDistribution::new(level) and add_for_level(level, ..) select, for each of the 8 level classes (no level,
        Fatal..Verbose, Invalid), the same counter, pairwise distinct, the one the property names; `new` sets it to 1
        and every other counter to 0; add_for_level increments it by 1 and leaves the others alone; a missing id is
        inserted with new(level) under that id.
MERGE   LevelDistribution::merge adds field k of the argument into field k for every field of the struct;
        StatisticInfo::merge pairs the three vectors by name and ORs the flag; merge_levels' per-entry closure either
        merges into the entry with the same id or appends a copy — no path drops an incoming entry.
FLOW    collect_statistic: ECU map keyed by standard_header.ecu_id or "NONE", app / context maps by the extended
        header's ids, each with the statistic's log level; contained_non_verbose |= !is_verbose on every path;
        collect() copies map k to vector k.  collect_statistics: Statistic fields come from the header parsers of the
        slice (level = payload of MessageType::Log, is_verbose = header.verbose, none/false without extended header).
"""
import re

from engine.interp import Engine
from engine.lin import Lin
from engine.state import State
from engine.values import Bool, Cont, Enum, Int, Ref, Struct, Top

LD = "statistics::common::LevelDistribution"
NEW = LD + "::new"
LDMERGE = LD + "::merge"
ADD = "statistics::common::add_for_level"
COLLECT1 = "<statistics::common::StatisticInfoCollector as statistics::StatisticCollector>::collect_statistic"
SIMERGE = "statistics::common::StatisticInfo::merge"
MLEVELS = "statistics::common::StatisticInfo::merge_levels"
MLCLOS = MLEVELS + "::{closure#0}"
COLLECT = "statistics::common::StatisticInfoCollector::collect"
SPEC_COUNTER = {"None": "non_log", "Fatal": "log_fatal", "Error": "log_error", "Warn": "log_warning", "Info": "log_info", "Debug": "log_debug", "Verbose": "log_verbose", "Invalid": "log_invalid"}


def fields(F, adt):
    return [f["name"] for f in F.adts[adt]["variants"][0]["fields"]]


def level_class(st, name="level"):
    """Level class of an exit from its key: 'None' or the LogLevel variant (possibly 'A|B')."""
    opt = lvl = None
    for k in st.key:
        if k[0] == "variant" and k[1] == name:
            opt = k[2]
        if k[0] == "variant" and k[1] == name + ".Some.0":
            lvl = k[2]
    if opt == "None":
        return "None"
    return lvl


def name_of(eng, st, v, depth=0):
    from rules.C09 import name_of as n
    return n(eng, st, v, depth)


def or_of(st, c, a, b):
    """Is condition c the value of (a || b) on this path?  `||` short-circuits, so a path on which `a` is known true
    yields the constant true and a path on which it is known false yields `b`."""
    if c is None:
        return False
    if c[0] == "or" and {repr(c[1]), repr(c[2])} == {repr(a), repr(b)}:
        return True
    known = None
    for k in st.key:
        if k[0] == "sym" and a[0] == "sym" and k[1] == a[1]:
            known = bool(k[2])
    if known is True:
        return c == ("const", True)
    if known is False:
        if c == b:
            return True
        # b itself may have been decided on this path
        if b[0] == "not" and b[1][0] == "sym":
            for k in st.key:
                if k[0] == "sym" and k[1] == b[1][1]:
                    return c == ("const", not bool(k[2]))
        if b[0] == "sym":
            for k in st.key:
                if k[0] == "sym" and k[1] == b[1]:
                    return c == ("const", bool(k[2]))
    return False


def check(ctx):
    F, R = ctx.facts, ctx.report
    for p in (NEW, LDMERGE, ADD, COLLECT1, SIMERGE, MLEVELS, MLCLOS, COLLECT):
        if F.body(p) is None:
            R.violation("ANCHOR", "missing|" + p, "anchor function %s not found" % p, kind="ANCHOR-MISSING")
            return
    fl = fields(F, LD)
    if set(fl) != set(SPEC_COUNTER.values()):
        R.violation("TAB-C", LD + "|fields", "LevelDistribution has the counters %s; the property's tally has %s" % (fl, sorted(SPEC_COUNTER.values())), function=LD)
    tab_new = table_new(ctx, fl)
    tab_add = table_add(ctx, fl)
    if tab_new and tab_add:
        for cls in SPEC_COUNTER:
            a, b = tab_new.get(cls), tab_add.get(cls)
            if a and b and a == b == SPEC_COUNTER[cls]:
                R.obligation("TAB-C", "pair|%s" % cls, "discharged", "new and add_for_level both select %s for level class %s" % (a, cls))
        if len(set(tab_new.values())) == 8 and len(set(tab_add.values())) == 8:
            R.obligation("TAB-C", "injective", "discharged", "the 8 level classes select 8 distinct counters")
    ld_merge(ctx, fl)
    si_merge(ctx)
    merge_levels(ctx)
    collect_one(ctx)
    collect_all(ctx)
    R.floor("TAB-C", 16)
    R.floor("MERGE", 8)
    R.floor("FLOW", 4)


def table_new(ctx, fl):
    F, R = ctx.facts, ctx.report
    eng = Engine(F)
    eng.key_all = True
    b = F.body(NEW)
    outs = eng.call_path(NEW, eng.symbolic_args(b, names=["level"]))
    tab = {}
    for st, rv in outs:
        cls = level_class(st)
        if cls is None or not isinstance(rv, Struct):
            R.violation("TAB-C", NEW + "|shape", "LevelDistribution::new exit is not partitioned by level class (%s)" % [k for k in st.key], function=NEW, kind="UNRECOGNISED-SHAPE")
            continue
        vals = []
        for v in rv.fields:
            vals.append(v.lin.c if isinstance(v, Int) and v.lin.is_const() else None)
        ones = [fl[i] for i, v in enumerate(vals) if v == 1]
        zeros = [fl[i] for i, v in enumerate(vals) if v == 0]
        for c in cls.split("|"):
            R.instance("TAB-C", "new(%s): %s" % (c, dict(zip(fl, vals))))
            want = SPEC_COUNTER.get(c)
            if len(ones) == 1 and len(zeros) == len(fl) - 1 and ones[0] == want:
                tab[c] = ones[0]
                R.obligation("TAB-C", "%s|%s" % (NEW, c), "discharged", "%s = 1, all other counters 0" % want)
            else:
                R.violation("TAB-C", "%s|%s" % (NEW, c), "LevelDistribution::new for level class %s yields %s; the tally needs %s = 1 and every other counter 0" % (c, dict(zip(fl, vals)), want), function=NEW, file=b["span"]["f"], line=b["span"]["l"])
    missing = set(SPEC_COUNTER) - set(tab)
    if missing and not R.violations:
        R.violation("TAB-C", NEW + "|classes", "level classes not covered by LevelDistribution::new: %s" % sorted(missing), function=NEW, kind="UNRECOGNISED-SHAPE")
    return tab


def ld_object(eng, st, F, loc, prefix):
    fl = fields(F, LD)
    vals = []
    for f in fl:
        n = "%s.%s" % (prefix, f)
        eng.declare(n, 0, (1 << 62))
        vals.append(Int(Lin.sym(n), None, 64, False, frozenset()))
    ti = eng.T.mk_adt(LD, [])
    st.locs[loc] = Struct(ti, tuple(vals))
    return Ref(loc, (), True)


def table_add(ctx, fl):
    F, R = ctx.facts, ctx.report
    b = F.body(ADD)
    eng = Engine(F)
    eng.key_all = True
    inserts = []

    def on_call(eng_, st, fr, f, args, site):
        p = f["path"]
        if re.search(r"HashMap::<.*>::get_mut$", p):
            from engine.contracts import ret_ty
            rt = ret_ty(eng_, site)
            outs = []
            s1 = st.fork()
            s1.key = s1.key + (("map", "hit"),)
            r = ld_object(eng_, s1, F, "obj:entry", "entry")
            o = eng_.M.force(s1, Top(rt, "getmut#%d" % eng_._hv()))
            outs.append((s1, Enum(o.ty, ((1, (r,)),), "getmut")))
            s0 = st.fork()
            s0.key = s0.key + (("map", "miss"),)
            outs.append((s0, Enum(o.ty, ((0, ()),), "getmut")))
            return outs
        if re.search(r"HashMap::<.*>::insert$", p):
            inserts.append((st, name_of(eng_, st, args[1]), args[2]))
            return None
        return None

    eng.on_call = on_call
    outs = eng.call_path(ADD, eng.symbolic_args(b, names=["level", "ids", "id"]))
    tab = {}
    for st, rv in outs:
        cls = level_class(st)
        hit = any(k == ("map", "hit") for k in st.key)
        if cls is None:
            if hit:
                R.violation("TAB-C", ADD + "|shape", "add_for_level exit on an existing id is not partitioned by level class", function=ADD, kind="UNRECOGNISED-SHAPE")
            continue
        if not hit:
            continue
        e = st.locs.get("obj:entry")
        deltas = {}
        for i, f in enumerate(fl):
            v = e.fields[i]
            d = v.lin.sub(Lin.sym("entry.%s" % f)) if isinstance(v, Int) else None
            deltas[f] = d.c if d is not None and d.is_const() else "?"
        inc = [f for f, d in deltas.items() if d == 1]
        same = [f for f, d in deltas.items() if d == 0]
        for c in cls.split("|"):
            want = SPEC_COUNTER.get(c)
            R.instance("TAB-C", "add_for_level(%s) on an existing id: %s" % (c, {k: v for k, v in deltas.items() if v != 0}))
            if len(inc) == 1 and len(same) == len(fl) - 1 and inc[0] == want:
                tab[c] = inc[0]
                R.obligation("TAB-C", "%s|%s" % (ADD, c), "discharged", "%s += 1, other counters unchanged" % want)
            else:
                R.violation("TAB-C", "%s|%s" % (ADD, c), "add_for_level for level class %s changes the counters by %s; the tally needs %s += 1 and nothing else" % (c, {k: v for k, v in deltas.items() if v != 0}, want), function=ADD, file=b["span"]["f"], line=b["span"]["l"])
    # miss branch: inserted under `id` with new(level)
    ok_ins = [i for i in inserts if i[1] == "id"]
    if inserts and len(ok_ins) == len(inserts):
        R.obligation("TAB-C", ADD + "|insert-key", "discharged", "a missing id is inserted under that id")
    else:
        R.violation("TAB-C", ADD + "|insert-key", "a missing id is not inserted under the id passed in (%s)" % [i[1] for i in inserts], function=ADD, file=b["span"]["f"], line=b["span"]["l"])
    missing = set(SPEC_COUNTER) - set(tab)
    if missing and not any(v["rule"] == "TAB-C" and ADD in v["key"] for v in R.violations):
        R.violation("TAB-C", ADD + "|classes", "level classes not covered by add_for_level: %s" % sorted(missing), function=ADD, kind="UNRECOGNISED-SHAPE")
    return tab


def ld_merge(ctx, fl):
    F, R = ctx.facts, ctx.report
    b = F.body(LDMERGE)
    eng = Engine(F)
    st = State()
    a = ld_object(eng, st, F, "obj:self", "self")
    o = ld_object(eng, st, F, "obj:outside", "outside")
    outs = eng.call_path(LDMERGE, [a, Ref("obj:outside", (), False)], st=st)
    for st2, rv in outs:
        e = st2.locs.get("obj:self")
        for i, f in enumerate(fl):
            v = e.fields[i]
            want = Lin.sym("self.%s" % f).add(Lin.sym("outside.%s" % f))
            if isinstance(v, Int) and v.lin == want:
                R.obligation("MERGE", "%s|%s" % (LDMERGE, f), "discharged", "%s = self.%s + outside.%s" % (f, f, f))
                R.instance("MERGE", "LevelDistribution::merge: %s += outside.%s" % (f, f))
            else:
                R.violation("MERGE", "%s|%s" % (LDMERGE, f), "LevelDistribution::merge leaves %s = %s; merging must add the other distribution's %s (field %s)" % (f, getattr(v, "lin", v), f, f), function=LDMERGE, file=b["span"]["f"], line=b["span"]["l"])


def si_merge(ctx):
    F, R = ctx.facts, ctx.report
    b = F.body(SIMERGE)
    eng = Engine(F)
    calls = []

    def on_call(eng_, st, fr, f, args, site):
        if (f["resolved"] or f["path"]) == MLEVELS:
            calls.append((name_of(eng_, st, args[0]), name_of(eng_, st, args[1])))
            return [(st, __import__("engine.values", fromlist=["UNIT"]).UNIT)]
        return None

    eng.on_call = on_call
    outs = eng.call_path(SIMERGE, eng.symbolic_args(b, names=["self", "stat"]))
    want = {("*self.app_ids", "stat.app_ids"), ("*self.context_ids", "stat.context_ids"), ("*self.ecu_ids", "stat.ecu_ids")}
    if set(calls) == want and len(calls) == 3:
        R.obligation("MERGE", SIMERGE + "|pairs", "discharged", "app_ids, context_ids, ecu_ids merged pairwise by name")
        R.instance("MERGE", "StatisticInfo::merge: %s" % sorted(calls))
    else:
        R.violation("MERGE", SIMERGE + "|pairs", "StatisticInfo::merge merges %s; it must merge app_ids, context_ids and ecu_ids each with the same-named vector of the argument" % sorted(calls), function=SIMERGE, file=b["span"]["f"], line=b["span"]["l"])
    i_flag = fields(F, "statistics::common::StatisticInfo").index("contained_non_verbose")
    for st, rv in outs:
        o = st.locs.get("obj:self")
        v = o.fields[i_flag] if isinstance(o, Struct) else None
        c = v.cond if isinstance(v, Bool) else None
        ok = or_of(st, c, ("sym", "*self.contained_non_verbose"), ("sym", "stat.contained_non_verbose"))
        if ok:
            R.obligation("MERGE", SIMERGE + "|flag", "discharged", "contained_non_verbose = self || stat")
        else:
            R.violation("MERGE", SIMERGE + "|flag", "merged contained_non_verbose is %s, must be self.contained_non_verbose || stat.contained_non_verbose" % (c,), function=SIMERGE, file=b["span"]["f"], line=b["span"]["l"])


def merge_levels(ctx):
    """Per incoming entry: merge into the entry with the same id, or append a copy; nothing is dropped."""
    F, R = ctx.facts, ctx.report
    b = F.body(MLCLOS)
    eng = Engine(F)
    eng.key_all = True
    acts = []

    def on_call(eng_, st, fr, f, args, site):
        p = f["path"]
        lp = f["resolved"] or p
        if p.endswith("Iterator::find") or p.endswith("iter::Iterator::find"):
            from engine.contracts import ret_ty
            rt = ret_ty(eng_, site)
            o = eng_.M.force(st, Top(rt, "find#%d" % eng_._hv()))
            outs = []
            for vi, fs in o.variants:
                ns = st.fork()
                ns.key = ns.key + (("find", "hit" if vi == 1 else "miss"),)
                outs.append((ns, Enum(o.ty, ((vi, fs),), "find")))
            return outs
        if lp == LDMERGE:
            st.notes = st.notes + (("act", "merge", name_of(eng_, st, args[1])),)
            return None
        if re.search(r"Vec::<.*>::push$", p):
            st.notes = st.notes + (("act", "push", repr(args[1])[:300]),)
            return None
        return None

    eng.on_call = on_call
    outs = eng.call_path(MLCLOS, eng.symbolic_args(b, names=["env", "entry"]))
    n = 0
    for st, rv in outs:
        n += 1
        a = [x for x in st.notes if x[0] == "act"]
        hit = any(k == ("find", "hit") for k in st.key)
        miss = any(k == ("find", "miss") for k in st.key)
        extra = [k for k in st.key if k[0] not in ("find", "out") and not (k[0] == "variant" and "find" in str(k[1]))]
        desc = "find=%s actions=%s%s" % ("hit" if hit else "miss" if miss else "?", [x[1] for x in a], (" extra conditions %s" % extra) if extra else "")
        if hit and [x[1] for x in a] == ["merge"] and not extra:
            R.obligation("MERGE", MLCLOS + "|hit", "discharged", "existing id: merged")
        elif miss and [x[1] for x in a] == ["push"] and not extra:
            R.obligation("MERGE", MLCLOS + "|miss", "discharged", "new id: appended")
        else:
            R.violation("MERGE", "%s|path|%s" % (MLCLOS, "hit" if hit else "miss" if miss else "nofind"), "merge_levels handles an incoming entry with [%s]; every entry must either be merged into the entry with the same id or appended (an entry that is skipped loses its counts)" % desc, function=MLCLOS, file=b["span"]["f"], line=b["span"]["l"])
    R.instance("MERGE", "merge_levels closure: %d paths, each merges on hit / appends on miss" % n)
    # the id comparison of the find predicate: owner_id == income_id
    pb = F.body(MLCLOS + "::{closure#0}")
    if pb is None:
        R.violation("MERGE", MLCLOS + "|predicate", "find predicate closure not found", kind="ANCHOR-MISSING")


def collect_one(ctx):
    F, R = ctx.facts, ctx.report
    b = F.body(COLLECT1)
    eng = Engine(F)
    eng.key_all = True
    calls = []

    def on_call(eng_, st, fr, f, args, site):
        if (f["resolved"] or f["path"]) == ADD:
            st.notes = st.notes + (("add", name_of(eng_, st, args[0]), name_of(eng_, st, args[1]), name_of(eng_, st, args[2]), repr(args[2])[:200]),)
            from engine.values import UNIT
            return [(st, UNIT)]
        return None

    eng.on_call = on_call
    outs = eng.call_path(COLLECT1, eng.symbolic_args(b, names=["self", "statistic"]))
    i_flag = fields(F, "statistics::common::StatisticInfoCollector").index("contained_non_verbose")
    n = 0
    for st, rv in outs:
        n += 1
        kd = {k[1]: k[2] for k in st.key if k[0] == "variant"}
        ecu = kd.get("statistic.standard_header.ecu_id")
        ext = kd.get("statistic.extended_header")
        adds = [x for x in st.notes if x[0] == "add"]
        want = []
        want.append(("*self.ecu_ids", "statistic.standard_header.ecu_id.Some.0" if ecu == "Some" else "NONE"))
        if ext == "Some":
            want.append(("*self.app_ids", "statistic.extended_header.Some.0.application_id"))
            want.append(("*self.context_ids", "statistic.extended_header.Some.0.context_id"))
        got = []
        bad_level = False
        for _, lvl, mp, idn, idrep in adds:
            if lvl != "statistic.log_level":
                bad_level = True
            if "NONE" in idrep or "4e4f4e45" in idrep:
                idn = "NONE"
            got.append((mp, idn))
        part = "ecu=%s ext=%s" % (ecu, ext)
        if got == want and not bad_level:
            R.obligation("FLOW", "%s|adds|%s" % (COLLECT1, part), "discharged", "counted under %s" % want)
            R.instance("FLOW", "collect_statistic [%s]: %s" % (part, want))
        else:
            R.violation("FLOW", "%s|adds|%s" % (COLLECT1, part), "collect_statistic counts the message under %s (level source ok: %s); the tally needs %s, each with the message's log level [%s]" % (got, not bad_level, want, part), function=COLLECT1, file=b["span"]["f"], line=b["span"]["l"])
        o = st.locs.get("obj:self")
        v = o.fields[i_flag] if isinstance(o, Struct) else None
        c = v.cond if isinstance(v, Bool) else None
        a = ("sym", "*self.contained_non_verbose")
        nb = ("not", ("sym", "statistic.is_verbose"))
        ok = or_of(st, c, a, nb)
        if ok:
            R.obligation("FLOW", "%s|flag|%s" % (COLLECT1, part), "discharged", "contained_non_verbose |= !is_verbose")
        else:
            R.violation("FLOW", "%s|flag|%s" % (COLLECT1, "ext=%s" % ext), "after collect_statistic contained_non_verbose is %s; it must become (previous || !statistic.is_verbose) on every path [%s]" % (c, part), function=COLLECT1, file=b["span"]["f"], line=b["span"]["l"])
    if n < 4:
        R.violation("FLOW", COLLECT1 + "|paths", "only %d paths analysed (floor 4)" % n, kind="ANCHOR-MISSING")


def collect_all(ctx):
    """collect(): map k -> vector k, flag copied."""
    F, R = ctx.facts, ctx.report
    b = F.body(COLLECT)
    eng = Engine(F)
    seq = []

    def on_call(eng_, st, fr, f, args, site):
        p = f["path"]
        if p.endswith("IntoIterator>::into_iter") or p.endswith("IntoIterator::into_iter"):
            from engine.contracts import ret_ty
            return [(st, Top(ret_ty(eng_, site), "iter(%s)" % name_of(eng_, st, args[0])))]
        if p.endswith("Iterator::collect"):
            from engine.contracts import ret_ty
            return [(st, Top(ret_ty(eng_, site), "collect(%s)" % name_of(eng_, st, args[0])))]
        return None

    eng.on_call = on_call
    outs = eng.call_path(COLLECT, eng.symbolic_args(b, names=["self"]))
    fs = fields(F, "statistics::common::StatisticInfo")
    for st, rv in outs:
        if not isinstance(rv, Struct):
            R.violation("FLOW", COLLECT + "|shape", "collect() result is not a StatisticInfo value", function=COLLECT, kind="UNRECOGNISED-SHAPE")
            continue
        for i, f in enumerate(fs):
            rep = repr(rv.fields[i])
            want = "self.%s" % f
            others = [o for o in fs if o != f]
            if want in rep and not any(("self.%s" % o) in rep for o in others):
                R.obligation("FLOW", "%s|%s" % (COLLECT, f), "discharged", "%s <- self.%s" % (f, f))
            else:
                R.violation("FLOW", "%s|%s" % (COLLECT, f), "collect() fills %s from %s instead of the collector's %s" % (f, rep[:120], f), function=COLLECT, file=b["span"]["f"], line=b["span"]["l"])
        R.instance("FLOW", "collect(): %s copied field to field" % fs)
