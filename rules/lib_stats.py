"""C10 — table / flow rules of the statistics module (DESIGN §4/C10).

TAB-C   LevelDistribution::new(level) and add_for_level(level, ..) select, for each of the 8 level classes (no level,
        Fatal..Verbose, Invalid), the same counter, pairwise distinct, the one the property names; `new` sets it to 1
        and every other counter to 0; add_for_level increments it by 1 and leaves the others alone; a missing id is
        inserted with new(level) under that id.
MERGE   LevelDistribution::merge adds field k of the argument into field k for every field of the struct;
        StatisticInfo::merge pairs the three vectors by name and ORs the flag; merge_levels' per-entry closure either
        merges into the entry with the same id or appends a copy — no path drops an incoming entry.
FLOW    collect_statistic: ECU map keyed by standard_header.ecu_id or "NONE", app / context maps by the extended
        header's ids, each with the statistic's log level; contained_non_verbose |= !is_verbose on every path;
        collect() copies map k to vector k.  collect_statistics: Statistic fields come from the header parsers of the
        slice (level = payload of MessageType::Log, is_verbose = header.verbose, none/false without extended header).
"""
import re

from engine.interp import Engine
from engine.lin import Lin
from engine.state import State
from engine.values import Bool, Cont, Enum, Int, Ref, Struct, Top

LD = "statistics::common::LevelDistribution"
NEW = LD + "::new"
LDMERGE = LD + "::merge"
ADD = "statistics::common::add_for_level"
COLLECT1 = "<statistics::common::StatisticInfoCollector as statistics::StatisticCollector>::collect_statistic"
SIMERGE = "statistics::common::StatisticInfo::merge"
MLEVELS = "statistics::common::StatisticInfo::merge_levels"
MLCLOS = MLEVELS + "::{closure#0}"
COLLECT = "statistics::common::StatisticInfoCollector::collect"
SPEC_COUNTER = {"None": "non_log", "Fatal": "log_fatal", "Error": "log_error", "Warn": "log_warning", "Info": "log_info", "Debug": "log_debug", "Verbose": "log_verbose", "Invalid": "log_invalid"}


def fields(F, adt):
    return [f["name"] for f in F.adts[adt]["variants"][0]["fields"]]


def level_class(st, name="level"):
    """Level class of an exit from its key: 'None' or the LogLevel variant (possibly 'A|B')."""
    opt = lvl = None
    for k in st.key:
        if k[0] == "variant" and k[1] == name:
            opt = k[2]
        if k[0] == "variant" and k[1] == name + ".Some.0":
            lvl = k[2]
    if opt == "None":
        return "None"
    return lvl


def name_of(eng, st, v, depth=0):
    from rules.C09 import name_of as n
    return n(eng, st, v, depth)


def or_of(st, c, a, b):
    """Is condition c the value of (a || b) on this path?  Evaluated semantically: the atoms decided on the path
    (key literals) are substituted into both sides; `||` written as short-circuit branches, as `if !x { flag = true }`
    or as a plain `|` all compare equal."""
    if c is None:
        return False
    known = {}
    for k in st.key:
        if k[0] == "sym":
            known[k[1]] = bool(k[2])

    def simp(x):
        if x[0] == "const":
            return ("const", bool(x[1]))
        if x[0] == "sym":
            return ("const", known[x[1]]) if x[1] in known else x
        if x[0] == "not":
            y = simp(x[1])
            return ("const", not y[1]) if y[0] == "const" else ("not", y)
        if x[0] in ("or", "and"):
            l, r = simp(x[1]), simp(x[2])
            if x[0] == "or":
                if ("const", True) in (l, r):
                    return ("const", True)
                if l == ("const", False):
                    return r
                if r == ("const", False):
                    return l
            else:
                if ("const", False) in (l, r):
                    return ("const", False)
                if l == ("const", True):
                    return r
                if r == ("const", True):
                    return l
            return (x[0],) + tuple(sorted((l, r), key=repr))
        return x

    return simp(c) == simp(("or", a, b))


def merge_fn(ctx):
    """The per-list merge helper: `StatisticInfo::merge_levels`, or — after a rename / move — the local function
    StatisticInfo::merge calls that reaches LevelDistribution::merge."""
    F = ctx.facts
    if F.body(MLEVELS) is not None:
        return MLEVELS
    from engine import cfg
    b = F.body(SIMERGE)
    if b is None:
        return None
    out = []
    for blk in b["blocks"]:
        f = cfg.callee_of(blk["term"])
        if not f or blk["cleanup"]:
            continue
        p = f.get("resolved") or f["path"]
        if p in F.bodies and not F.body(p)["derived"] and p not in out and p != LDMERGE:
            if LDMERGE in set(ctx.cg.local_reachable([p])):
                out.append(p)
    return out[0] if len(out) == 1 else None


def check(ctx):
    F, R = ctx.facts, ctx.report
    global MLEVELS, MLCLOS
    mf = merge_fn(ctx)
    if mf is not None and mf != MLEVELS:
        R.notes.append("the per-list merge helper is %s" % mf)
        MLEVELS, MLCLOS = mf, mf + "::{closure#0}"
    for p in (NEW, LDMERGE, ADD, COLLECT1, SIMERGE, MLEVELS, COLLECT):
        if F.body(p) is None:
            R.violation("ANCHOR", "missing|" + p, "anchor function %s not found" % p, kind="ANCHOR-MISSING")
            return
    fl = fields(F, LD)
    if set(fl) != set(SPEC_COUNTER.values()):
        R.violation("TAB-C", LD + "|fields", "LevelDistribution has the counters %s; the property's tally has %s" % (fl, sorted(SPEC_COUNTER.values())), function=LD)
    tab_new = table_new(ctx, fl)
    tab_add = table_add(ctx, fl)
    if tab_new and tab_add:
        for cls in SPEC_COUNTER:
            a, b = tab_new.get(cls), tab_add.get(cls)
            if a and b and a == b == SPEC_COUNTER[cls]:
                R.obligation("TAB-C", "pair|%s" % cls, "discharged", "new and add_for_level both select %s for level class %s" % (a, cls))
        if len(set(tab_new.values())) == 8 and len(set(tab_add.values())) == 8:
            R.obligation("TAB-C", "injective", "discharged", "the 8 level classes select 8 distinct counters")
    ld_merge(ctx, fl)
    si_merge(ctx)
    merge_levels(ctx)
    collect_one(ctx)
    collect_all(ctx)
    R.floor("TAB-C", 16)
    R.floor("MERGE", 8)
    R.floor("FLOW", 4)


def table_new(ctx, fl):
    F, R = ctx.facts, ctx.report
    eng = Engine(F)
    eng.key_all = True
    b = F.body(NEW)
    outs = eng.call_path(NEW, eng.symbolic_args(b, names=["level"]))
    tab = {}
    for st, rv in outs:
        cls = level_class(st)
        if cls is None or not isinstance(rv, Struct):
            R.violation("TAB-C", NEW + "|shape", "LevelDistribution::new exit is not partitioned by level class (%s)" % [k for k in st.key], function=NEW, kind="UNRECOGNISED-SHAPE")
            continue
        vals = []
        for v in rv.fields:
            vals.append(v.lin.c if isinstance(v, Int) and v.lin.is_const() else None)
        ones = [fl[i] for i, v in enumerate(vals) if v == 1]
        zeros = [fl[i] for i, v in enumerate(vals) if v == 0]
        for c in cls.split("|"):
            R.instance("TAB-C", "new(%s): %s" % (c, dict(zip(fl, vals))))
            want = SPEC_COUNTER.get(c)
            if len(ones) == 1 and len(zeros) == len(fl) - 1 and ones[0] == want:
                tab[c] = ones[0]
                R.obligation("TAB-C", "%s|%s" % (NEW, c), "discharged", "%s = 1, all other counters 0" % want)
            else:
                R.violation("TAB-C", "%s|%s" % (NEW, c), "LevelDistribution::new for level class %s yields %s; the tally needs %s = 1 and every other counter 0" % (c, dict(zip(fl, vals)), want), function=NEW, file=b["span"]["f"], line=b["span"]["l"])
    missing = set(SPEC_COUNTER) - set(tab)
    if missing and not R.violations:
        R.violation("TAB-C", NEW + "|classes", "level classes not covered by LevelDistribution::new: %s" % sorted(missing), function=NEW, kind="UNRECOGNISED-SHAPE")
    return tab


def ld_object(eng, st, F, loc, prefix):
    fl = fields(F, LD)
    vals = []
    for f in fl:
        n = "%s.%s" % (prefix, f)
        eng.declare(n, 0, (1 << 62))
        vals.append(Int(Lin.sym(n), None, 64, False, frozenset()))
    ti = eng.T.mk_adt(LD, [])
    st.locs[loc] = Struct(ti, tuple(vals))
    return Ref(loc, (), True)


def map_hooks(F, inserts):
    """Hooks modelling the HashMap API on the id maps, whichever style the code uses (get_mut / insert, entry +
    Occupied / Vacant, or_insert*): every way of obtaining `&mut LevelDistribution` for the id yields either the
    existing entry (object obj:entry, key item ("map","hit")) or a freshly inserted value (object obj:ins,
    ("map","miss")); insertions are recorded with the key they use."""
    def ret(eng_, site):
        from engine.contracts import ret_ty
        return ret_ty(eng_, site)

    def hit_miss(eng_, st):
        s1 = st.fork()
        s1.key = s1.key + (("map", "hit"),)
        r = ld_object(eng_, s1, F, "obj:entry", "entry")
        s0 = st.fork()
        s0.key = s0.key + (("map", "miss"),)
        return s1, r, s0

    def store_inserted(eng_, st, keyname, val):
        if isinstance(val, Top):
            val = eng_.M.force(st, val)
        st.locs["obj:ins"] = val
        inserts.append((st, keyname, val))
        return Ref("obj:ins", (), True)

    def on_call(eng_, st, fr, f, args, site):
        p = f["path"]
        if re.search(r"HashMap::<.*>::get_mut$", p):
            rt = ret(eng_, site)
            s1, r, s0 = hit_miss(eng_, st)
            o = eng_.M.force(s1, Top(rt, "getmut#%d" % eng_._hv()))
            return [(s1, Enum(o.ty, ((1, (r,)),), "getmut")), (s0, Enum(o.ty, ((0, ()),), "getmut"))]
        if re.search(r"HashMap::<.*>::insert$", p):
            store_inserted(eng_, st, name_of(eng_, st, args[1]), args[2])
            return None
        if re.search(r"HashMap::<.*>::entry$", p):
            rt = ret(eng_, site)
            s1, r, s0 = hit_miss(eng_, st)
            o = eng_.M.force(s1, Top(rt, "entry#%d" % eng_._hv()))
            names = {eng_.T.variant_name(o.ty, vi): vi for vi, _ in o.variants}
            kn = name_of(eng_, st, args[1])
            occ = Struct(None, (("OCC", r),))
            vac = Struct(None, (("VAC", kn),))
            return [(s1, Enum(o.ty, ((names["Occupied"], (occ,)),), "entry")), (s0, Enum(o.ty, ((names["Vacant"], (vac,)),), "entry"))]
        m = re.search(r"OccupiedEntry::<.*>::(get_mut|into_mut|get)$", p)
        if m:
            e = args[0]
            if isinstance(e, Ref):
                e = eng_.M.read_path(st, e.loc, e.path)
            if isinstance(e, Struct) and e.fields and isinstance(e.fields[0], tuple) and e.fields[0][0] == "OCC":
                return [(st, e.fields[0][1])]
            return None
        if re.search(r"VacantEntry::<.*>::insert$", p):
            e = args[0]
            if isinstance(e, Ref):
                e = eng_.M.read_path(st, e.loc, e.path)
            if isinstance(e, Struct) and e.fields and isinstance(e.fields[0], tuple) and e.fields[0][0] == "VAC":
                return [(st, store_inserted(eng_, st, e.fields[0][1], args[1]))]
            return None
        m = re.search(r"Entry::<.*>::(or_insert|or_insert_with|or_default)$", p)
        if m:
            e = args[0]
            if isinstance(e, Enum) and len(e.variants) == 1:
                vn = eng_.T.variant_name(e.ty, e.variants[0][0])
                inner = e.variants[0][1][0]
                if vn == "Occupied" and isinstance(inner, Struct) and inner.fields[0][0] == "OCC":
                    return [(st, inner.fields[0][1])]
                if vn == "Vacant" and isinstance(inner, Struct) and inner.fields[0][0] == "VAC":
                    if m.group(1) == "or_insert":
                        v = args[1]
                    elif m.group(1) == "or_default":
                        v = None
                        res = eng_.call_path(LD.replace("LevelDistribution", "LevelDistribution") and "<%s as std::default::Default>::default" % LD, [], st=st) if eng_.F.body("<%s as std::default::Default>::default" % LD) else []
                        v = res[0][1] if len(res) == 1 else Top(eng_.T.mk_adt(LD, []), "default")
                    else:
                        from engine.values import Fn
                        res = eng_.apply_fn(st, fr, args[1], [], site) if isinstance(args[1], Fn) else None
                        v = res[0][1] if res and len(res) == 1 else Top(eng_.T.mk_adt(LD, []), "orinsert")
                    return [(st, store_inserted(eng_, st, inner.fields[0][1], v))]
            return None
        return None

    return on_call


def table_add(ctx, fl):
    F, R = ctx.facts, ctx.report
    b = F.body(ADD)
    eng = Engine(F)
    eng.key_all = True
    inserts = []
    eng.on_call = map_hooks(F, inserts)
    outs = eng.call_path(ADD, eng.symbolic_args(b, names=["level", "ids", "id"]))
    tab = {}
    n_miss = 0
    for st, rv in outs:
        cls = level_class(st)
        hit = any(k == ("map", "hit") for k in st.key)
        miss = any(k == ("map", "miss") for k in st.key)
        if cls is None:
            if hit:
                R.violation("TAB-C", ADD + "|shape", "add_for_level exit on an existing id is not partitioned by level class", function=ADD, kind="UNRECOGNISED-SHAPE")
            continue
        if hit:
            e = st.locs.get("obj:entry")
            deltas = {}
            for i, f in enumerate(fl):
                v = e.fields[i]
                d = v.lin.sub(Lin.sym("entry.%s" % f)) if isinstance(v, Int) else None
                deltas[f] = d.c if d is not None and d.is_const() else "?"
            inc = [f for f, d in deltas.items() if d == 1]
            same = [f for f, d in deltas.items() if d == 0]
            for c in cls.split("|"):
                want = SPEC_COUNTER.get(c)
                R.instance("TAB-C", "add_for_level(%s) on an existing id: %s" % (c, {k: v for k, v in deltas.items() if v != 0}))
                if len(inc) == 1 and len(same) == len(fl) - 1 and inc[0] == want:
                    tab[c] = inc[0]
                    R.obligation("TAB-C", "%s|%s" % (ADD, c), "discharged", "%s += 1, other counters unchanged" % want)
                else:
                    R.violation("TAB-C", "%s|%s" % (ADD, c), "add_for_level for level class %s changes the counters by %s; the tally needs %s += 1 and nothing else" % (c, {k: v for k, v in deltas.items() if v != 0}, want), function=ADD, file=b["span"]["f"], line=b["span"]["l"])
        elif miss:
            # the value inserted for a new id (after any further update on this path) is the unit tally of the level
            n_miss += 1
            v = st.locs.get("obj:ins")
            vals = [x.lin.c if isinstance(x, Int) and x.lin.is_const() else None for x in v.fields] if isinstance(v, Struct) else None
            for c in cls.split("|"):
                want = SPEC_COUNTER.get(c)
                good = vals is not None and all((vals[i] == (1 if f == want else 0)) for i, f in enumerate(fl))
                if good:
                    R.obligation("TAB-C", "%s|new-id|%s" % (ADD, c), "discharged", "new id inserted with %s = 1, others 0" % want)
                else:
                    R.violation("TAB-C", "%s|new-id|%s" % (ADD, c), "add_for_level inserts %s for a new id with level class %s; the tally needs %s = 1 and every other counter 0" % (dict(zip(fl, vals)) if vals else v, c, want), function=ADD, file=b["span"]["f"], line=b["span"]["l"])
    ok_ins = [i for i in inserts if i[1] == "id"]
    if inserts and len(ok_ins) == len(inserts) and n_miss:
        R.obligation("TAB-C", ADD + "|insert-key", "discharged", "a missing id is inserted under that id")
    else:
        R.violation("TAB-C", ADD + "|insert-key", "a missing id is not inserted under the id passed in (insert keys: %s)" % sorted({i[1] for i in inserts}), function=ADD, file=b["span"]["f"], line=b["span"]["l"])
    missing = set(SPEC_COUNTER) - set(tab)
    if missing and not any(v["rule"] == "TAB-C" and ADD in v["key"] for v in R.violations):
        R.violation("TAB-C", ADD + "|classes", "level classes not covered by add_for_level: %s" % sorted(missing), function=ADD, kind="UNRECOGNISED-SHAPE")
    return tab


def ld_merge(ctx, fl):
    F, R = ctx.facts, ctx.report
    b = F.body(LDMERGE)
    eng = Engine(F)
    st = State()
    a = ld_object(eng, st, F, "obj:self", "self")
    o = ld_object(eng, st, F, "obj:outside", "outside")
    outs = eng.call_path(LDMERGE, [a, Ref("obj:outside", (), False)], st=st)
    for st2, rv in outs:
        e = st2.locs.get("obj:self")
        for i, f in enumerate(fl):
            v = e.fields[i]
            want = Lin.sym("self.%s" % f).add(Lin.sym("outside.%s" % f))
            if isinstance(v, Int) and v.lin == want:
                R.obligation("MERGE", "%s|%s" % (LDMERGE, f), "discharged", "%s = self.%s + outside.%s" % (f, f, f))
                R.instance("MERGE", "LevelDistribution::merge: %s += outside.%s" % (f, f))
            else:
                R.violation("MERGE", "%s|%s" % (LDMERGE, f), "LevelDistribution::merge leaves %s = %s; merging must add the other distribution's %s (field %s)" % (f, getattr(v, "lin", v), f, f), function=LDMERGE, file=b["span"]["f"], line=b["span"]["l"])


def si_merge(ctx):
    F, R = ctx.facts, ctx.report
    b = F.body(SIMERGE)
    eng = Engine(F)
    calls = []

    def on_call(eng_, st, fr, f, args, site):
        if (f["resolved"] or f["path"]) == MLEVELS:
            calls.append((name_of(eng_, st, args[0]), name_of(eng_, st, args[1])))
            return [(st, __import__("engine.values", fromlist=["UNIT"]).UNIT)]
        return None

    eng.on_call = on_call
    outs = eng.call_path(SIMERGE, eng.symbolic_args(b, names=["self", "stat"]))
    want = {("*self.app_ids", "stat.app_ids"), ("*self.context_ids", "stat.context_ids"), ("*self.ecu_ids", "stat.ecu_ids")}
    if set(calls) == want and len(calls) == 3:
        R.obligation("MERGE", SIMERGE + "|pairs", "discharged", "app_ids, context_ids, ecu_ids merged pairwise by name")
        R.instance("MERGE", "StatisticInfo::merge: %s" % sorted(calls))
    else:
        R.violation("MERGE", SIMERGE + "|pairs", "StatisticInfo::merge merges %s; it must merge app_ids, context_ids and ecu_ids each with the same-named vector of the argument" % sorted(calls), function=SIMERGE, file=b["span"]["f"], line=b["span"]["l"])
    i_flag = fields(F, "statistics::common::StatisticInfo").index("contained_non_verbose")
    for st, rv in outs:
        o = st.locs.get("obj:self")
        v = o.fields[i_flag] if isinstance(o, Struct) else None
        c = v.cond if isinstance(v, Bool) else (("sym", v.name) if isinstance(v, Top) else None)  # an untouched field is still its initial value
        ok = or_of(st, c, ("sym", "*self.contained_non_verbose"), ("sym", "stat.contained_non_verbose"))
        if ok:
            R.obligation("MERGE", SIMERGE + "|flag", "discharged", "contained_non_verbose = self || stat")
        else:
            R.violation("MERGE", SIMERGE + "|flag", "merged contained_non_verbose is %s, must be self.contained_non_verbose || stat.contained_non_verbose" % (c,), function=SIMERGE, file=b["span"]["f"], line=b["span"]["l"])


def merge_levels(ctx):
    """Per incoming entry exactly one of {LevelDistribution::merge into an owner entry, push of a new entry} happens:
    counted over every path of the per-entry code (the body of the loop over the incoming entries, or the closure handed
    to for_each).  A path that does neither drops the entry's counts; one that does both counts them twice."""
    F, R = ctx.facts, ctx.report
    from engine import cfg
    from rules import lib_loop
    is_act = lambda f: (f.get("resolved") or f["path"]) == LDMERGE or f["path"] == LDMERGE or re.search(r"Vec::<.*>::push$", f["path"]) is not None
    # the per-entry code: the function (or closure) reachable from StatisticInfo::merge that merges distributions
    if F.body(MLEVELS) is not None:
        cands = [(MLEVELS, F.body(MLEVELS))] + [(p, F.body(p)) for p in sorted(F.bodies) if p.startswith(MLEVELS + "::{closure")]
        cands = [(p, b_) for p, b_ in cands if any(cfg.callee_of(blk["term"]) and is_act(cfg.callee_of(blk["term"])) for blk in b_["blocks"] if not blk["cleanup"])] or cands
    else:
        reach = [p for p in sorted(ctx.cg.local_reachable([SIMERGE])) if F.body(p) is not None and not F.body(p)["derived"] and p != LDMERGE and not p.startswith(LDMERGE + "::")]
        reach += [p for p in sorted(F.bodies) if any(p.startswith(r + "::{closure") for r in reach) and p not in reach]
        calls_merge = lambda b: any(cfg.callee_of(blk["term"]) and ((cfg.callee_of(blk["term"]).get("resolved") or cfg.callee_of(blk["term"])["path"]) == LDMERGE or cfg.callee_of(blk["term"])["path"] == LDMERGE) for blk in b["blocks"] if not blk["cleanup"])
        cands = [(p, F.body(p)) for p in reach if calls_merge(F.body(p))]
    region = None
    for path, body in cands:
        acts = [bi for bi, blk in enumerate(body["blocks"]) if not blk["cleanup"] and cfg.callee_of(blk["term"]) and is_act(cfg.callee_of(blk["term"]))]
        if not acts:
            continue
        loops = [lp for lp in cfg.natural_loops(body) if any(a in lp["blocks"] for a in acts)]
        if loops:
            lp = max(loops, key=lambda l: len(l["blocks"]))
            mm = lib_loop.path_call_counts(body, lp, is_act)
            region = ("loop body of %s" % path, mm, body, path)
        else:
            mm = entry_return_counts(body, is_act)
            region = ("body of %s" % path, mm, body, path)
        break
    if region is None:
        R.violation("MERGE", MLEVELS + "|region", "cannot find the per-entry code of merge_levels (no call of LevelDistribution::merge / Vec::push)", function=MLEVELS, kind="UNRECOGNISED-SHAPE")
        return
    what, mm, body, path = region
    R.instance("MERGE", "merge_levels: per entry (%s) merge-or-push count min=%s max=%s" % (what, mm[0] if mm else None, mm[1] if mm else None))
    if mm is not None and mm == (1, 1):
        R.obligation("MERGE", MLEVELS + "|one-action-per-entry", "discharged", "every path handles an incoming entry by exactly one merge or push")
    else:
        R.violation("MERGE", "%s|path|actions=%s..%s" % (MLEVELS, mm[0] if mm else "?", mm[1] if mm else "?"), "merge_levels handles an incoming entry with %s..%s merge/push actions on some path; every entry must be merged into the entry with the same id or appended exactly once (a skipped entry loses its counts)" % (mm[0] if mm else "?", mm[1] if mm else "?"), function=path, file=body["span"]["f"], line=body["span"]["l"])


def entry_return_counts(body, pred):
    """(min, max) number of calls satisfying pred over all entry -> return paths of a loop-free body."""
    from engine import cfg
    sc = cfg.succs(body)
    memo = {}
    INF = float("inf")
    stack = set()

    def w(b):
        f = cfg.callee_of(body["blocks"][b]["term"])
        return 1 if (f is not None and pred(f)) else 0

    def go(b):
        if b in memo:
            return memo[b]
        if b in stack:
            return (0, INF)
        stack.add(b)
        t = body["blocks"][b]["term"]
        best = (0, 0) if t["k"] == "ret" else None
        for s_ in sc[b]:
            if body["blocks"][s_]["cleanup"]:
                continue
            r = go(s_)
            if r is None:
                continue
            best = r if best is None else (min(best[0], r[0]), max(best[1], r[1]))
        stack.discard(b)
        if best is not None:
            best = (best[0] + w(b), best[1] + w(b))
        memo[b] = best
        return best

    return go(0)


def collect_one(ctx):
    F, R = ctx.facts, ctx.report
    b = F.body(COLLECT1)
    eng = Engine(F)
    eng.key_all = True
    calls = []

    def on_call(eng_, st, fr, f, args, site):
        if (f["resolved"] or f["path"]) == ADD:
            st.notes = st.notes + (("add", name_of(eng_, st, args[0]), name_of(eng_, st, args[1]), name_of(eng_, st, args[2]), repr(args[2])[:200]),)
            from engine.values import UNIT
            return [(st, UNIT)]
        return None

    eng.on_call = on_call
    outs = eng.call_path(COLLECT1, eng.symbolic_args(b, names=["self", "statistic"]))
    i_flag = fields(F, "statistics::common::StatisticInfoCollector").index("contained_non_verbose")
    n = 0
    for st, rv in outs:
        n += 1
        kd = {k[1]: k[2] for k in st.key if k[0] == "variant"}
        ecu = kd.get("statistic.standard_header.ecu_id")
        ext = kd.get("statistic.extended_header")
        adds = [x for x in st.notes if x[0] == "add"]
        want = []
        want.append(("*self.ecu_ids", "statistic.standard_header.ecu_id.Some.0" if ecu == "Some" else "NONE"))
        if ext == "Some":
            want.append(("*self.app_ids", "statistic.extended_header.Some.0.application_id"))
            want.append(("*self.context_ids", "statistic.extended_header.Some.0.context_id"))
        got = []
        bad_level = False
        for _, lvl, mp, idn, idrep in adds:
            if lvl != "statistic.log_level":
                bad_level = True
            if "NONE" in idrep or "4e4f4e45" in idrep:
                idn = "NONE"
            else:
                m_ = re.search(r"'(const:[^']+)'", idrep)
                if m_ and eng.const_bytes.get(m_.group(1)) == b"NONE":
                    idn = "NONE"
            got.append((mp, idn))
        part = "ecu=%s ext=%s" % (ecu, ext)
        if got == want and not bad_level:
            R.obligation("FLOW", "%s|adds|%s" % (COLLECT1, part), "discharged", "counted under %s" % want)
            R.instance("FLOW", "collect_statistic [%s]: %s" % (part, want))
        else:
            R.violation("FLOW", "%s|adds|%s" % (COLLECT1, part), "collect_statistic counts the message under %s (level source ok: %s); the tally needs %s, each with the message's log level [%s]" % (got, not bad_level, want, part), function=COLLECT1, file=b["span"]["f"], line=b["span"]["l"])
        o = st.locs.get("obj:self")
        v = o.fields[i_flag] if isinstance(o, Struct) else None
        c = v.cond if isinstance(v, Bool) else (("sym", v.name) if isinstance(v, Top) else None)  # an untouched field is still its initial value
        a = ("sym", "*self.contained_non_verbose")
        nb = ("not", ("sym", "statistic.is_verbose"))
        ok = or_of(st, c, a, nb)
        if ok:
            R.obligation("FLOW", "%s|flag|%s" % (COLLECT1, part), "discharged", "contained_non_verbose |= !is_verbose")
        else:
            R.violation("FLOW", "%s|flag|%s" % (COLLECT1, "ext=%s" % ext), "after collect_statistic contained_non_verbose is %s; it must become (previous || !statistic.is_verbose) on every path [%s]" % (c, part), function=COLLECT1, file=b["span"]["f"], line=b["span"]["l"])
    if n < 4:
        R.violation("FLOW", COLLECT1 + "|paths", "only %d paths analysed (floor 4)" % n, kind="ANCHOR-MISSING")


def collect_all(ctx):
    """collect(): map k -> vector k, flag copied."""
    F, R = ctx.facts, ctx.report
    b = F.body(COLLECT)
    eng = Engine(F)
    seq = []

    def on_call(eng_, st, fr, f, args, site):
        p = f["path"]
        if p.endswith("IntoIterator>::into_iter") or p.endswith("IntoIterator::into_iter"):
            from engine.contracts import ret_ty
            return [(st, Top(ret_ty(eng_, site), "iter(%s)" % name_of(eng_, st, args[0])))]
        if p.endswith("Iterator::collect"):
            from engine.contracts import ret_ty
            return [(st, Top(ret_ty(eng_, site), "collect(%s)" % name_of(eng_, st, args[0])))]
        return None

    eng.on_call = on_call
    outs = eng.call_path(COLLECT, eng.symbolic_args(b, names=["self"]))
    fs = fields(F, "statistics::common::StatisticInfo")
    for st, rv in outs:
        if not isinstance(rv, Struct):
            R.violation("FLOW", COLLECT + "|shape", "collect() result is not a StatisticInfo value", function=COLLECT, kind="UNRECOGNISED-SHAPE")
            continue
        for i, f in enumerate(fs):
            rep = repr(rv.fields[i])
            want = "self.%s" % f
            others = [o for o in fs if o != f]
            if want in rep and not any(("self.%s" % o) in rep for o in others):
                R.obligation("FLOW", "%s|%s" % (COLLECT, f), "discharged", "%s <- self.%s" % (f, f))
            else:
                R.violation("FLOW", "%s|%s" % (COLLECT, f), "collect() fills %s from %s instead of the collector's %s" % (f, rep[:120], f), function=COLLECT, file=b["span"]["f"], line=b["span"]["l"])
        R.instance("FLOW", "collect(): %s copied field to field" % fs)
