"""C14 — header-type, message-info and type-info codes (DESIGN §4/C14)."""
from rules import lib_const, lib_ord

LEVEL = "proof"


def run(ctx):
    R = ctx.report
    R.explanation = "CONST: all code/flag constants equal the spec bit layout; ORD-1 for the type-info word (T::write_u32 / T::parse_u32); TAB tables via the engine."
    lib_const.check(ctx, rule="CONST")
    R.floor("CONST", 39)
    lib_ord.check(ctx, ["dlt::TypeInfo::as_bytes", "parse::dlt_type_info"], "ORD-1")
    R.floor("ORD-1", 2)
    try:
        from rules import lib_codes
        lib_codes.check(ctx)
    except ImportError:
        R.notes.append("TAB (bit-level tables) not built yet")
