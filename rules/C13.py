"""C13 — non-verbose argument construction decodes in order or refuses (DESIGN §4/C13)."""
from rules import lib_ord, lib_const

LEVEL = "other"
FN = "parse::construct_arguments"
HELPERS = ["parse::dlt_uint", "parse::dlt_sint", "parse::dlt_fint", "parse::dlt_fixed_point"] + ["parse::dlt_uint::{closure#%d}" % i for i in range(5)] + ["parse::dlt_sint::{closure#%d}" % i for i in range(5)] + ["parse::dlt_fint::{closure#%d}" % i for i in range(2)]


def run(ctx):
    R = ctx.report
    R.explanation = "ORD-1 (paired): every order-specific decoder in construct_arguments is selected by the matching `endianness == Big` branch; width discriminants equal the bit widths."
    R.not_decided = ["numeric decoding inside nom (trusted)"]
    from rules import lib_nonverbose
    wk = lib_nonverbose.worker(ctx.facts)
    lib_ord.check(ctx, [FN] + ([wk] if wk != FN else []) + HELPERS, "ORD-1", paired=(FN,))
    R.floor("ORD-1", 10)
    lib_const.check(ctx, names=set(), rule="CONST", enums=True)
    R.floor("CONST", 7)
    value_dependent_refusal(ctx)
    from rules import lib_nonverbose
    lib_nonverbose.check(ctx)
    lib_nonverbose.check_decoders(ctx)
    try:
        from rules import lib_panic
        lib_panic.check(ctx, [FN], None, rule="PANIC")
    except ImportError:
        R.notes.append("PANIC / per-kind rows not built yet")


REJECTING = ("nom::combinator::verify", "nom::combinator::map_res", "nom::combinator::map_opt", "nom::combinator::fail", "nom::combinator::not", "nom::combinator::cond",
             "nom::combinator::all_consuming", "nom::combinator::eof", "nom::combinator::complete")


def value_dependent_refusal(ctx):
    """ERR-V: the numeric field decoders reachable from construct_arguments refuse only for lack of bytes: no nom
    combinator that can reject a *value* (verify / map_res / map_opt / fail / not / cond ...) is used by them, so every bit
    pattern of a long-enough field is decoded (NaN and infinities included)."""
    import re
    from engine import cfg
    from rules.lib_call import all_fn_refs
    from rules.common import loc_of
    F, R, cg = ctx.facts, ctx.report, ctx.cg
    reach = sorted(p for p in cg.local_reachable([FN]) if F.body(p) is not None and not F.body(p)["derived"])
    n = 0
    for p in reach:
        if "zero_terminated" in p:
            continue  # the string helper refuses invalid UTF-8 by design (part of the property)
        for bi, f, sp, how in all_fn_refs(F.body(p)):
            path = re.sub(r"::<.*$", "", f["path"])
            if path.startswith("nom::"):
                n += 1
                if path in REJECTING:
                    fl, ln = loc_of({"sp": sp})
                    R.violation("ERR-V", "%s|%s" % (p, path), "%s uses %s: a field whose bytes are all present can be refused because of its value; the property allows a refusal only for a short payload or invalid UTF-8" % (p, path), function=p, file=fl, line=ln)
    R.instance("ERR-V", "%d nom references in %d functions reachable from construct_arguments, none can reject a value" % (n, len(reach)))
