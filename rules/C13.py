"""C13 — non-verbose argument construction decodes in order or refuses (DESIGN §4/C13)."""
from rules import lib_ord, lib_const

LEVEL = "other"
FN = "parse::construct_arguments"
HELPERS = ["parse::dlt_uint", "parse::dlt_sint", "parse::dlt_fint", "parse::dlt_fixed_point"] + ["parse::dlt_uint::{closure#%d}" % i for i in range(5)] + ["parse::dlt_sint::{closure#%d}" % i for i in range(5)] + ["parse::dlt_fint::{closure#%d}" % i for i in range(2)]


def run(ctx):
    R = ctx.report
    R.explanation = "ORD-1 (paired): every order-specific decoder in construct_arguments is selected by the matching `endianness == Big` branch; width discriminants equal the bit widths."
    R.not_decided = ["numeric decoding inside nom (trusted)"]
    lib_ord.check(ctx, [FN] + HELPERS, "ORD-1", paired=(FN,))
    R.floor("ORD-1", 30)
    lib_const.check(ctx, names=set(), rule="CONST", enums=True)
    R.floor("CONST", 7)
    from rules import lib_nonverbose
    lib_nonverbose.check(ctx)
    try:
        from rules import lib_panic
        lib_panic.check(ctx, [FN], None, rule="PANIC")
    except ImportError:
        R.notes.append("PANIC / per-kind rows not built yet")
