"""C08 — async reader delivers what the blocking reader delivers (DESIGN §4/C08)."""
from rules import lib_call

LEVEL = "proof"
FUNCS = ["stream::DltStreamReader::<S>::next_message_slice::{closure#0}", "stream::read_message::{closure#0}", "stream::DltStreamReader::<S>::next_message_slice", "stream::read_message",
         "stream::DltStreamReader::<S>::new", "stream::DltStreamReader::<S>::with_capacity", "stream::DltStreamReader::<S>::with_storage_header"]


def run(ctx):
    R = ctx.report
    R.explanation = "CALL-R on the pre-transform coroutine bodies: the source is only read through AsyncReadExt::read_exact on futures' BufReader."
    R.not_decided = ["all interleavings of Poll::Pending (delegated to futures' ReadExact, trusted to resume where it stopped)", "cancel safety (disclaimed by the crate)"]
    lib_call.check_read_exact(ctx, FUNCS, r"AsyncReadExt$", r"^futures(_util)?::io::BufReader<")
    R.floor("CALL-R", 2)
    try:
        from rules import lib_reader
        S = lib_reader.check(ctx, "stream")
        if S is not None and "norm" in S:
            lib_reader.sibling_check(ctx, S)
            R.floor("SIB", 8)
            R.floor("PANIC", 6)
            R.floor("ALG", 2)
    except ImportError:
        R.notes.append("SIB / PANIC not built yet")
