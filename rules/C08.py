"""C08 — async reader delivers what the blocking reader delivers (DESIGN §4/C08)."""
from rules import lib_call

LEVEL = "proof"
FUNCS = ["stream::DltStreamReader::<S>::next_message_slice::{closure#0}", "stream::read_message::{closure#0}", "stream::DltStreamReader::<S>::next_message_slice", "stream::read_message",
         "stream::DltStreamReader::<S>::new", "stream::DltStreamReader::<S>::with_capacity", "stream::DltStreamReader::<S>::with_storage_header"]


def run(ctx):
    R = ctx.report
    R.explanation = "CALL-R on the pre-transform coroutine bodies: the source is only read through AsyncReadExt::read_exact on futures' BufReader."
    R.not_decided = ["all interleavings of Poll::Pending (delegated to futures' ReadExact, trusted to resume where it stopped)", "cancel safety (disclaimed by the crate)"]
    # every hand-written function / closure / coroutine body of the module (helpers introduced by a refactoring included)
    funcs = sorted(p for p, b in ctx.facts.bodies.items() if p.startswith("stream::") and not b["derived"] and "::tests::" not in p)
    for a in FUNCS:
        if ctx.facts.body(a) is None and a.endswith("next_message_slice"):
            funcs.append(a)  # reported as ANCHOR-MISSING by the callee
    lib_call.check_read_exact(ctx, funcs, r"AsyncReadExt$", r"^futures(_util)?::io::BufReader<")
    R.floor("CALL-R", 1)
    try:
        from rules import lib_reader
        lib_reader.check_read_message(ctx, "stream")
        S = lib_reader.check(ctx, "stream")
        if S is not None and "norm" in S:
            lib_reader.sibling_check(ctx, S)
            R.floor("SIB", 8)
            R.floor("PANIC", 3)
            R.floor("ALG", 2)
    except ImportError:
        R.notes.append("SIB / PANIC not built yet")
