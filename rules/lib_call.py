"""CALL rules: who may call what, over resolved callees."""
import re

from engine import cfg
from rules.common import loc_of

NOM_STREAMING = re.compile(r"^nom::(bytes|number|character)::streaming::")
NOM_COMPLETE = re.compile(r"^nom::(bytes|number|character)::complete::")
NOM_DENY = re.compile(r"^nom::combinator::(complete|rest|rest_len|eof|all_consuming)$")
NOM_STRUCTURAL = re.compile(r"^nom::(sequence::|multi::|branch::|combinator::(map|map_res|map_opt|map_parser|opt|cond|peek|verify|value|flat_map|recognize|into|not|consumed|success|fail|cut)$|error::|internal::|Parser::|Err::|Needed::|IResult|traits::|lib::|Finish::)")


def all_fn_refs(body):
    """(block, fn dict, span, kind) for every call or fn-item value in non-cleanup blocks."""
    for bi, blk in enumerate(body["blocks"]):
        if blk["cleanup"]:
            continue
        t = blk["term"]
        cf = cfg.callee_of(t)
        for s in blk["stmts"]:
            if s["k"] == "assign":
                for o in cfg.rv_operands(s["rv"]):
                    f = cfg.const_fn(o)
                    if f:
                        yield bi, f, s["sp"], "value"
        for o in cfg.term_operands(t):
            f = cfg.const_fn(o)
            if f:
                yield bi, f, blk["sp"], ("call" if f is cf else "value")


def check_streaming(ctx, entries, allow_complete, rule="CALL-S", defer_complete=False):
    """Every nom primitive reachable from `entries` is a streaming one.
    allow_complete: {(function path, primitive path)} tolerated complete primitives."""
    F, R, cg = ctx.facts, ctx.report, ctx.cg
    reach = sorted(p for p in cg.local_reachable(entries) if not F.body(p)["derived"])
    n_stream = 0
    for p in reach:
        b = F.body(p)
        R.fn(p)
        for bi, f, sp, how in all_fn_refs(b):
            path = f["path"]
            if not path.startswith("nom::"):
                continue
            fl, ln = loc_of({"sp": sp})
            if NOM_STREAMING.search(path):
                n_stream += 1
                R.instance(rule, "%s references streaming %s (%s)" % (p, path, how))
            elif NOM_COMPLETE.search(path):
                if (p, path) in allow_complete:
                    R.instance(rule + ".allow", "%s references %s: allow-listed (%s)" % (p, path, allow_complete[(p, path)]))
                elif defer_complete:
                    if not hasattr(ctx, "deferred_complete"):
                        ctx.deferred_complete = []
                    ctx.deferred_complete.append((p, path, fl, ln))
                else:
                    R.violation(rule, "%s|%s" % (p, path), "complete (non-streaming) nom primitive %s reachable from %s: a truncated buffer yields a hard error or a short result instead of Incomplete" % (path, entries[0]), file=fl, line=ln, function=p, call_path=cg.path_to(entries, p))
            elif NOM_DENY.search(path):
                R.violation(rule, "%s|%s" % (p, path), "nom combinator %s turns Incomplete into an error/short result" % path, file=fl, line=ln, function=p, call_path=cg.path_to(entries, p))
            elif NOM_STRUCTURAL.search(path):
                R.instance(rule + ".struct", "%s uses structural combinator %s" % (p, path))
            else:
                R.violation(rule, "%s|unknown|%s" % (p, path), "nom item %s is not in the streaming/structural vocabulary of the rule: cannot decide whether it reports Incomplete" % path, file=fl, line=ln, function=p, kind="UNRECOGNISED-SHAPE")
    return reach, n_stream


READ_TRAITS = re.compile(r"^(std::io::(Read|BufRead|Seek)|futures_io::(if_std::)?(AsyncRead|AsyncBufRead|AsyncSeek)|futures_util::io::(AsyncReadExt|AsyncBufReadExt|AsyncSeekExt)|futures::(io::)?(AsyncReadExt|AsyncBufReadExt|AsyncRead|AsyncBufRead)|tokio::io::\w+)$")
BUFREADER_INHERENT = re.compile(r"^(std::io::BufReader::<R>::|futures_util::io::BufReader::<R>::|futures::io::BufReader::<R>::|std::io::buffered::bufreader::BufReader::<R>::)")


def instantiations(F, p, param):
    """Types a generic parameter of local function `p` is instantiated with at its call sites in the crate."""
    b = F.body(p)
    names = [g for g in (b.get("generics") or []) if not g.startswith("const ") and not g.startswith("'")]
    if param not in names:
        return None
    idx = names.index(param)
    out = set()
    for q, qb in F.bodies.items():
        if qb.get("derived"):
            continue
        for bi, f, sp, how in all_fn_refs(qb):
            if f["path"] == p or f.get("resolved") == p:
                targs = [a for a in f.get("args", []) if isinstance(a, int)]
                if len(targs) == len(names):
                    out.add(F.ty_s(targs[idx]))
                elif len(targs) >= len(names) - idx:
                    out.add(F.ty_s(targs[idx - len(names)]))
    return out


def check_read_exact(ctx, funcs, want_trait, want_self_re, rule="CALL-R"):
    """In `funcs`, the only methods of the reader traits invoked are `read_exact` on the BufReader (a generic helper's
    reader parameter is resolved through its call sites)."""
    F, R = ctx.facts, ctx.report
    n = 0
    for p in funcs:
        b = F.body(p)
        if b is None:
            R.violation(rule, "missing|" + p, "anchor function %s not found" % p, kind="ANCHOR-MISSING")
            continue
        R.fn(p)
        for bi, f, sp, how in all_fn_refs(b):
            tr = f.get("trait")
            path = f["path"]
            fl, ln = loc_of({"sp": sp})
            if tr and READ_TRAITS.search(tr):
                st = F.ty_s(f["self_ty"]) if f.get("self_ty") is not None else "?"
                if f.get("self_ty") is not None and F.ty(f["self_ty"])["k"] == "param":
                    inst = instantiations(F, p, st)
                    if inst and all(re.search(want_self_re, x) for x in inst):
                        st = sorted(inst)[0]
                if f.get("name") == "read_exact" and re.search(want_trait, tr) and re.search(want_self_re, st):
                    n += 1
                    R.instance(rule, "%s: <%s as %s>::read_exact" % (p, st, tr))
                else:
                    R.violation(rule, "%s|%s::%s" % (p, tr, f.get("name")), "source is read through <%s as %s>::%s: only read_exact on the BufReader absorbs short and interrupted reads" % (st, tr, f.get("name")), file=fl, line=ln, function=p)
            elif BUFREADER_INHERENT.search(path) and not re.search(r"::(new|with_capacity)$", path):
                R.violation(rule, "%s|%s" % (p, path), "BufReader internals accessed through %s" % path, file=fl, line=ln, function=p)
    return n
