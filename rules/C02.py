"""C02 — agreement with an independent reference codec: layout clauses (DESIGN §4/C02)."""
from rules import lib_const, lib_ord
from rules.C01 import wire_bodies, PAIRED

LEVEL = "other"


def run(ctx):
    R = ctx.report
    R.explanation = ("WIRE-PA: every field of a verbose argument is read by the parser at the offset, width and byte-order class the PRS prescribes for its shape (38 shapes), and the next argument starts where the layout ends; TAB: the decoder's code tables (message info, header type, type info incl. reserved bits, control id) against the bit layout of the DLT PRS; WIRE: the writer's layout per shape equals the layout transcribed from the DLT PRS (independent of the parser); CONST-1: every layout constant and width discriminant equals the value transcribed from the DLT PRS; ORD-1: byte order of every numeric "
                     "field reference is the spec's (BE headers, LE storage header, message order in payload).")
    R.not_decided = ["verdict equivalence with a reference decoder over all byte strings (needs running both or a full semantic model of nom)"]
    lib_const.check(ctx, rule="CONST-1")
    R.floor("CONST-1", 39)
    lib_ord.check(ctx, wire_bodies(ctx.facts), "ORD-1", PAIRED)
    R.floor("ORD-1", 90)
    from rules.C01 import wire_and_consumption
    wire_and_consumption(ctx, cons=True, strict_verdict=True)
    R.floor("VERDICT", 4)
    # LEN is part of the layout: what Message::new records as payload length (and so writes into the length field) must
    # be the length of the payload bytes it will serialise, and overall_length() must add the header lengths the flags
    # announce (shared with C15)
    from rules import C15
    if all(ctx.facts.body(p_) is not None for p_ in (C15.NEW, C15.OVERALL)):
        C15.tab_n(ctx)
        C15.overall_len(ctx)
    from rules.C01 import code_tables
    code_tables(ctx)
    from rules import lib_wirep, lib_wirepa
    lib_wirepa.check(ctx, "WIRE-PA")
    R.floor("WIRE-PA", 20)
    lib_wirep.check_all(ctx, "WIRE-PH")
    R.floor("WIRE-PH", 3)
