"""LOOP rules: termination classification of every natural loop (LOOP-E) and
recursion freedom over a set of functions."""
import re

from engine import cfg
from rules.common import place_ty, op_local, loc_of

# finite iterator vocabulary (structural over the Self type of Iterator::next)
FINITE_BASE = [
    r"^(std|alloc)::vec::IntoIter<", r"^(std|alloc)::vec::Drain<", r"^(std|core)::slice::(Iter|IterMut|Chunks|ChunksExact|Windows|Split)<",
    r"^(std|core)::ops::Range<", r"^(std|core)::ops::RangeInclusive<", r"^(std|core)::str::(Chars|Bytes|CharIndices|Lines|Split|SplitWhitespace)<",
    r"^std::collections::hash_map::(Iter|IterMut|IntoIter|Keys|Values|Drain)<", r"^std::collections::hash_set::(Iter|IntoIter|Drain)<",
    r"^(std|alloc)::collections::btree_map::", r"^(std|core)::option::(IntoIter|Iter)<", r"^(std|core)::result::(IntoIter|Iter)<",
    r"^(std|core)::array::IntoIter<", r"^quick_xml::events::attributes::Attributes<", r"^hashbrown::",
    r"^std::collections::hash_map::IntoIter<",
]
FINITE_ADAPTOR = r"^(std|core)::iter::(Enumerate|Map|Filter|FilterMap|Rev|Zip|Skip|SkipWhile|TakeWhile|Peekable|Cloned|Copied|Chain|StepBy|Inspect|Flatten|FlatMap|Fuse|MapWhile|Scan)<"
ALWAYS_FINITE = r"^(std|core)::iter::Take<"
INFINITE = r"^(std|core)::iter::(Repeat|RepeatWith|Cycle|Successors|FromFn)<|^(std|core)::ops::RangeFrom<"


def iterator_finite(facts, ti, depth=0):
    """True / False / None(unknown) for the iterator type id."""
    t = facts.ty(ti)
    s = t["s"]
    if t["k"] == "ref":
        return iterator_finite(facts, t["to"], depth + 1)
    if re.search(INFINITE, s):
        return False
    if re.search(ALWAYS_FINITE, s):
        return True
    for p in FINITE_BASE:
        if re.search(p, s):
            return True
    if re.search(FINITE_ADAPTOR, s) and t["k"] == "adt" and depth < 6:
        # all iterator-typed args must be finite
        res = True
        for a in t["args"]:
            if isinstance(a, int):
                ta = facts.ty(a)
                if ta["k"] in ("adt", "ref") and ("Iter" in ta["s"] or "iter::" in ta["s"] or "Range" in ta["s"] or "Chars" in ta["s"] or "Attributes" in ta["s"]):
                    r = iterator_finite(facts, a, depth + 1)
                    if r is False:
                        return False
                    if r is None:
                        res = None
        return res
    return None


FINITE_COLLECTION = r"^&?(mut )?((std|alloc)::vec::Vec<|std::collections::(HashMap|HashSet|BTreeMap|BTreeSet|VecDeque)<|(std|alloc)::collections::|\[|(std|core)::option::Option<|(std|core)::result::Result<)"


def generic_iterator_finite(facts, body, ti):
    """Finiteness of an iterator whose type is a generic parameter P of `body` (P: Iterator) or the projection
    `<P as IntoIterator>::IntoIter`: decided from what P is instantiated with at every call site in the crate —
    all finite collections / finite iterators: True; one infinite: False; no call site or anything unknown: None."""
    t = facts.ty(ti)
    pname = None
    proj = False
    if t["k"] == "param":
        pname = t["s"]
    elif t["k"] == "alias":
        m = re.match(r"^<(.+) as (std|core)::iter::IntoIterator>::IntoIter$", t["s"])
        if m:
            pname, proj = m.group(1), True
    gens = [g for g in (body.get("generics") or []) if not g.startswith("const ") and not g.startswith("'")]
    if pname is None or pname not in gens:
        return None, []
    from rules.lib_call import all_fn_refs
    idx = gens.index(pname)
    me = body["path"]
    insts = []
    for q, qb in facts.bodies.items():
        if qb.get("derived"):
            continue
        for bi, f, sp, how in all_fn_refs(qb):
            if f["path"] == me or f.get("resolved") == me:
                targs = [a for a in f.get("args", []) if isinstance(a, int)]
                if len(targs) == len(gens):
                    insts.append(targs[idx])
                else:
                    insts.append(None)
    if not insts:
        return None, []
    res = True
    names = []
    for a in insts:
        if a is None:
            return None, names
        ta = facts.ty(a)
        names.append(ta["s"])
        if ta["k"] in ("param", "alias"):
            return None, names  # instantiated with the caller's own parameter: not followed further
        r = True if (proj and re.search(FINITE_COLLECTION, ta["s"])) else iterator_finite(facts, a)
        if r is False:
            return False, names
        if r is None:
            res = None
    return res, names


def local_iter_exhausts(facts, ti, pump_callees, eof_variants):
    """A crate-local iterator that wraps the event pump: its own `next` is analysed with every pump call replaced by the
    end-of-input event; if every outcome is then `None`, the iterator ends when the input ends (True).  None when the type
    has no local `next`, the pump is not called from it, or an outcome cannot be read."""
    from engine.interp import Engine
    from engine.contracts import ret_ty
    from engine.values import Enum, Top
    t = facts.ty(ti)
    while t["k"] in ("ref", "ptr"):
        t = facts.ty(t["to"])
    if t["k"] != "adt":
        return None
    nxt = None
    for imp in facts.impls:
        if str(imp.get("trait", "")).endswith("iter::Iterator") and (imp["self"] == t["path"] or imp["self"].startswith(t["path"] + "<")):
            for it in imp["items"]:
                if it["name"] == "next" and it["path"] in facts.bodies:
                    nxt = it["path"]
    if nxt is None:
        return None
    eng = Engine(facts)
    fired = [0]

    def on_call(eng_, st, fr, f, args, site):
        tgt = cfg.fn_target(f)
        if not any(re.search(p, tgt) or re.search(p, f["path"]) for p in pump_callees):
            return None
        rt = ret_ty(eng_, site)
        v = eng_.M.force(st, Top(rt, "pump")) if rt is not None else None
        if not isinstance(v, Enum):
            return None
        for vi, fs in v.variants:
            if eng_.T.variant_name(v.ty, vi) != "Ok" or not fs:
                continue
            ev = fs[0]
            if isinstance(ev, Top):
                ev = eng_.M.force(st, ev)
            if not isinstance(ev, Enum):
                return None
            want = eof_variants.get(eng_.T.t(ev.ty).get("path"))
            keep = tuple((j, jf) for j, jf in ev.variants if eng_.T.variant_name(ev.ty, j) == want)
            if not keep:
                return None
            fired[0] += 1
            return [(st, Enum(v.ty, ((vi, (Enum(ev.ty, keep, ev.name),)),), "pump"))]
        return None

    eng.on_call = on_call
    b = facts.body(nxt)
    try:
        outs = eng.call_path(nxt, eng.symbolic_args(b))
    except Exception:
        return None
    if not fired[0] or not outs:
        return None
    for st, rv in outs:
        if not isinstance(rv, Enum):
            return None
        if [eng.T.variant_name(rv.ty, vi) for vi, _ in rv.variants] != ["None"]:
            return False
    return True


def own_blocks(loop, loops):
    own = set(loop["blocks"])
    for other in loops:
        if other is loop:
            continue
        if other["header"] in loop["blocks"] and other["header"] != loop["header"] and other["blocks"] <= loop["blocks"]:
            own -= other["blocks"]
    own.add(loop["header"])
    return own


def discr_defs(body):
    """local -> place for statements `_d = discriminant(place)`."""
    out = {}
    for blk in body["blocks"]:
        for s in blk["stmts"]:
            if s["k"] == "assign" and s["rv"]["k"] == "discr" and not s["p"]["p"]:
                out.setdefault(s["p"]["l"], []).append(s["rv"]["p"])
    return out


def classify_loops(facts, body, pump_callees, eof_variants):
    """Classify every natural loop of `body`.

    pump_callees: regex list of callee paths that advance an event reader.
    eof_variants: {adt path: variant name} — the end-of-input variant of each event enum.
    Returns list of dict(kind, header, line, ok, why, ...).
    """
    loops = cfg.natural_loops(body)
    sc = cfg.succs(body)
    ddefs = discr_defs(body)
    res = []
    for lp in loops:
        own = own_blocks(lp, loops)
        hdr = lp["header"]
        f_, line = loc_of(body["blocks"][hdr])
        info = {"header": hdr, "file": f_, "line": line, "blocks": len(lp["blocks"])}
        # (a) iterator-driven?
        it_ok = None
        for bi in sorted(own):
            t = body["blocks"][bi]["term"]
            f = cfg.callee_of(t)
            if not f or f.get("trait") != "std::iter::Iterator" or f.get("name") != "next":
                continue
            self_ty = f.get("self_ty")
            fin = iterator_finite(facts, self_ty) if self_ty is not None else None
            if fin is None and self_ty is not None and pump_callees and local_iter_exhausts(facts, self_ty, pump_callees, eof_variants):
                fin = True
                info["local_iterator"] = "next() returns None when the event pump reports end of input"
            if fin is None and self_ty is not None and facts.ty(self_ty)["k"] in ("param", "alias"):
                fin, inst_names = generic_iterator_finite(facts, body, self_ty)
                if inst_names:
                    info["instantiated_with"] = sorted(set(inst_names))
            # the None arm (discriminant 0) of the switch on the result must leave the loop
            dest = t["dest"]
            leaves = None
            if not dest["p"]:
                for bj in sorted(lp["blocks"]):
                    tt = body["blocks"][bj]["term"]
                    if tt["k"] != "switch":
                        continue
                    dl = op_local(tt["d"])
                    if dl is None:
                        continue
                    for pl in ddefs.get(dl, []):
                        if pl["l"] == dest["l"] and not pl["p"]:
                            tgt = tt["otherwise"]
                            for v, tg in zip(tt["vals"], tt["tgts"]):
                                if int(v) == 0:
                                    tgt = tg
                            leaves = not cfg.reaches_within(sc, tgt, hdr, lp["blocks"])
            info.update({"iterator": facts.ty_s(self_ty) if self_ty is not None else "?", "finite": fin, "none_arm_leaves": leaves})
            if fin and leaves:
                it_ok = True
                break
            elif fin is False:
                it_ok = False
        if it_ok:
            info.update({"kind": "iterator", "ok": True, "why": "driven by Iterator::next of finite %s; None arm leaves the loop" % info["iterator"]})
            res.append(info)
            continue
        # (b) event pump?
        pump_sites = []
        for bi in sorted(own):
            t = body["blocks"][bi]["term"]
            f = cfg.callee_of(t)
            if f and any(re.search(p, cfg.fn_target(f)) or re.search(p, f["path"]) for p in pump_callees):
                pump_sites.append((bi, f))
        if pump_sites:
            # Eof-consistent subgraph: at every switch on the discriminant of an event-typed
            # place keep only the Eof edge; a cycle header->header in it means "reading
            # end-of-input leads to another iteration".
            restricted = {}
            n_ev_switch = 0
            for bi in lp["blocks"]:
                t = body["blocks"][bi]["term"]
                outs = [s for s in sc[bi] if s in lp["blocks"]]
                if t["k"] == "switch":
                    dl = op_local(t["d"])
                    for pl in ddefs.get(dl, []) if dl is not None else []:
                        pt = place_ty(facts, body, pl)
                        if pt is None:
                            continue
                        ty = facts.ty(pt)
                        if ty["k"] == "adt" and ty["path"] in eof_variants:
                            a = facts.adts.get(ty["path"])
                            dv = None
                            for v in a.get("variants", []):
                                if v["name"] == eof_variants[ty["path"]]:
                                    dv = int(v["discr"])
                            if dv is None:
                                continue
                            n_ev_switch += 1
                            tgt = t["otherwise"]
                            for v, tg in zip(t["vals"], t["tgts"]):
                                if int(v) == dv:
                                    tgt = tg
                            outs = [tgt] if tgt in lp["blocks"] else []
                restricted[bi] = outs
            # cycle through header in restricted graph?
            seen = set()
            st = list(restricted.get(hdr, []))
            cyc = False
            while st:
                n = st.pop()
                if n == hdr:
                    cyc = True
                    break
                if n in seen:
                    continue
                seen.add(n)
                st.extend(restricted.get(n, []))
            info.update({"kind": "pump", "pump": cfg.fn_target(pump_sites[0][1]), "event_switches": n_ev_switch})
            if n_ev_switch == 0:
                info.update({"ok": False, "why": "event pump loop without a switch on the event's discriminant: end-of-input is never examined"})
            elif cyc:
                info.update({"ok": False, "why": "the end-of-input variant's arm continues the loop (quick-xml keeps returning Eof, so the loop never ends)"})
            else:
                info.update({"ok": True, "why": "end-of-input arm leaves the loop"})
            res.append(info)
            continue
        if it_ok is False:
            info.update({"kind": "iterator", "ok": False, "why": "driven by an infinite iterator %s" % info.get("iterator")})
        else:
            info.update({"kind": "unclassified", "ok": False, "why": "loop is neither driven by a finite iterator nor an event pump with an end-of-input exit: termination cannot be decided"})
        res.append(info)
    return res


def recursion(cg, funcs):
    """Return a list of cycles (as lists of paths) among `funcs` in the call graph."""
    funcs = set(funcs)
    index = {}
    low = {}
    onst = set()
    st = []
    out = []
    counter = [0]

    import sys
    sys.setrecursionlimit(10000)

    def strong(v):
        index[v] = low[v] = counter[0]
        counter[0] += 1
        st.append(v)
        onst.add(v)
        for w in cg.edges.get(v, ()):
            if w not in funcs:
                continue
            if w not in index:
                strong(w)
                low[v] = min(low[v], low[w])
            elif w in onst:
                low[v] = min(low[v], index[w])
        if low[v] == index[v]:
            comp = []
            while True:
                w = st.pop()
                onst.discard(w)
                comp.append(w)
                if w == v:
                    break
            if len(comp) > 1 or v in cg.edges.get(v, ()):
                out.append(comp)

    for f in sorted(funcs):
        if f not in index:
            strong(f)
    return out


def path_call_counts(body, loop, pred):
    """(min, max) number of blocks whose terminator call satisfies pred along any
    header -> latch path of the loop body (back edges removed; inner cycles make max = inf)."""
    sc = cfg.succs(body)
    hdr = loop["header"]
    blocks = loop["blocks"]
    latches = {a for (a, _h) in loop["back_edges"]}
    memo = {}
    INF = float("inf")
    onstack = set()

    def w(b):
        t = body["blocks"][b]["term"]
        f = cfg.callee_of(t)
        return 1 if (f is not None and pred(f)) else 0

    def go(b):
        # returns (min, max) over paths from b to any latch (inclusive), None if no latch reachable
        if b in memo:
            return memo[b]
        if b in onstack:
            return (0, INF)
        onstack.add(b)
        best = None
        if b in latches:
            best = (0, 0)
        for s in sc[b]:
            if s not in blocks or s == hdr:
                continue
            r = go(s)
            if r is None:
                continue
            best = r if best is None else (min(best[0], r[0]), max(best[1], r[1]))
        onstack.discard(b)
        if best is not None:
            best = (best[0] + w(b), best[1] + w(b))
        memo[b] = best
        return best

    return go(hdr)


def stale_uses(body, lp):
    """Loop-carried values: locals that are assigned inside loop `lp` and can be *read* in an iteration before that
    iteration assigned them (an upward-exposed use).  Returns [(local, block, span)].  Forward may-analysis over the loop
    body: at the header every loop-assigned local is stale; a whole-local assignment or a call destination makes it fresh;
    any operand / borrow / discriminant read of a stale local is reported."""
    from engine import cfg
    blocks = body["blocks"]
    inside = set(lp["blocks"])

    def rv_reads(rv):
        k = rv["k"]
        for o in cfg.rv_operands(rv):
            pl = o.get("c") or o.get("m") if isinstance(o, dict) else None
            if pl is not None:
                yield pl["l"]
        if k in ("ref", "addr", "discr", "len", "copy_for_deref") and isinstance(rv.get("p"), dict):
            yield rv["p"]["l"]

    defs = set()
    for bi in inside:
        blk = blocks[bi]
        for s in blk["stmts"]:
            if s["k"] == "assign" and not s["p"]["p"]:
                defs.add(s["p"]["l"])
        t = blk["term"]
        if t["k"] == "call" and isinstance(t.get("dest"), dict) and not t["dest"]["p"]:
            defs.add(t["dest"]["l"])
    stale_in = {bi: None for bi in inside}
    stale_in[lp["header"]] = set(defs)
    work = [lp["header"]]
    found = {}
    sc = cfg.succs(body)
    while work:
        bi = work.pop()
        cur = set(stale_in[bi] or ())
        blk = blocks[bi]
        for s in blk["stmts"]:
            if s["k"] != "assign":
                continue
            for l in rv_reads(s["rv"]):
                if l in cur:
                    found.setdefault((l, bi), s.get("sp") or blk.get("sp"))
            if s["p"]["p"]:
                if s["p"]["l"] in cur and "*" not in s["p"]["p"][:1]:
                    pass  # partial write into a stale aggregate: stays stale
            else:
                cur.discard(s["p"]["l"])
        t = blk["term"]
        for o in cfg.term_operands(t):
            pl = o.get("c") or o.get("m") if isinstance(o, dict) else None
            if pl is not None and pl["l"] in cur:
                found.setdefault((pl["l"], bi), blk.get("sp"))
        if t["k"] == "call" and isinstance(t.get("dest"), dict) and not t["dest"]["p"]:
            cur.discard(t["dest"]["l"])
        for nb in sc[bi]:
            if nb not in inside or nb == lp["header"]:
                continue
            old = stale_in.get(nb)
            new = cur if old is None else (old | cur)
            if old is None or new != old:
                stale_in[nb] = set(new)
                work.append(nb)
    return [(l, bi, sp) for (l, bi), sp in sorted(found.items())]
