"""FIBEX value flow, mechanised end to end (C11 FLOW-X / FLOW-M / FLOW-K).

Link A  (Reader::read_event, one iteration of its event loop with a symbolic reader): per match arm — identified by
        the quick-xml event variant and the tag the local name is compared with — which scratch fields the arm assigns
        and from which XML source (element text, parsed number, attribute NAME), and for arms that emit an event, which
        scratch field (or direct source) each event field carries.
Link B  (read_fibexes with read_pdu / read_frame inlined, Reader::read_event replaced by a symbolic event): which
        event field every field of the public model records (PduMetadata, FrameMetadata, FrameMetadataIdentification)
        and every key / value of the maps is built from.

FLOW-X  every scratch field an emitting arm for tag T consumes is (re)assigned on all continuing exits of the opening
        arm for the same tag T: no value of an earlier or enclosing element can leak into the event.
FLOW-M  composing A and B, every public model field originates in the XML element / attribute the FIBEX layout names
        (rules/spec/fibex_spec.py MODEL), closed by the element the spec names; no other tag writes that scratch field.
FLOW-K  keys and values of the maps (PDUs by PDU@ID, frames by FRAME@ID, signals SIGNAL@ID -> CODING-REF@ID-REF,
        codings CODING@ID -> CODED-TYPE@BASE-DATA-TYPE), the PDU lookup key (PDU-REF@ID-REF) and the signal reference
        handed to type_info_for_signal_ref (SIGNAL-REF@ID-REF), sort keys (SEQUENCE-NUMBER).

Only the end points are named by the spec (XML names, public model field names); scratch fields, event variants and
helper functions are followed by identity, so renaming or restructuring them does not matter.  Sources are recognised at
the quick-xml API (BytesText::unescape, Attribute::unescape_value under the attribute-name comparison, str::parse).
"""
import copy
import re

from engine import cfg
from engine import contracts  # noqa: F401
from engine.contracts import ret_ty
from engine.contracts_coll import view
from engine.interp import Engine
from engine.values import Bool, Enum, Ref, Struct, Top
from rules.spec import fibex_spec

READ_EVENT = "fibex::Reader::<B>::read_event"
READ = "fibex::read_fibexes"
TI = "fibex::type_info_for_signal_ref"
XML_VARIANTS = {"Start", "End", "Empty", "Text", "Comment", "CData", "Decl", "PI", "DocType", "Eof", "GeneralRef"}
SRC = re.compile(r"src:(text|num|attr:[A-Za-z0-9_:\-\?]+)")
SCR = re.compile(r"\*self\.([A-Za-z0-9_]+)")
EV = re.compile(r"ev\.Ok\.0\.([A-Za-z0-9_]+)\.([A-Za-z0-9_]+)")


def const_str(eng, st, v):
    vw = view(eng, st, v)
    if vw and isinstance(vw["base"], str) and vw["base"].startswith("const:"):
        d = eng.const_bytes.get(vw["base"])
        if d is not None and vw["off"].is_const() and vw["len"].is_const():
            return d[vw["off"].c: vw["off"].c + vw["len"].c].decode("latin1")
    return None


def once_body(F, path):
    """Copy of `path` in which the back edges of its outermost loop(s) lead to a return: one iteration, the
    continuing exits become observable."""
    name = path + "#once"
    if name in F.bodies:
        return F.bodies[name]
    b = copy.deepcopy(F.body(path))
    loops = cfg.natural_loops(b)
    outer = [lp for lp in loops if not any(o is not lp and lp["blocks"] < o["blocks"] for o in loops)]
    if not outer:
        return None
    n = len(b["blocks"])
    for lp in outer:
        for (a, h) in lp["back_edges"]:
            t = b["blocks"][a]["term"]
            if t["k"] == "goto":
                t["t"] = n
            elif t["k"] == "switch":
                t["tgts"] = [n if x == h else x for x in t["tgts"]]
                if t["otherwise"] == h:
                    t["otherwise"] = n
            elif t.get("t") == h:
                t["t"] = n
    b["blocks"].append({"cleanup": False, "stmts": [], "term": {"k": "ret"}, "sp": b["blocks"][0]["sp"]})
    b["path"] = name
    F.bodies[name] = b
    return b


def source_hooks(eng):
    """Marks values at the quick-xml API: element text, attribute value (with the attribute name it was selected by),
    numbers parsed from text."""
    fired = {"text": 0, "attr": 0, "num": 0}

    def on_call(eng_, st, fr, f, args, site):
        p = f.get("resolved") or f["path"]
        q = f["path"]
        if (p.endswith("::eq") or q.endswith("::eq")) and len(args) == 2:
            ca, cb = const_str(eng_, st, args[0]), const_str(eng_, st, args[1])
            if (ca is None) != (cb is None):
                return [(st, Bool(("sym", "eq:%s" % (ca if ca is not None else cb))))]
        if re.search(r"BytesText(::<[^>]*>)?::(unescape|unescape_with|decode)$", q) or re.search(r"BytesText(::<[^>]*>)?::(unescape|unescape_with|decode)$", p):
            fired["text"] += 1
            return [(st, Top(ret_ty(eng_, site), "src:text"))]
        if re.search(r"Attribute(::<[^>]*>)?::(unescape_value|decode_and_unescape_value|unescaped_value)$", q) or re.search(r"Attribute(::<[^>]*>)?::(unescape_value|decode_and_unescape_value)$", p):
            fired["attr"] += 1
            nm = "?"
            for k in reversed(st.key):
                if k[0] == "sym" and str(k[1]).startswith("eq:") and k[2] is True:
                    nm = k[1][3:]
                    break
            return [(st, Top(ret_ty(eng_, site), "src:attr:%s" % nm))]
        if re.search(r"(Cow::<.*>::into_owned|ToOwned::to_owned|ToString::to_string|Into::into|From::from|Clone::clone|String::from_utf8_lossy|str::<impl str>::(trim|trim_start|trim_end|to_string|to_owned))$", q) and args:
            m = SRC.search(repr(args[0]) + repr(_deref(eng_, st, args[0])))
            if m:
                return [(st, Top(ret_ty(eng_, site), "src:%s.owned" % m.group(1)))]
        if re.search(r"str::<impl str>::parse(::<.*>)?$", q) or re.search(r"FromStr(>)?::from_str$", q):
            m = SRC.search(repr(args[0]) + repr(_deref(eng_, st, args[0])))
            if m:
                fired["num"] += 1
                return [(st, Top(ret_ty(eng_, site), "src:num"))]
        return None

    return on_call, fired


def _deref(eng, st, v):
    try:
        if isinstance(v, Ref):
            return eng.M.read_path(st, v.loc, v.path)
    except Exception:
        pass
    return None


def decode_arm(key):
    """(xml event variant, tag or None) of a partition key of read_event."""
    key = list(key)
    ev = None
    i = 0
    for i, k in enumerate(key):
        if k[0] == "variant" and k[2] in XML_VARIANTS:
            ev = k[2]
            break
    else:
        return None, None
    by = []
    want = None
    tag = None
    for k in key[i + 1:]:
        if k[0] == "cmp" and len(k) >= 5 and str(k[2]).startswith("len(") and k[4] is True and str(k[3]).isdigit():
            want = int(k[3])
            continue
        if k[0] == "cmp" and len(k) >= 5 and str(k[2]).startswith("len("):
            continue
        if k[0] == "val":
            if isinstance(k[2], int) and not isinstance(k[2], bool) and not str(k[1]).startswith("len("):
                by.append(k[2])
                continue
            if isinstance(k[2], int) and str(k[1]).startswith("len("):
                want = k[2]
                continue
            return ev, None  # a byte test fell through: default arm
        if k[0] == "sym" and str(k[1]).startswith("eq:"):
            if k[2] is True:
                tag = k[1][3:]
                break
            continue
        break
    if tag is None and by and (want is None or want == len(by)):
        tag = bytes(by).decode("latin1")
    return ev, tag


def _none_only(eng, v):
    return isinstance(v, Enum) and len(v.variants) == 1 and eng.T.variant_name(v.ty, v.variants[0][0]) == "None"


def origin_of(eng, v, fname):
    """Classification of a scratch-field value at an exit."""
    if isinstance(v, Top) and v.name == "*self.%s" % fname:
        return None  # unchanged
    if _none_only(eng, v):
        return "None"
    s = repr(v)
    m = SRC.findall(s)
    if m:
        return "|".join(sorted(set(m)))
    m = [x for x in SCR.findall(s)]
    if m:
        return "from:" + "|".join(sorted(set(m)))
    if isinstance(v, Enum) and v.name == "dflt":
        return "None"
    return "other"


def link_a(ctx):
    """Per-arm table of Reader::read_event."""
    F = ctx.facts
    b = once_body(F, READ_EVENT)
    if b is None:
        return None
    adt = None
    for nm, a in F.adts.items():
        if nm == "fibex::Reader":
            adt = a
    if adt is None:
        return None
    fnames = [f["name"] for f in adt["variants"][0]["fields"]]
    eng = Engine(F)
    eng.key_all = True
    hook, fired = source_hooks(eng)
    eng.on_call = hook
    outs = eng.call_path(b["path"], eng.symbolic_args(b, names=["self"]))
    arms = []
    for st, rv in outs:
        ev, tag = decode_arm(st.key)
        o = st.locs.get("obj:self")
        if not isinstance(o, Struct):
            continue
        assigned = {}
        for i, fv in enumerate(o.fields):
            if i >= len(fnames):
                break
            og = origin_of(eng, fv, fnames[i])
            if og is not None:
                assigned[fnames[i]] = og
        res, event, efields = "loop", None, {}
        if isinstance(rv, Enum) and len(rv.variants) == 1:
            res = eng.T.variant_name(rv.ty, rv.variants[0][0])
            if res == "Ok":
                e = rv.variants[0][1][0]
                if isinstance(e, Enum) and len(e.variants) == 1:
                    vi = e.variants[0][0]
                    event = eng.T.variant_name(e.ty, vi)
                    try:
                        ea = eng.T.adt(e.ty)
                    except Exception:
                        ea = None
                    names = [f["name"] for f in ea["variants"][vi]["fields"]] if ea else []
                    for j, fv in enumerate(e.variants[0][1]):
                        s = repr(fv)
                        efields[names[j] if j < len(names) else str(j)] = {"scratch": sorted(set(SCR.findall(s))), "src": sorted(set(SRC.findall(s)))}
                else:
                    event = "?"
        arms.append({"xml": ev, "tag": tag, "res": res, "event": event, "efields": efields, "assigned": assigned})
    return {"arms": arms, "fields": fnames, "fired": fired, "exits": len(outs), "body": F.body(READ_EVENT)}


def link_b(ctx):
    """Model-side flow: labels of event fields reaching public records, map keys / values, helper arguments."""
    F = ctx.facts
    b = F.body(READ)
    eng = Engine(F)
    aggs, maps, calls = [], [], []

    def labels(eng_, st, v):
        s = repr(v)
        d = _deref(eng_, st, v)
        if d is not None:
            s += repr(d)
        return sorted(set(EV.findall(s)))

    def on_call(eng_, st, fr, f, args, site):
        q = f["path"]
        p = f.get("resolved") or q
        if q.endswith("Reader::<B>::read_event") or p.endswith("Reader::<B>::read_event") or re.search(r"Reader::<.*>::read_event$", q):
            return [(st, Top(ret_ty(eng_, site), "ev"))]
        m = re.search(r"HashMap::<.*>::(entry|insert|get|contains_key|get_mut|remove)$", q)
        if m and args:
            loc = (args[0].loc, tuple(args[0].path)) if isinstance(args[0], Ref) else None
            sty = F.ty_s(f["self_ty"]) if f.get("self_ty") is not None else ""
            tys = [F.ty_s(a) for a in f.get("args", []) if isinstance(a, int)]
            maps.append({"op": m.group(1), "map": loc, "ty": sty or " ".join(tys), "key": labels(eng_, st, args[1]) if len(args) > 1 else [], "val": labels(eng_, st, args[2]) if len(args) > 2 else [], "fn": fr.path})
        if q == TI or p == TI:
            calls.append({"ref": labels(eng_, st, args[0]), "signals": (args[1].loc, tuple(args[1].path)) if len(args) > 1 and isinstance(args[1], Ref) else None, "codings": (args[2].loc, tuple(args[2].path)) if len(args) > 2 and isinstance(args[2], Ref) else None})
        if re.search(r"Vec::<.*>::push$", q) and len(args) > 1 and isinstance(args[1], Struct) and args[1].ty is None and len(args[1].fields) >= 2:
            calls.append({"push": fr.path, "pos": [labels(eng_, st, x) for x in args[1].fields]})
        return None

    def on_agg(eng_, st, fr, rv, ops):
        n = rv["adt"]
        if n in fibex_spec.MODEL_RECORDS:
            a = F.adts[n]
            names = [f["name"] for f in a["variants"][rv.get("variant", 0) or 0]["fields"]]
            aggs.append({"adt": n, "fn": fr.path, "fields": {names[i]: {"labels": labels(eng_, st, v), "none": _none_only(eng_, v)} for i, v in enumerate(ops) if i < len(names)}})

    closures = {}

    def on_closure(eng_, st, fr, rv, ops):
        closures[rv["def"]] = [(o.loc, tuple(o.path)) if isinstance(o, Ref) else None for o in ops]

    eng.on_call = on_call
    eng.on_agg = on_agg
    eng.on_closure = on_closure
    outs = eng.call_path(READ, eng.symbolic_args(b, names=["files"]))
    return {"aggs": aggs, "maps": maps, "calls": calls, "exits": len(outs), "body": b, "closures": closures}


ITEM = re.compile(r"\*?item\.(\d+)")


def closure_links(ctx):
    """Stand-alone analysis of the closures of read_fibexes / read_pdu / read_frame: what they do with their item."""
    F = ctx.facts
    out = {"sortkey": {}, "project": {}, "ti": [], "get": []}
    for p in sorted(F.bodies):
        owner = p.split("::{closure")[0]
        if "::{closure" not in p or not owner.startswith("fibex::") or "::tests::" in p:
            continue
        cb = F.body(p)
        if cb["arg_count"] != 2:
            continue
        eng = Engine(F)
        seen = []

        def on_call(eng_, st, fr, f, args, site, _seen=seen):
            q = f["path"]
            if q == TI:
                _seen.append(("ti", args))
            elif re.search(r"HashMap::<.*>::get$", q) and fr.depth == 0:
                tys = " ".join(F.ty_s(a) for a in f.get("args", []) if isinstance(a, int))
                _seen.append(("get", args, tys, repr(_deref(eng_, st, args[1])) if len(args) > 1 else ""))
            return None

        eng.on_call = on_call
        try:
            outs = eng.call_path(p, eng.symbolic_args(cb, names=["env", "item"]))
        except Exception:
            continue
        it = F.ty_s(cb["locals"][2]["ty"])
        rets = {repr(rv) for st, rv in outs}
        if it.startswith("&(") and len(rets) == 1:
            m = ITEM.search(next(iter(rets)))
            if m and F.ty(cb["locals"][0]["ty"])["k"] in ("uint", "int"):
                out["sortkey"].setdefault(owner, set()).add(int(m.group(1)))
        elif it.startswith("(") and len(rets) == 1:
            m = ITEM.search(next(iter(rets)))
            if m:
                out["project"].setdefault(owner, set()).add(int(m.group(1)))
        for ev in seen:
            def envidx(v):
                if isinstance(v, Ref) and v.loc == "obj:env" and v.path and v.path[0][0] == "f":
                    return v.path[0][1]
                return None
            if ev[0] == "ti":
                a = ev[1]
                out["ti"].append({"closure": p, "item": "item" in repr(a[0]) and "env" not in repr(a[0]), "signals": envidx(a[1]), "codings": envidx(a[2])})
            elif ev[0] == "get" and "PduMetadata" in ev[2]:
                a = ev[1]
                out["get"].append({"closure": p, "item": ("item" in repr(a[1]) or "item" in ev[3]), "map": envidx(a[0])})
    return out


def check(ctx):
    F, R = ctx.facts, ctx.report
    for p in (READ_EVENT, READ, TI):
        if F.body(p) is None:
            R.violation("FLOW-X", "missing|" + p, "anchor function %s not found" % p, kind="ANCHOR-MISSING")
            return
    A = link_a(ctx)
    if A is None:
        R.violation("FLOW-X", READ_EVENT + "|shape", "Reader::read_event has no event loop / Reader record not found", function=READ_EVENT, kind="UNRECOGNISED-SHAPE")
        return
    body = A["body"]
    fl, ln = body["span"]["f"], body["span"]["l"]
    arms = A["arms"]
    R.sample({"link_a": {"exits": A["exits"], "sources_recognised": A["fired"], "arms": sorted({"%s %s -> %s%s" % (a["xml"], a["tag"], a["res"], ("(" + a["event"] + ")") if a["event"] else "") for a in arms if a["tag"]})}})
    # ---------------------------------------------------------------- FLOW-X
    emitting = [a for a in arms if a["res"] == "Ok" and a["event"] and a["tag"]]
    n_x = 0
    for a in emitting:
        consumed = sorted({f for ef in a["efields"].values() for f in ef["scratch"]})
        if not consumed:
            continue
        opening = [o for o in arms if o["tag"] == a["tag"] and o["xml"] != a["xml"] and o["res"] in ("loop", "Ok")]
        for f in consumed:
            key = "%s|reset|%s|%s" % (READ_EVENT, a["tag"], f)
            if not opening:
                R.violation("FLOW-X", key, "the %s arm for <%s> emits %s carrying scratch field `%s`, but no arm for the opening <%s> continues: nothing resets `%s` when the element starts" % (a["xml"], a["tag"], a["event"], f, a["tag"], f), function=READ_EVENT, file=fl, line=ln)
                continue
            bad = [o for o in opening if f not in o["assigned"]]
            if bad:
                R.violation("FLOW-X", key, "scratch field `%s` is consumed when </%s> is emitted as %s but is not (re)assigned on %d of %d continuing exits of the arm for the opening <%s>: a value left by an earlier or enclosing element leaks into the event" % (f, a["tag"], a["event"], len(bad), len(opening), a["tag"]), function=READ_EVENT, file=fl, line=ln)
            else:
                n_x += 1
                R.obligation("FLOW-X", key, "discharged", "<%s> assigns `%s` (%s) on all %d continuing exits" % (a["tag"], f, "/".join(sorted({o["assigned"][f] for o in opening})), len(opening)))
                R.instance("FLOW-X", "<%s> resets `%s` consumed by %s" % (a["tag"], f, a["event"]))
    tracked = sum(1 for a in emitting for ef in a["efields"].values() if ef["scratch"] or ef["src"])
    if emitting and not tracked:
        R.notes.append("FLOW-X / FLOW-M / FLOW-K not decided: no field of an emitted event could be traced back to a scratch field or an XML source in Reader::read_event")
        return
    R.floor("FLOW-X", 4)
    # ---------------------------------------------------------------- Link A tables
    setters = {}   # scratch field -> {(tag, origin)}
    for a in arms:
        if a["res"] != "loop" or not a["tag"]:
            continue
        for f, og in a["assigned"].items():
            if og not in ("None",) and not og.startswith("from:"):
                setters.setdefault(f, set()).add((a["tag"], og))
    events = {}    # event variant -> {"tags": set, "fields": {efield: {"scratch": set, "src": set}}}
    for a in emitting:
        e = events.setdefault(a["event"], {"tags": set(), "fields": {}})
        e["tags"].add(a["tag"])
        for ef, d in a["efields"].items():
            x = e["fields"].setdefault(ef, {"scratch": set(), "src": set()})
            x["scratch"].update(d["scratch"])
            x["src"].update(d["src"])
    R.sample({"setters": {f: sorted(v) for f, v in sorted(setters.items())}})
    R.sample({"events": {k: {"closing_tags": sorted(v["tags"]), "fields": {ef: {"scratch": sorted(d["scratch"]), "src": sorted(d["src"])} for ef, d in v["fields"].items()}} for k, v in sorted(events.items())}})
    recognised = all(A["fired"][k] > 0 for k in ("text", "attr", "num"))
    if not recognised:
        R.notes.append("FLOW-M/FLOW-K not decided: the quick-xml sources were not all recognised in Reader::read_event (%s)" % (A["fired"],))
        return

    def opening_source(tag, xml, f):
        """Origin the opening arm of `tag` gives scratch field f on all its continuing exits (a real source, not a reset)."""
        ops = [o for o in arms if o["tag"] == tag and o["xml"] != xml and o["res"] in ("loop", "Ok")]
        ogs = {o["assigned"].get(f) for o in ops}
        if ops and len(ogs) == 1:
            og = ogs.pop()
            if og and og != "None" and og != "other" and not og.startswith("from:"):
                return og
        return None

    slot_of = {}   # (closing tag, source tag, origin) -> scratch fields it came through

    def resolve(label):
        """(event variant, field) -> set of (closing tag, source tag, origin)."""
        ev, ef = label
        e = events.get(ev)
        if e is None or ef not in e["fields"]:
            return None
        out = set()
        d = e["fields"][ef]
        for a in emitting:
            if a["event"] != ev:
                continue
            t = a["tag"]
            for s in d["src"]:
                out.add((t, t, s))
            for f in d["scratch"]:
                og = opening_source(t, a["xml"], f)
                if og is not None:
                    for o in og.split("|"):
                        out.add((t, t, o))
                        slot_of.setdefault((t, t, o), set()).add(f)
                    continue
                for (st_, og) in setters.get(f, ()):
                    for o in og.split("|"):
                        out.add((t, st_, o))
                        slot_of.setdefault((t, st_, o), set()).add(f)
        return out

    B = link_b(ctx)
    R.sample({"link_b": {"exits": B["exits"], "records": len(B["aggs"]), "map_ops": len(B["maps"]), "helper_calls": len(B["calls"])}})
    bfl, bln = B["body"]["span"]["f"], B["body"]["span"]["l"]
    entries = []   # (rule, key, what, labels, want, untracked?)
    for (adt, field), want in sorted(fibex_spec.MODEL.items()):
        recs = [g for g in B["aggs"] if g["adt"] == adt and field in g["fields"]]
        if not recs:
            R.notes.append("FLOW-M: no construction of %s.%s seen (not decided)" % (adt, field))
            continue
        labs = set()
        for g in recs:
            labs.update(tuple(x) for x in g["fields"][field]["labels"])
        unl = any(not g["fields"][field]["labels"] and not g["fields"][field]["none"] for g in recs)
        entries.append(("FLOW-M", "%s.%s" % (adt.split("::")[-1], field), "%s.%s" % (adt.split("::")[-1], field), labs, tuple(want), unl))
    K = fibex_spec.KEYS
    C = closure_links(ctx)
    R.sample({"closures": {"sortkey": {k: sorted(v) for k, v in C["sortkey"].items()}, "project": {k: sorted(v) for k, v in C["project"].items()}, "ti": C["ti"], "get": C["get"]}})
    sig_loc = {c["signals"] for c in B["calls"] if "ref" in c and c.get("signals")}
    cod_loc = {c["codings"] for c in B["calls"] if "ref" in c and c.get("codings")}
    # the two String -> String maps are told apart by the order the resolver consults them in (TAB-V pins that order):
    # when the call is not visible (it sits in a closure), by what their values are looked up with: fall back to labels
    seenk = {}

    def add_k(rule_key, what, labs, want):
        d = seenk.setdefault(rule_key, {"what": what, "labs": set(), "want": tuple(want)})
        d["labs"].update(tuple(x) for x in labs)

    ss_inserts = []
    for m in B["maps"]:
        ty = m["ty"]
        if m["op"] == "entry" and "PduMetadata" in ty and "FrameMetadata" not in ty:
            add_k("pdu-map-key", "the key of the PDU map", m["key"], K["pdu_map_key"])
        elif m["op"] == "entry" and "FrameMetadata" in ty and "FrameMetadataIdentification" not in ty:
            add_k("frame-map-key", "the key of the frame map", m["key"], K["frame_map_key"])
        elif m["op"] == "get" and "PduMetadata" in ty:
            add_k("pdu-lookup-key", "the key a frame's PDU is looked up by", m["key"], K["pdu_lookup_key"])
        elif m["op"] == "insert" and m["key"] and m["val"]:
            ss_inserts.append(m)
    # signal and coding maps: the map whose values are a SIGNAL's coding reference / a CODING's base type
    by_map = {}
    map_kind = {}
    for m in ss_inserts:
        d = by_map.setdefault(m["map"], {"key": set(), "val": set()})
        d["key"].update(tuple(x) for x in m["key"])
        d["val"].update(tuple(x) for x in m["val"])
    for loc, d in by_map.items():
        rk = resolve_all(d["key"], resolve)
        if rk is None:
            continue
        closing = {g[0] for g in rk}
        map_kind[loc] = "signals" if closing == {K["signals_key"][0]} else "codings" if closing == {K["codings_key"][0]} else "mixed"
        if map_kind[loc] == "mixed" and closing & {K["signals_key"][0], K["codings_key"][0]}:
            R.violation("FLOW-K", "%s|map-mixed" % READ, "one String -> String map receives entries keyed by fields of different elements (%s): signals and codings are not kept apart" % sorted(closing), function=READ, file=bfl, line=bln)
        if closing == {K["signals_key"][0]}:
            add_k("signals-key", "the key of the signal -> coding map", d["key"], K["signals_key"])
            add_k("signals-val", "the value of the signal -> coding map", d["val"], K["signals_val"])
        elif closing == {K["codings_key"][0]}:
            add_k("codings-key", "the key of the coding -> base type map", d["key"], K["codings_key"])
            add_k("codings-val", "the value of the coding -> base type map", d["val"], K["codings_val"])
    for c in B["calls"]:
        if "ref" in c and c["ref"]:
            add_k("signal-ref", "the signal reference resolved to a type", c["ref"], K["signal_ref"])
        if "push" in c:
            # (sort key, reference) tuples of read_pdu / read_frame: the sort closure names the key position, the
            # projection closure after the sort names the position that survives; the record kind is decided by the
            # closing element of the pushed event fields
            if c["push"] not in C["sortkey"]:
                continue
            ks, ps = C["sortkey"].get(c["push"], set()), C["project"].get(c["push"], set())
            if len(ks) != 1 or len(ps) != 1:
                R.notes.append("FLOW-K: %s: sort-key / projection closures not recognised (not decided)" % c["push"])
                continue
            k_, p_ = next(iter(ks)), next(iter(ps))
            if k_ >= len(c["pos"]) or p_ >= len(c["pos"]):
                continue
            allr = resolve_all([x for pos in c["pos"] for x in pos], resolve)
            if allr is None:
                continue
            closing = {g[0] for g in allr}
            if p_ == k_:
                R.violation("FLOW-K", "%s|projection" % c["push"], "%s sorts its instances by tuple position %d and then keeps position %d: the reference is dropped, the sort key is returned" % (c["push"], k_, p_), function=c["push"])
            elif closing == {K["signal_seq"][0]}:
                add_k("signal-seq", "the sort key of a PDU's signal instances", c["pos"][k_], K["signal_seq"])
                add_k("signal-ref", "the signal reference kept after sorting", c["pos"][p_], K["signal_ref"])
            elif closing == {K["pdu_seq"][0]}:
                add_k("pdu-seq", "the sort key of a frame's PDU instances", c["pos"][k_], K["pdu_seq"])
                add_k("pdu-lookup-key", "the PDU reference kept after sorting", c["pos"][p_], K["pdu_lookup_key"])
            elif len(closing) > 1:
                R.violation("FLOW-K", "%s|mixed" % c["push"], "%s pushes a tuple mixing fields of different elements (%s)" % (c["push"], sorted(closing)), function=c["push"])
    for rk_, d in sorted(seenk.items()):
        entries.append(("FLOW-K", rk_, d["what"], d["labs"], d["want"], False))
    # closures: the resolver gets (item, signal map, coding map); the PDU lookup is keyed by the item
    for t in C["ti"]:
        env = B["closures"].get(t["closure"])
        k = "%s|resolver-args" % t["closure"]
        if env is None or t["signals"] is None or t["codings"] is None or t["signals"] >= len(env) or t["codings"] >= len(env):
            R.notes.append("FLOW-K: the captured maps of %s are not tracked (not decided)" % t["closure"])
            continue
        ks_, kc_ = map_kind.get(env[t["signals"]]), map_kind.get(env[t["codings"]])
        if "mixed" in (ks_, kc_):
            continue
        if not t["item"]:
            R.violation("FLOW-K", k + "|item", "%s does not resolve the iterated signal reference itself" % t["closure"], function=t["closure"])
        elif ks_ == "signals" and kc_ == "codings":
            R.obligation("FLOW-K", k, "discharged", "resolver called with (item, signal -> coding map, coding -> base type map)")
            R.instance("FLOW-K", "%s: resolver(item, signals, codings)" % t["closure"])
        elif ks_ is None or kc_ is None:
            R.notes.append("FLOW-K: the maps handed to the resolver in %s are not the tracked ones (not decided)" % t["closure"])
        else:
            R.violation("FLOW-K", k, "%s hands the resolver the %s map where it expects the signal -> coding map and the %s map where it expects the coding -> base type map" % (t["closure"], ks_, kc_), function=t["closure"])
    for g in C["get"]:
        k = "%s|pdu-get" % g["closure"]
        if g["item"]:
            R.obligation("FLOW-K", k, "discharged", "the PDU map is looked up with the iterated PDU reference")
            R.instance("FLOW-K", "%s: pdu_map.get(item)" % g["closure"])
        else:
            R.violation("FLOW-K", k, "%s looks the PDU map up with something other than the iterated PDU reference" % g["closure"], function=g["closure"])
    # ---- resolve all, then judge with the slot table
    resolved = []
    for rule, key, what, labs, want, unl in entries:
        if not labs:
            if rule == "FLOW-M":
                R.violation(rule, "%s|%s" % (READ, key), "%s is never built from a reader event (spec: <%s> %s inside <%s>)" % (what, want[1], want[2], want[0]), function=READ, file=bfl, line=bln)
            else:
                R.notes.append("%s: %s carries no tracked event field (not decided)" % (rule, what))
            continue
        got = resolve_all(labs, resolve)
        if got is None or not got or any(g[2].endswith("attr:?") for g in got):
            R.notes.append("%s: %s carries event field(s) %s whose origin in Reader::read_event is not tracked (not decided)" % (rule, what, sorted(labs)))
            continue
        resolved.append((rule, key, what, labs, want, unl, got))
    for rule, key, what, labs, want, unl, got in resolved:
        # writers of the slot that cannot occur between <T> and </T> are killed by the reset of the opening arm (FLOW-X)
        ins = fibex_spec.inside(want[0])
        extras = sorted(g for g in got - {want} if g[1] not in ins)
        bad_extra = sorted(g for g in got - {want} if g[1] in ins)
        k = "%s|%s" % (READ, key)
        if unl and want in got and not bad_extra:
            R.notes.append("%s: some constructions of %s carry a value whose origin is not tracked (those are not decided)" % (rule, what))
        if want in got and not bad_extra:
            R.obligation(rule, k, "discharged", "%s <- event field(s) %s <- <%s> %s, record closed by </%s>%s" % (what, sorted(labs), want[1], want[2], want[0], (" (slot shared with %s, which cannot occur inside <%s>)" % (extras, want[0])) if extras else ""))
            R.instance(rule, "%s <- <%s> %s in <%s>" % (what, want[1], want[2], want[0]))
        else:
            R.violation(rule, k, "%s must carry <%s> %s of the enclosing <%s>; the code builds it from event field(s) %s, which Reader::read_event fills from (closing element, source element, kind) %s%s%s" % (
                what, want[1], want[2], want[0], sorted(labs), sorted(got), "" if want in got else " — not the prescribed source", "; some constructions carry an untracked value" if unl else ""), function=READ, file=bfl, line=bln)
    R.floor("FLOW-M", 4)
    R.floor("FLOW-K", 4)


def resolve_all(labs, resolve):
    got = set()
    for lb in sorted(labs):
        r = resolve(tuple(lb))
        if r is None:
            return None
        got |= r
    return got
