"""C09 — filtering drops exactly the messages that fail the configured criteria (DESIGN §4/C09).

The filter verdict is a pure boolean function of header fields and configuration, so it is decided completely over the
*extracted* decision structure (never over inputs):

TAB-F   `parse::filtered_out` analysed fully path-sensitively; library predicates become named atoms by the provenance
        of their arguments (HashSet::contains(set, id), skip_with_level(ext, min), count > set.len()).  Every exit is a
        conjunction of atom literals with a constant verdict; the truth table over all atom assignments (2^13) is compared
        with the formula transcribed from the property statement.
TAB-L   `skip_with_level` as a table over (message type, level class of the message, level class of the minimum); the
        valid/valid row must be `minimum < level` through the derived ordering of LogLevel, whose variant declaration
        order must be the severity order; `u8_to_log_level` = {1..6 -> named level, else None}.
SIB     both `From<DltFilterConfig>` conversions map every field to the same-named field (sets built from the same
        vectors, minimum level through u8_to_log_level).
CONS    the filtered branch consumes and reports payload_length (shared with C04); FLOW: nothing after the verdict depends
        on the filter (C04.FLOW).
"""
import itertools
import re

from engine.interp import Engine
from engine.lin import Lin
from engine.values import Bool, Cont, Enum, Int, Ref, Slice, Struct, Top
from rules import lib_parse
from rules.spec import dlt_spec

LEVEL = "proof"
FN = "parse::filtered_out"
SKIP = "dlt::ExtendedHeader::skip_with_level"
U8LVL = "dlt::u8_to_log_level"
FROM_OWNED = "<filtering::ProcessedDltFilterConfig as std::convert::From<filtering::DltFilterConfig>>::from"
FROM_REF = "<filtering::ProcessedDltFilterConfig as std::convert::From<&filtering::DltFilterConfig>>::from"
CFG = "*filter_config_opt.Some.0"
EXT = "*extended_header.Some.0"


def name_of(eng, st, v, depth=0):
    if depth > 4:
        return "?"
    if isinstance(v, Ref):
        t = eng.M.read_path(st, v.loc, v.path)
        if t is None:
            return "%s%s" % (v.loc, v.path)
        return name_of(eng, st, t, depth + 1)
    if isinstance(v, Top):
        return v.name
    if isinstance(v, Cont):
        return str(v.id)
    if isinstance(v, Enum):
        return v.name
    if isinstance(v, Slice) and isinstance(v.base, str):
        return v.base   # a view of a named sequence (`&vec` passed as `&[T]`)
    if isinstance(v, Int):
        return repr(v.lin)
    if isinstance(v, Struct) and v.fields:
        return name_of(eng, st, v.fields[0], depth + 1)
    return "?"


def atoms_engine(F):
    eng = Engine(F)
    eng.key_all = True

    def on_call(eng_, st, fr, f, args, site):
        p = f["path"]
        lp = f["resolved"] or p
        if re.search(r"HashSet::<.*>::contains$", p):
            return [(st, Bool(("sym", "contains(%s,%s)" % (name_of(eng_, st, args[0]), name_of(eng_, st, args[1])))))]
        if re.search(r"HashSet::<.*>::len$", p):
            n = "len(%s)" % name_of(eng_, st, args[0])
            return [(st, eng_.named_int(n, 64, False, 0, eng_.len_max))]
        if lp == SKIP:
            return [(st, Bool(("sym", "skip(%s,%s)" % (name_of(eng_, st, args[0]), name_of(eng_, st, args[1])))))]
        if p.endswith("cmp::PartialOrd::lt") or p.endswith("cmp::PartialOrd::gt") or p.endswith("cmp::PartialOrd::le") or p.endswith("cmp::PartialOrd::ge"):
            if f.get("self_ty") is not None and eng_.T.t(f["self_ty"]).get("path") == "dlt::LogLevel":
                op, a0, a1 = p.split("::")[-1], name_of(eng_, st, args[0]), name_of(eng_, st, args[1])
                if op in ("gt", "ge"):  # canonical form: a > b is b < a
                    op, a0, a1 = {"gt": "lt", "ge": "le"}[op], a1, a0
                return [(st, Bool(("sym", "%s(%s,%s)" % (op, a0, a1))))]
        return None

    eng.on_call = on_call
    return eng


ATOMS = {
    ("variant", "filter_config_opt"): "cfg",
    ("variant", "extended_header"): "ext",
    ("variant", CFG + ".min_log_level"): "min",
    ("variant", CFG + ".app_ids"): "apps",
    ("variant", CFG + ".context_ids"): "ctxs",
    ("variant", CFG + ".ecu_ids"): "ecus",
    ("variant", "ecu_id"): "ecu",
    ("sym", "contains(%s.app_ids.Some.0,%s.application_id)" % (CFG, EXT)): "app_in",
    ("sym", "contains(%s.context_ids.Some.0,%s.context_id)" % (CFG, EXT)): "ctx_in",
    ("sym", "contains(%s.ecu_ids.Some.0,*ecu_id.Some.0)" % CFG): "ecu_in",
    ("sym", "skip(%s,%s.min_log_level.Some.0)" % (EXT, CFG)): "skip",
    ("cmp", "Gt", CFG + ".app_id_count", "len(%s.app_ids.Some.0)" % CFG): "app_more",
    ("cmp", "Gt", CFG + ".context_id_count", "len(%s.context_ids.Some.0)" % CFG): "ctx_more",
}
ORDER = ["cfg", "ext", "min", "skip", "apps", "app_in", "ctxs", "ctx_in", "ecus", "ecu", "ecu_in", "app_more", "ctx_more"]


def spec(a):
    """The verdict the property prescribes (atoms: presence flags and library predicates)."""
    if not a["cfg"]:
        return False
    if a["ext"]:
        return ((a["min"] and a["skip"]) or (a["apps"] and not a["app_in"]) or (a["ctxs"] and not a["ctx_in"]) or (a["ecus"] and a["ecu"] and not a["ecu_in"]))
    return (a["apps"] and a["app_more"]) or (a["ctxs"] and a["ctx_more"])


def eval_cond(eng, st, c, a):
    """Truth value of condition c under the atom assignment a (None if it mentions something outside the vocabulary)."""
    k = c[0]
    if k == "const":
        return bool(c[1])
    if k == "not":
        v = eval_cond(eng, st, c[1], a)
        return None if v is None else not v
    if k in ("and", "or"):
        x, y = eval_cond(eng, st, c[1], a), eval_cond(eng, st, c[2], a)
        if k == "and":
            if x is False or y is False:
                return False
            return None if (x is None or y is None) else True
        if x is True or y is True:
            return True
        return None if (x is None or y is None) else False
    if k == "sym":
        l = literal(("sym", c[1], True))
        return None if l is None else a[l[0]] == l[1]
    if k == "cmp":
        l = literal(("cmp", c[1], repr(c[2]), repr(c[3]), True))
        return None if l is None else a[l[0]] == l[1]
    if k == "isvar":
        ev = eng.M.read_path(st, c[1], c[2])
        if isinstance(ev, Enum):
            at = ATOMS.get(("variant", ev.name))
            if at is not None:
                some = eng.T.variant_name(ev.ty, eng.T.variant_by_discr(ev.ty, c[3])) == "Some"
                return (a[at] == some) == bool(c[4])
        return None
    return None


def literal(k):
    """(atom name, truth) of a key item, or None if it is not in the vocabulary."""
    if k[0] == "variant":
        a = ATOMS.get(("variant", k[1]))
        if a and k[2] in ("Some", "None"):
            return a, k[2] == "Some"
    elif k[0] == "sym":
        a = ATOMS.get(("sym", k[1]))
        if a:
            return a, bool(k[2])
    elif k[0] == "cmp":
        a = ATOMS.get(("cmp", k[1], k[2], k[3]))
        if a:
            return a, bool(k[4])
        inv = {"Lt": "Gt", "Gt": "Lt", "Le": "Ge", "Ge": "Le"}
        a = ATOMS.get(("cmp", inv.get(k[1], "?"), k[3], k[2]))
        if a:
            return a, bool(k[4])
        # a >= b  ==  not (b > a) etc.
        neg = {"Le": ("Gt", False), "Ge": ("Lt", False)}
        if k[1] in neg:
            op, _ = neg[k[1]]
            a = ATOMS.get(("cmp", op, k[2], k[3])) or ATOMS.get(("cmp", inv[op], k[3], k[2]))
            if a:
                return a, not bool(k[4])
    return None


def run(ctx):
    F, R = ctx.facts, ctx.report
    R.explanation = ("TAB-F: the decision structure of filtered_out (exits = conjunctions of provenance-named atoms with constant verdicts) equals the property's formula on all 2^13 atom assignments; "
                     "TAB-L: skip_with_level / u8_to_log_level tables and the severity order of LogLevel; SIB: both configuration conversions map field to field; CONS/FLOW via C04.")
    R.not_decided = ["HashSet membership semantics (trusted std)", "a hand-built ProcessedDltFilterConfig whose minimum level is Invalid(_) is outside the property's configuration space (rows ignored)"]
    for p in (FN, SKIP, U8LVL, FROM_OWNED, FROM_REF):
        if F.body(p) is None:
            R.violation("ANCHOR", "missing|" + p, "anchor function %s not found" % p, kind="ANCHOR-MISSING")
            return
    tab_f(ctx)
    tab_l(ctx)
    sib(ctx)
    arg_provenance(ctx)
    # the filtered branch consumes / reports payload_length and the filter reaches only filtered_out (C04's rules)
    from rules import C04
    C04.run_cons(ctx)


def tab_f(ctx):
    F, R = ctx.facts, ctx.report
    b = F.body(FN)
    fl, ln = b["span"]["f"], b["span"]["l"]
    eng = atoms_engine(F)
    outs = eng.call_path(FN, eng.symbolic_args(b, names=["extended_header", "filter_config_opt", "ecu_id"]))
    exits = []
    for st, rv in outs:
        res = eng.simplify_cond(st, rv.cond) if isinstance(rv, Bool) else None
        lits = {}
        bad = None
        for k in st.key:
            if k[0] == "out":
                continue
            l = literal(k)
            if l is None:
                bad = k
                break
            if l[0] in lits and lits[l[0]] != l[1]:
                bad = k
                break
            lits[l[0]] = l[1]
        if bad is not None:
            R.violation("TAB-F", "%s|unknown-atom|%s" % (FN, re.sub(r"#\d+", "#", str(bad[:4]))[:160]), "filtered_out branches on a condition outside the property's vocabulary: %s" % (bad,), function=FN, file=fl, line=ln, kind="UNRECOGNISED-SHAPE")
            continue
        if not res:
            R.violation("TAB-F", "%s|verdict-shape" % FN, "an exit's verdict is not a boolean value", function=FN, file=fl, line=ln, kind="UNRECOGNISED-SHAPE")
            continue
        # the verdict may be a constant or a boolean expression over the atoms (e.g. `!set.contains(id)` returned directly)
        exits.append((lits, res, st))
        R.sample({"when": {k: v for k, v in sorted(lits.items())}, "filtered_out": res[1] if res[0] == "const" else repr(res)[:120]})
    R.instance("TAB-F", "%d exits of filtered_out, each a conjunction of atoms with a constant verdict" % len(exits))
    n = bad_rows = 0
    reported = set()
    for vals in itertools.product((False, True), repeat=len(ORDER)):
        a = dict(zip(ORDER, vals))
        # dependent atoms are only meaningful when their guard holds; canonicalise to avoid double counting
        if not a["cfg"] and any(a[x] for x in ORDER[1:]):
            continue
        m = [e for e in exits if all(a[k] == v for k, v in e[0].items())]
        m = [(e[0], eval_cond(eng, e[2], e[1], a)) for e in m]
        if any(e[1] is None for e in m):
            key = "rows|verdict-undetermined"
            if key not in reported:
                reported.add(key)
                R.violation("TAB-F", "%s|%s" % (FN, key), "an exit's verdict depends on a condition outside the property's vocabulary", function=FN, file=fl, line=ln, kind="UNRECOGNISED-SHAPE")
            continue
        n += 1
        want = bool(spec(a))
        if len(m) != 1:
            key = "rows|%d-exits" % len(m)
            if key not in reported:
                reported.add(key)
                R.violation("TAB-F", "%s|%s" % (FN, key), "the assignment %s is matched by %d exits (the decision structure must be deterministic and total)" % ({k: v for k, v in a.items() if v}, len(m)), function=FN, file=fl, line=ln, kind="UNRECOGNISED-SHAPE")
            continue
        got = m[0][1]
        if got != want:
            bad_rows += 1
            # minimal description: which atoms are true
            true_atoms = sorted(k for k, v in a.items() if v)
            cls = "ext" if a["ext"] else "no-ext"
            key = "%s|verdict|%s|%s" % (FN, cls, "drops" if got else "keeps")
            if key not in reported:
                reported.add(key)
                R.violation("TAB-F", key, "filtered_out returns %s where the property prescribes %s, e.g. when exactly these conditions hold: %s" % (got, want, true_atoms), function=FN, file=fl, line=ln, assignment=a)
    R.instance("TAB-F", "%d atom assignments compared with the property's formula, %d differ" % (n, bad_rows))
    if bad_rows == 0 and not reported:
        R.obligation("TAB-F", FN + "|truth-table", "discharged", "verdict equals the property's formula on all %d assignments of the 13 atoms" % n)
    for _ in range(len(exits)):
        R.instance("TAB-F.exit", "exit")
    R.floor("TAB-F.exit", 30)


def order_eval(c, o, a, b):
    """Truth of condition c when cmp(a, b) = o (-1, 0, 1); None outside the vocabulary lt/le over (a, b)."""
    k = c[0]
    if k == "const":
        return bool(c[1])
    if k == "not":
        v = order_eval(c[1], o, a, b)
        return None if v is None else not v
    if k in ("and", "or"):
        x, y = order_eval(c[1], o, a, b), order_eval(c[2], o, a, b)
        if x is None or y is None:
            return None
        return (x and y) if k == "and" else (x or y)
    if k == "sym":
        tab = {"lt(%s,%s)" % (a, b): o < 0, "lt(%s,%s)" % (b, a): o > 0, "le(%s,%s)" % (a, b): o <= 0, "le(%s,%s)" % (b, a): o >= 0,
               "eq(%s,%s)" % (a, b): o == 0, "eq(%s,%s)" % (b, a): o == 0, "ne(%s,%s)" % (a, b): o != 0, "ne(%s,%s)" % (b, a): o != 0}
        return tab.get(c[1])
    return None


def tab_l(ctx):
    F, R = ctx.facts, ctx.report
    # severity order = declaration order (derived PartialOrd compares discriminants first)
    names = [v["name"] for v in F.adts["dlt::LogLevel"]["variants"]]
    if names == dlt_spec.LOG_LEVEL_ORDER:
        R.obligation("TAB-L", "LogLevel|declaration-order", "discharged", "variants declared in severity order %s" % names)
    else:
        R.violation("TAB-L", "LogLevel|declaration-order", "LogLevel variants are declared as %s; the derived ordering must be the severity order %s" % (names, dlt_spec.LOG_LEVEL_ORDER), function="dlt::LogLevel")
    der = [i for i in F.impls if i.get("self") == "dlt::LogLevel" and i.get("trait") == "std::cmp::PartialOrd"]
    if len(der) == 1 and der[0].get("derived"):
        R.obligation("TAB-L", "LogLevel|derived-PartialOrd", "discharged", "PartialOrd for LogLevel is #[derive]d")
    else:
        R.violation("TAB-L", "LogLevel|derived-PartialOrd", "PartialOrd for LogLevel is not the derived one: the severity comparison is no longer given by the declaration order", function="dlt::LogLevel", kind="UNRECOGNISED-SHAPE")
    # skip_with_level
    b = F.body(SKIP)
    eng = atoms_engine(F)
    outs = eng.call_path(SKIP, eng.symbolic_args(b, names=["self", "level"]))
    rows = 0
    for st, rv in outs:
        mt = lvl = n = None
        for k in st.key:
            if k[0] == "variant" and k[1] == "*self.message_type":
                mt = k[2]
            if k[0] == "variant" and k[1] == "level":
                lvl = k[2]
            if k[0] == "variant" and k[1] == "*self.message_type.Log.0":
                n = k[2]
        res = rv.cond if isinstance(rv, Bool) else None
        res = eng.simplify_cond(st, res) if res else None
        rows += 1
        row = "type=%s n=%s min=%s" % (mt, n, lvl)
        if mt is not None and "Log" not in mt.split("|"):
            ok = res == ("const", False)
            want = "false (not a log message)"
        elif n == "Invalid" and lvl == "Invalid":
            continue  # outside the configuration space
        elif n == "Invalid":
            ok = res == ("const", False)
            want = "false (invalid message level is never dropped)"
        elif lvl == "Invalid":
            continue  # outside the configuration space: the processed minimum is one of the six named levels
        elif mt == "Log":
            # semantic: under each of the three orderings of (minimum, message level) the result is "minimum < message"
            # (when the path is keyed on the concrete named levels the orderings are the ones of those levels)
            named = [x for x in dlt_spec.LOG_LEVEL_ORDER if x != "Invalid"]
            ns = [x for x in (n or "").split("|") if x in named] if n and all(x in named for x in n.split("|")) else None
            ls = [x for x in (lvl or "").split("|") if x in named] if lvl and all(x in named for x in lvl.split("|")) else None
            if ns and ls:
                orders = sorted({(named.index(l) > named.index(m)) - (named.index(l) < named.index(m)) for l in ls for m in ns})
            else:
                orders = [-1, 0, 1]
            ok = res is not None and all(order_eval(res, o, "level", "*self.message_type.Log.0") == (o < 0) for o in orders)
            want = "minimum < message level (message less severe than the minimum)"
        else:
            ok = False
            want = "a row keyed on message type"
        if ok:
            R.obligation("TAB-L", "%s|%s" % (SKIP, row), "discharged", want)
        else:
            R.violation("TAB-L", "%s|%s" % (SKIP, re.sub(r"\|", "/", row)), "skip_with_level yields %s for [%s]; the property prescribes %s" % (res, row, want), function=SKIP, file=b["span"]["f"], line=b["span"]["l"])
    R.instance("TAB-L", "%d rows of skip_with_level" % rows)
    if rows < 4:
        R.violation("TAB-L", SKIP + "|rows", "only %d rows extracted (floor 4)" % rows, function=SKIP, kind="UNRECOGNISED-SHAPE")
    # u8_to_log_level
    b = F.body(U8LVL)
    e2 = Engine(F)
    e2.key_all = True
    outs = e2.call_path(U8LVL, e2.symbolic_args(b, names=["v"]))
    # semantic table: for every byte value, the result of every exit whose path condition admits it
    from engine.state import Dead
    got = {}
    other = None
    ambiguous = []
    table = {}
    for st, rv in outs:
        var = None
        if isinstance(rv, Enum) and len(rv.variants) == 1:
            vi, fs = rv.variants[0]
            if e2.T.variant_name(rv.ty, vi) == "None":
                var = None
            else:
                inner = fs[0]
                var = e2.T.variant_name(inner.ty, inner.variants[0][0]) if isinstance(inner, Enum) and len(inner.variants) == 1 else "?"
        else:
            var = "?"
        for c in range(256):
            s2 = st.fork()
            try:
                e2.assume(s2, ("cmp", "Eq", Lin.sym("v"), Lin.const(c)), True)
            except Dead:
                continue
            table.setdefault(c, set()).add(var)
    for c in range(256):
        vs = table.get(c, set())
        if len(vs) != 1:
            ambiguous.append(c)
            continue
        v1 = next(iter(vs))
        if v1 is None:
            continue
        got[c] = v1
    if ambiguous:
        other = "undetermined for %s" % ambiguous[:8]
    want = {v: k for k, v in dlt_spec.MTIN_LOG.items()}
    if got == want and other is None:
        R.obligation("TAB-L", U8LVL + "|table", "discharged", "1..6 -> %s, anything else -> None" % [want[i] for i in sorted(want)])
        R.instance("TAB-L", "u8_to_log_level: %s, else None" % got)
    else:
        R.violation("TAB-L", U8LVL + "|table", "u8_to_log_level maps %s and everything else to %s; the property needs 1..6 -> Fatal..Verbose and no level filter (None) otherwise" % (got, other), function=U8LVL, file=b["span"]["f"], line=b["span"]["l"])


def _peek(eng, st, v):
    try:
        if isinstance(v, Ref):
            return eng.M.read_path(st, v.loc, v.path)
    except Exception:
        pass
    return None


def sib(ctx):
    """Both conversions: result field k comes from source field k (sets from the same-named vector, counts copied,
    minimum through u8_to_log_level)."""
    F, R = ctx.facts, ctx.report
    fields = [f["name"] for f in F.adts["filtering::ProcessedDltFilterConfig"]["variants"][0]["fields"]]
    for path, prefix in ((FROM_OWNED, "cfg."), (FROM_REF, "*cfg.")):
        b = F.body(path)
        eng = Engine(F)
        eng.key_all = True

        def on_call(eng_, st, fr, f, args, site, _p=prefix):
            p = f["path"]
            lp = f["resolved"] or p
            if lp == U8LVL:
                from engine.contracts import ret_ty
                return [(st, Top(ret_ty(eng_, site), "u8_to_log_level(%s)" % name_of(eng_, st, args[0])))]
            if p.endswith("FromIterator>::from_iter") or p.endswith("FromIterator::from_iter") or re.search(r"Iterator::collect(::<.*>)?$", p):
                from engine.contracts import ret_ty
                nm = name_of(eng_, st, args[0])
                srcs = sorted(set(re.findall(r"\*?cfg\.\w+\.Some\.0", nm + " " + repr(args[0]) + " " + repr(_peek(eng_, st, args[0])))))
                if len(srcs) == 1:
                    nm = srcs[0]
                return [(st, Top(ret_ty(eng_, site), "set(%s)" % nm))]
            if re.search(r"(Iterator::(cloned|copied|map|filter|by_ref|rev|chain|inspect|take|skip)(::<.*>)?|IntoIterator::into_iter|IntoIterator>::into_iter|::iter|Clone::clone|ToOwned::to_owned)$", p) and args:
                # lazy adaptors: keep the name of the iterated source
                from engine.contracts import ret_ty
                srcs = sorted(set(re.findall(r"\*?cfg\.\w+\.Some\.0", repr(args[0]) + " " + repr(_peek(eng_, st, args[0])))))
                if len(srcs) == 1:
                    return [(st, Top(ret_ty(eng_, site), "iter(%s)" % srcs[0]))]
            return None

        eng.on_call = on_call
        outs = eng.call_path(path, eng.symbolic_args(b, names=["cfg"]))
        okall = True
        for st, rv in outs:
            if not isinstance(rv, Struct):
                R.violation("SIB", path + "|shape", "conversion result is not a struct value", function=path, kind="UNRECOGNISED-SHAPE")
                okall = False
                continue
            for i, fn in enumerate(fields):
                v = rv.fields[i]
                rep = repr(v)
                src = prefix + fn
                if isinstance(v, Enum) and [eng.T.variant_name(v.ty, x) for x, _ in v.variants] == ["None"]:
                    # no value on this path: legitimate only when the source option is None on this path
                    srcnone = any(k[0] == "variant" and k[1] == src and k[2] == "None" for k in st.key)
                    if srcnone:
                        R.obligation("SIB", "%s|%s|none" % (path, fn), "discharged", "%s is None when %s is None" % (fn, src))
                        continue
                if fn.endswith("_count"):
                    good = isinstance(v, Int) and v.lin == Lin.sym(src)
                elif fn == "min_log_level":
                    good = ("u8_to_log_level(%s.Some.0)" % src) in rep or ("u8_to_log_level(%s" % src) in rep
                else:
                    good = ("set(%s.Some.0)" % src) in rep or ("set(copy(%s.Some.0)" % src) in rep or re.search(r"set\([^)]*%s\.Some\.0" % re.escape(src), rep) is not None
                    others = [o for o in fields if o != fn and not o.endswith("_count") and o != "min_log_level"]
                    if any(re.search(r"%s%s\.Some" % (re.escape(prefix), o), rep) for o in others):
                        good = False
                if good:
                    R.obligation("SIB", "%s|%s" % (path, fn), "discharged", "%s <- %s" % (fn, src))
                else:
                    okall = False
                    R.violation("SIB", "%s|field|%s" % (path, fn), "conversion fills `%s` from %s instead of from the configuration's `%s`" % (fn, rep[:160], fn), function=path, file=b["span"]["f"], line=b["span"]["l"])
        R.instance("SIB", "%s: %d fields mapped name to name%s" % (path.split(" as ")[1][:60], len(fields), "" if okall else " (violations)"))


def arg_provenance(ctx):
    """ARG: what the parser hands the decision function.  dlt_message_intern is analysed with the three header parsers
    replaced by symbolic results — the standard header once with its ECU id present and once absent — and at the call of
    filtered_out (i) the ECU id argument is exactly the standard header's own ECU id (a reference to it when present,
    None when absent — never a value from the storage header or anywhere else), (ii) the extended-header argument is the
    parsed extended header, (iii) the configuration is the caller's."""
    from engine.contracts import deref, ret_ty
    from engine.state import State
    from rules import lib_parse
    from rules.lib_wire import restrict
    F, R = ctx.facts, ctx.report
    INTERN = lib_parse.INTERN
    b = F.body(INTERN)
    if b is None:
        R.notes.append("ARG: %s not found (not decided)" % INTERN)
        return
    fl, ln = b["span"]["f"], b["span"]["l"]
    hooked = {"parse::dlt_standard_header": "sh", "parse::dlt_storage_header": "sth", "parse::dlt_extended_header": "eh"}
    n_calls = 0
    for ecu in ("Some", "None"):
        eng = Engine(F, budget=3000000)
        calls = []
        state = {"built": 0}

        def on_call(eng_, st, fr, f, args, site, ecu=ecu, calls=calls, state=state):
            p = f.get("resolved") or f["path"]
            if p in hooked:
                rt = ret_ty(eng_, site)
                v = eng_.M.force(st, Top(rt, hooked[p]))
                if hooked[p] != "sh" or not isinstance(v, Enum):
                    return [(st, v)]
                # Ok((rest, header)) with header.ecu_id restricted to the chosen variant; Err left as it is
                outs = []
                for vi, fs in v.variants:
                    if eng_.T.variant_name(v.ty, vi) != "Ok" or not fs:
                        outs.append((st.fork(), Enum(v.ty, ((vi, fs),), v.name)))
                        continue
                    ns = st.fork()
                    tup = fs[0]
                    if isinstance(tup, Top):
                        tup = eng_.M.force(ns, tup)
                    if not isinstance(tup, Struct) or len(tup.fields) != 2:
                        return None
                    state["built"] += 1
                    loc = "obj:arghdr%d" % state["built"]
                    ns.locs[loc] = tup.fields[1]
                    if not restrict(eng_, ns, loc, ["ecu_id"], ecu):
                        return None
                    outs.append((ns, Enum(v.ty, ((vi, (Struct(tup.ty, (tup.fields[0], ns.locs[loc])),)),), v.name)))
                return outs
            if p.startswith("parse::dlt_payload") or p == "parse::validated_payload_length":
                return [(st, Top(ret_ty(eng_, site), "pl"))] if p.startswith("parse::dlt_payload") else None
            if p == FN:
                def prov(a):
                    r = repr(a)
                    if isinstance(a, Enum):
                        for vi, fs in a.variants:
                            for x in fs:
                                if isinstance(x, Ref):
                                    try:
                                        r += " -> " + repr(deref(eng_, st, x))
                                    except Exception:
                                        r += " -> ?"
                    return r
                calls.append([(a, prov(a)) for a in args])
                return [(st, Bool(("sym", "filtered_out#%d" % len(calls))))]
            return None

        eng.on_call = on_call
        try:
            eng.call_path(INTERN, eng.symbolic_args(b))
        except Exception as ex:
            R.notes.append("ARG: %s could not be analysed (%r) (not decided)" % (INTERN, ex))
            return
        if not calls or not state["built"]:
            R.violation("ARG", INTERN + "|no-call", "no call of filtered_out after a parsed standard header was seen in %s" % INTERN, function=INTERN, kind="UNRECOGNISED-SHAPE")
            return
        for args in calls:
            n_calls += 1
            if len(args) != 3:
                R.violation("ARG", INTERN + "|arity", "filtered_out is called with %d arguments" % len(args), function=INTERN, kind="UNRECOGNISED-SHAPE")
                continue
            (a0, p0), (a1, p1), (a2, p2) = args
            why = []
            # (i) ECU id
            vs = [eng.T.variant_name(a2.ty, vi) for vi, _ in a2.variants] if isinstance(a2, Enum) else None
            if vs is None:
                why.append("the ECU id argument is not an Option value (%s)" % repr(a2)[:80])
            elif ecu == "None" and vs != ["None"]:
                why.append("the standard header carries no ECU id, yet the decision function is given %s" % ("an ECU id taken from elsewhere (%s)" % ("the storage header" if "sth." in p2 else p2[-120:])))
            elif ecu == "Some" and vs != ["Some"]:
                why.append("the standard header carries an ECU id, yet the decision function can be given None")
            elif ecu == "Some" and ("sh.Ok.0.1.ecu_id" not in p2 or "sth." in p2):
                why.append("the ECU id argument is not the standard header's own ECU id (%s)" % p2[-160:])
            # (ii) extended header: whatever is handed over is the parsed extended header
            if isinstance(a0, Enum):
                for vi, fs in a0.variants:
                    if eng.T.variant_name(a0.ty, vi) == "Some" and "eh.Ok.0.1" not in p0:
                        why.append("the extended-header argument is not the parsed extended header (%s)" % p0[-160:])
                        break
            # (iii) the configuration is the caller's
            if "filter_config_opt" not in p1:
                why.append("the configuration argument is not the caller's filter configuration (%s)" % p1[-120:])
            if why:
                R.violation("ARG", "%s|filtered_out-args|ecu=%s|%s" % (INTERN, ecu, why[0].split(" (")[0][:60]), "%s calls the decision function with the wrong inputs: %s" % (INTERN, "; ".join(why)), function=INTERN, file=fl, line=ln)
            else:
                R.obligation("ARG", "%s|filtered_out-args|ecu=%s|%d" % (INTERN, ecu, n_calls), "discharged", "ECU id argument = the standard header's own ECU id (%s), extended header = parsed extended header, configuration = the caller's" % ecu)
    R.instance("ARG", "%d evaluations of the call of filtered_out (standard header with / without ECU id)" % n_calls)
    R.floor("ARG", 1)
