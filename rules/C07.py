"""C07 — blocking reader equals slice parsing for every fragmentation (DESIGN §4/C07)."""
from rules import lib_call, lib_const

LEVEL = "proof"
FUNCS = ["read::DltMessageReader::<S>::next_message_slice", "read::read_message", "read::DltMessageReader::<S>::new", "read::DltMessageReader::<S>::with_capacity", "read::DltMessageReader::<S>::with_storage_header"]


def run(ctx):
    F, R = ctx.facts, ctx.report
    R.explanation = "CALL-R: the source is only read through Read::read_exact on the BufReader (2 sites); CONST capacity covers the largest message."
    R.not_decided = ["std BufReader/read_exact semantics (trusted: fills the whole slice, retries Interrupted)"]
    # every hand-written function / closure / coroutine body of the module (helpers introduced by a refactoring included)
    funcs = sorted(p for p, b in ctx.facts.bodies.items() if p.startswith("read::") and not b["derived"] and "::tests::" not in p)
    for a in FUNCS:
        if ctx.facts.body(a) is None and a.endswith("next_message_slice"):
            funcs.append(a)  # reported as ANCHOR-MISSING by the callee
    lib_call.check_read_exact(ctx, funcs, r"^std::io::Read$", r"^std::io::BufReader<")
    R.floor("CALL-R", 1)
    c = F.consts.get("read::DEFAULT_MESSAGE_MAX_LEN")
    if c is None:
        R.violation("CONST", "missing|read::DEFAULT_MESSAGE_MAX_LEN", "constant not found", kind="ANCHOR-MISSING")
    else:
        v = int(c["int"])
        R.instance("CONST", "DEFAULT_MESSAGE_MAX_LEN = %d >= 16 + 65535" % v)
        if v < 16 + 65535:
            R.violation("CONST", "value|read::DEFAULT_MESSAGE_MAX_LEN", "DEFAULT_MESSAGE_MAX_LEN = %d is smaller than storage header + largest declarable message (65551): a maximal message overruns the buffer" % v, file=c["sp"]["f"], line=c["sp"]["l"], function="read::DEFAULT_MESSAGE_MAX_LEN")
    c = F.consts.get("read::DEFAULT_BUFFER_CAPACITY")
    if c is not None:
        R.instance("CONST", "DEFAULT_BUFFER_CAPACITY = %s" % c["int"])
    try:
        from rules import lib_reader
        lib_reader.check_read_message(ctx, "read")
        lib_reader.check(ctx, "read")
        R.floor("PANIC", 3)
        R.floor("ALG", 2)
        R.floor("DISP", 6)
    except ImportError:
        R.notes.append("two-phase algebra / disposition / PANIC not built yet")
