"""CONST — evaluated constants and enum discriminants against the spec table."""
from rules.spec import dlt_spec


def const_value(c):
    if "int" in c:
        return int(c["int"])
    if "str" in c:
        return c["str"]
    if "bytes" in c:
        return bytes(c["bytes"])
    return None


def check(ctx, names=None, rule="CONST", enums=True):
    F, R = ctx.facts, ctx.report
    table = dict(dlt_spec.CONSTS)
    if names is not None:
        table = {k: v for k, v in table.items() if k in names}
    for path, want in sorted(table.items()):
        c = F.consts.get(path)
        if c is None:
            R.violation(rule, "missing|" + path, "constant %s not found (renamed or removed): cannot compare with the spec value %r" % (path, want), kind="ANCHOR-MISSING")
            continue
        got = const_value(c)
        if isinstance(want, str) and isinstance(got, bytes):
            got = got.decode("latin1")
        R.instance(rule, "%s = %r (spec %r)" % (path, got, want))
        if got != want:
            R.violation(rule, "value|" + path, "constant %s evaluates to %r, the DLT layout prescribes %r" % (path, got, want), file=c["sp"]["f"], line=c["sp"]["l"], function=path)
    for path, want in sorted(dlt_spec.OPTIONAL_CONSTS.items()):
        c = F.consts.get(path)
        if c is not None and names is None:
            got = const_value(c)
            R.instance(rule, "%s = %r (spec %r)" % (path, got, want))
            if got != want:
                R.violation(rule, "value|" + path, "constant %s evaluates to %r, the DLT layout prescribes %r" % (path, got, want), file=c["sp"]["f"], line=c["sp"]["l"], function=path)
    if enums:
        for adt, tbl in sorted(dlt_spec.ENUM_DISCR.items()):
            a = F.adts.get(adt)
            if a is None or "variants" not in a:
                R.violation(rule, "missing|" + adt, "enum %s not found" % adt, kind="ANCHOR-MISSING")
                continue
            got = {v["name"]: int(v["discr"]) for v in a["variants"]}
            for vn, dv in sorted(tbl.items()):
                R.instance(rule, "%s::%s = %s (spec %d)" % (adt, vn, got.get(vn), dv))
                if got.get(vn) != dv:
                    R.violation(rule, "discr|%s::%s" % (adt, vn), "%s::%s has discriminant %s, its bit width is %d (the code divides the discriminant by 8 to get the byte width)" % (adt, vn, got.get(vn), dv), file=a["sp"]["f"], line=a["sp"]["l"], function=adt)
            for vn in got:
                if vn not in tbl:
                    R.violation(rule, "discr-extra|%s::%s" % (adt, vn), "%s has a variant %s unknown to the spec table" % (adt, vn), function=adt, kind="UNRECOGNISED-SHAPE")
