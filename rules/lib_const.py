"""CONST — evaluated constants and enum discriminants against the spec table."""
from rules.spec import dlt_spec


def const_value(c):
    if "int" in c:
        return int(c["int"])
    if "str" in c:
        return c["str"]
    if "bytes" in c:
        return bytes(c["bytes"])
    return None


def check(ctx, names=None, rule="CONST", enums=True):
    F, R = ctx.facts, ctx.report
    table = dict(dlt_spec.CONSTS)
    if names is not None:
        table = {k: v for k, v in table.items() if k in names}
    def find(path):
        """The constant by path, or — when it was moved into another (sub-)module — the only constant of that name."""
        c = F.consts.get(path)
        if c is not None:
            return c
        name = path.split("::")[-1]
        cands = [v for k, v in F.consts.items() if k.split("::")[-1] == name and not k.startswith("<") and "::{" not in k]
        return cands[0] if len(cands) == 1 else None

    for path, want in sorted(table.items()):
        c = find(path)
        if c is None:
            # a constant that was renamed, inlined or removed cannot be compared; the layouts that use its value are
            # compared by the WIRE / TAB rules, so this is reported as not decided rather than as a finding
            R.notes.append("%s: constant %s not found (renamed or removed): not compared with the spec value %r" % (rule, path, want))
            continue
        got = const_value(c)
        if isinstance(want, str) and isinstance(got, bytes):
            got = got.decode("latin1")
        R.instance(rule, "%s = %r (spec %r)" % (path, got, want))
        if got != want:
            R.violation(rule, "value|" + path, "constant %s evaluates to %r, the DLT layout prescribes %r" % (path, got, want), file=c["sp"]["f"], line=c["sp"]["l"], function=path)
    for path, want in sorted(dlt_spec.OPTIONAL_CONSTS.items()):
        c = find(path)
        if c is not None and names is None:
            got = const_value(c)
            R.instance(rule, "%s = %r (spec %r)" % (path, got, want))
            if got != want:
                R.violation(rule, "value|" + path, "constant %s evaluates to %r, the DLT layout prescribes %r" % (path, got, want), file=c["sp"]["f"], line=c["sp"]["l"], function=path)
    if enums:
        for adt, tbl in sorted(dlt_spec.ENUM_DISCR.items()):
            a = F.adts.get(adt)
            if a is None or "variants" not in a:
                R.violation(rule, "missing|" + adt, "enum %s not found" % adt, kind="ANCHOR-MISSING")
                continue
            got = {v["name"]: int(v["discr"]) for v in a["variants"]}
            for vn, dv in sorted(tbl.items()):
                R.instance(rule, "%s::%s = %s (spec %d)" % (adt, vn, got.get(vn), dv))
                if got.get(vn) != dv:
                    R.violation(rule, "discr|%s::%s" % (adt, vn), "%s::%s has discriminant %s, its bit width is %d (the code divides the discriminant by 8 to get the byte width)" % (adt, vn, got.get(vn), dv), file=a["sp"]["f"], line=a["sp"]["l"], function=adt)
            for vn in got:
                if vn not in tbl:
                    R.violation(rule, "discr-extra|%s::%s" % (adt, vn), "%s has a variant %s unknown to the spec table" % (adt, vn), function=adt, kind="UNRECOGNISED-SHAPE")
