"""WIRE-PA — parser-side layout of one verbose argument (`parse::dlt_argument`) against the DLT layout.

The engine analyses dlt_argument stand-alone on a symbolic input slice, partitioned on the argument kind, the declared
width and the VARI / FIXP bits of the type-info word.  On every accepting exit each field of the returned `Argument`
is then a named read `rd[input@offset:width:order]`, a copy of `input[offset..]`, or absent, and the remainder is a slice
with a linear offset.  The rule recomputes the offsets the PRS prescribes for that shape —

    type info (4) | STRG/RAWD: data length u16 | VARI: name length u16 [, unit length u16 for numeric kinds]
                  | name bytes | unit bytes | FIXP: quantization f32, offset i32 (32-bit data) / i64 (64-bit data) | data

— as linear expressions over the same length reads and compares: where every field is read, how wide, in which byte
order class (message order), which optional parts are present, and where the next argument starts.
"""
import re

from engine.lin import Lin
from engine.values import Bool, Cont, Enum, Flt, Int, Slice, Struct, Top
from rules import lib_parse
from rules.lib_wire import INT_W, KIND_VALUES, NUMERIC

ARG = "parse::dlt_argument"
WIDTH_BITS = {"BitLength8": 8, "BitLength16": 16, "BitLength32": 32, "BitLength64": 64, "BitLength128": 128, "Width32": 32, "Width64": 64}
_cache = {}


def rdsym(off, w, order="T", signed=False):
    return "%s[input@%s:%d:%s]" % ("rds" if signed else "rd", off, w, order if w > 1 else "1")


def analysis(ctx):
    F = ctx.facts
    k = id(F)
    if k not in _cache:
        b = F.body(ARG)
        if b is None:
            _cache[k] = (None, None)
        else:
            eng = lib_parse.mk_engine(F, cuts=[])
            eng.key_adts = {"dlt::TypeInfoKind", "dlt::TypeLength", "dlt::FloatWidth"}
            wn = set()
            for a in ("dlt::TypeLength", "dlt::FloatWidth"):
                if a in F.adts:
                    wn |= {v["name"] for v in F.adts[a]["variants"]}
            eng.keep_key = lambda x, fr: x[0] in ("bit", "find", "tag", "tab", "bits_eq") or (x[0] == "variant" and set(str(x[2]).split("|")) <= wn)
            outs = eng.call_path(ARG, eng.symbolic_args(b, names=["input"]))
            _cache[k] = (eng, outs)
    return _cache[k]


def one(eng, v):
    """(variant name, payload) of an enum value with exactly one possible variant."""
    if isinstance(v, Enum) and len(v.variants) == 1:
        vi, fs = v.variants[0]
        return eng.T.variant_name(v.ty, vi), fs
    return None, None


def copy_of(v):
    """(offset, length) if v is an owned copy of input[offset .. offset+length)."""
    if isinstance(v, Cont) and v.segs is not None and len(v.segs) == 1 and v.segs[0][0] == "bytes" and v.segs[0][1] == "input":
        return v.segs[0][2], v.segs[0][3]
    return None


def leq(st, eng, a, b):
    return st.holds(b.sub(a), eng)


def check(ctx, rule="WIRE-PA"):
    F, R = ctx.facts, ctx.report
    eng, outs = analysis(ctx)
    if eng is None:
        R.violation("ANCHOR", "missing|" + ARG, "anchor function %s not found" % ARG, kind="ANCHOR-MISSING")
        return 0
    b = F.body(ARG)
    fl, ln = b["span"]["f"], b["span"]["l"]
    names = [f["name"] for f in F.adts["dlt::Argument"]["variants"][0]["fields"]]
    tnames = [f["name"] for f in F.adts["dlt::TypeInfo"]["variants"][0]["fields"]]
    need = {"type_info", "name", "unit", "fixed_point", "value"}
    if not need <= set(names):
        R.notes.append("%s: dlt::Argument has fields %s (not decided)" % (rule, names))
        return 0
    tiw = "rd[input@0:4:T]"
    n_ok = undec = 0
    shapes = set()
    for st, rv in outs:
        if not isinstance(rv, Enum):
            continue
        for vi, fs in rv.variants:
            if vi != 0:
                continue
            s2 = lib_parse.ok_state(eng, st, rv, 0)
            if s2 is None:
                continue
            tup = fs[0]
            if isinstance(tup, Top):
                tup = eng.M.force(s2, tup)
            rem, arg = tup.fields[0], tup.fields[1]
            if isinstance(arg, Top):
                arg = eng.M.force(s2, arg)
            if not isinstance(arg, Struct) or not isinstance(rem, Slice):
                undec += 1
                continue
            A = dict(zip(names, arg.fields))
            ti = A["type_info"]
            if not isinstance(ti, Struct):
                undec += 1
                continue
            TI = dict(zip(tnames, ti.fields))
            kind, _ = one(eng, TI["kind"])
            vname, vfs = one(eng, A["value"])
            bits = s2.bits.get(tiw, {})
            vari = bits.get(11)
            if kind is None or vname is None or vari is None:
                undec += 1
                continue
            declared = sorted({WIDTH_BITS[x] for k in s2.key if k[0] == "variant" for x in str(k[2]).split("|") if x in WIDTH_BITS and len(str(k[2]).split("|")) == 1})
            shape = "%s/%s%s%s" % (kind, vname, "+VARI" if vari else "", "")
            key = "%s|%s" % (ARG, shape)
            why = []
            o = Lin.const(4)
            name_len = unit_len = data_len = None
            if kind in ("StringType", "Raw"):
                data_len = Lin.sym(rdsym(o, 2))
                o = o.add(2)
            if vari:
                name_len = Lin.sym(rdsym(o, 2))
                o = o.add(2)
                if kind in NUMERIC:
                    unit_len = Lin.sym(rdsym(o, 2))
                    o = o.add(2)
                name_off = o
                o = o.add(name_len)
                if unit_len is not None:
                    unit_off = o
                    o = o.add(unit_len)
            # name / unit
            for fld, ln_, off_ in (("name", name_len, name_off if vari else None), ("unit", unit_len, unit_off if (vari and unit_len is not None) else None)):
                on, ofs = one(eng, A[fld])
                if ln_ is None:
                    if on != "None":
                        why.append("`%s` is %s although the layout has no %s here (VARI=%d, kind %s)" % (fld, on, fld, vari, kind))
                    continue
                if on != "Some":
                    why.append("`%s` is %s although VARI is set" % (fld, on))
                    continue
                c = copy_of(ofs[0])
                if c is None:
                    why.append("`%s` is not a copy of input bytes (%r)" % (fld, ofs[0]))
                elif c[0] != off_:
                    why.append("`%s` is read at offset %s, the layout puts it at %s" % (fld, c[0], off_))
                elif not leq(s2, eng, c[1], ln_):
                    why.append("`%s` may be longer (%s) than its declared length %s" % (fld, c[1], ln_))
            # fixed point
            fn_, ffs = one(eng, A["fixed_point"])
            fixp = kind in ("SignedFixedPoint", "UnsignedFixedPoint")
            if fixp:
                if fn_ != "Some":
                    why.append("fixed_point is %s for a fixed-point kind" % fn_)
                else:
                    fp = ffs[0]
                    if isinstance(fp, Top):
                        fp = eng.M.force(s2, fp)
                    fpn = [f["name"] for f in F.adts["dlt::FixedPoint"]["variants"][0]["fields"]]
                    FP = dict(zip(fpn, fp.fields)) if isinstance(fp, Struct) else {}
                    q = FP.get("quantization")
                    if not (isinstance(q, Flt) and q.term == ("sym", rdsym(o, 4))):
                        why.append("quantization is %r, the layout puts a 32-bit float in message order at %s" % (getattr(q, "term", q), o))
                    on, ofs = one(eng, FP.get("offset"))
                    ow = {"I32": 4, "I64": 8}.get(on)
                    dw = INT_W.get(vname)
                    if ow is None or not isinstance(ofs[0], Int) or ofs[0].lin != Lin.sym(rdsym(o.add(4), ow, signed=True)):
                        why.append("fixed-point offset is %s(%s), the layout puts it at %s" % (on, getattr(ofs[0], "lin", "?") if ofs else "?", o.add(4)))
                    elif dw is not None and ow != dw:
                        why.append("fixed-point offset has %d bytes for %d-byte data (32-bit data carries an i32 offset, 64-bit data an i64 offset)" % (ow, dw))
                    o = o.add(4).add(ow or 0)
            elif fn_ != "None":
                why.append("fixed_point is %s for kind %s" % (fn_, kind))
            # value
            if vname not in KIND_VALUES.get(kind, {"StringVal"} if kind == "StringType" else {"Raw"} if kind == "Raw" else set()):
                why.append("a %s argument yields a %s value" % (kind, vname))
            if kind in ("StringType", "Raw"):
                c = copy_of(vfs[0]) if vfs else None
                if c is None:
                    why.append("the data is not a copy of input bytes (%r)" % (vfs[0] if vfs else None,))
                elif c[0] != o:
                    why.append("the data is read at offset %s, the layout puts it at %s" % (c[0], o))
                elif kind == "Raw" and c[1] != data_len:
                    why.append("raw data has length %s, the layout says %s (the u16 at offset 4)" % (c[1], data_len))
                elif kind == "StringType" and not leq(s2, eng, c[1], data_len):
                    why.append("string data may be longer (%s) than its declared length %s" % (c[1], data_len))
                o = o.add(data_len)
            else:
                w = INT_W.get(vname)
                v0 = vfs[0] if vfs else None
                want = rdsym(o, w, signed=vname.startswith("I")) if w else None
                if w is None:
                    why.append("unknown value variant %s" % vname)
                elif isinstance(v0, Int):
                    if v0.lin != Lin.sym(want):
                        why.append("the value is %s, the layout puts a %d-byte number in message order at %s" % (v0.lin, w, o))
                elif isinstance(v0, Flt):
                    if v0.term != ("sym", want):
                        why.append("the value is %r, the layout puts a %d-byte float in message order at %s" % (v0.term, w, o))
                elif isinstance(v0, Bool):
                    if want not in repr(v0.cond):
                        why.append("the boolean is %r, the layout puts it in the byte at %s" % (v0.cond, o))
                else:
                    why.append("the value %r is not a read of the input" % (v0,))
                if w and declared and kind != "Bool" and declared != [w * 8]:
                    why.append("a declared width of %s bits is decoded as a %d-bit value" % (declared, w * 8))
                o = o.add(w or 0)
            # remainder
            if not (rem.base == "input" and rem.off == o):
                why.append("the next argument starts at %s, the layout ends this one at %s" % (rem.off, o))
            shapes.add(shape)
            if why:
                R.violation(rule, key, "verbose argument %s is decoded off the DLT layout: %s" % (shape, "; ".join(why[:3])), function=ARG, file=fl, line=ln)
            else:
                n_ok += 1
                R.obligation(rule, key + "|" + repr(tuple(k for k in s2.key if k[0] == "bit")), "discharged", "all fields and the remainder at the prescribed offsets (end %s)" % o)
    for sh in sorted(shapes):
        R.instance(rule, "shape %s" % sh)
    if undec:
        R.notes.append("%s: %d accepting exit(s) of dlt_argument with an untracked shape (not decided)" % (rule, undec))
    return n_ok
