"""C01 — serialise-then-parse identity (structural necessary conditions, DESIGN §4/C01)."""
from rules import lib_ord

LEVEL = "other"
PAIRED = ("dlt::Message::as_bytes", "dlt::Message::new", "parse::dlt_message_intern", "parse::construct_arguments")


def wire_bodies(F):
    return sorted(p for p, b in F.bodies.items() if not b["derived"] and (p.startswith("dlt::") or p.startswith("parse::") or p.startswith("<dlt::") or p.startswith("<parse::") or p.startswith("<byteorder::") or p.startswith("<bytes::")))


def run(ctx):
    F, R = ctx.facts, ctx.report
    R.explanation = ("ORD-1 byte-order discipline of every numeric wire primitive reference; WIRE: the serialised layout of every well-formed argument shape, payload kind, header and of the whole message equals the DLT layout (field order, widths, byte-order class, source field, length-prefix arithmetic); "
                     "TAB: message-info, header-type, type-info and control-id code tables decode and re-encode consistently; CONS/ORDER/HINT: every Ok exit of the parser returns input[A+L..] and requires the whole declared message, Incomplete hints never exceed the shortfall - bytes behind the message do not influence the result.")
    R.not_decided = ["equality of field values through nom/byteorder/String conversions (trusted library semantics)", "the round-trip equality itself (runtime values)"]
    n = lib_ord.check(ctx, wire_bodies(F), "ORD-1", PAIRED)
    R.floor("ORD-1", 90)
    wire_and_consumption(ctx)
    code_tables(ctx)


def code_tables(ctx):
    """TAB: every code table the wire format uses (message info, header type, type info, control service id) is
    decoded and re-encoded consistently — a value the writer can emit that the reader maps to a different value breaks
    the round trip (shared with C02 / C14 / C16)."""
    from rules import lib_codes
    R = ctx.report
    lib_codes.check_msin(ctx)
    R.floor("TAB-MSIN.row", 20)
    lib_codes.check_msin_compose(ctx)
    lib_codes.check_htyp(ctx)
    R.floor("TAB-HTYP.row", 24)
    lib_codes.check_typeinfo(ctx)
    R.floor("TAB-TI.row", 60)
    lib_codes.check_ctrl_id(ctx)
    from rules import lib_wirep, lib_wirepa
    lib_wirep.check_payload_dispatch(ctx)
    lib_wirepa.check(ctx, "WIRE-PA")
    R.floor("WIRE-PA", 20)


def wire_and_consumption(ctx, cons=True, strict_verdict=False):
    """WIRE: the writer's byte layout per input shape against the spec layout (arguments, payload kinds, the three
    headers, message assembly); CONS/ORDER/HINT: the parser consumes exactly the declared message and nothing behind it
    influences the verdict (shared with C04/C05)."""
    from rules import lib_wire
    R = ctx.report
    rows = lib_wire.check_writer(ctx, "WIRE-W")
    R.floor("WIRE-W.shape", 40)
    lib_wire.check_len(ctx, rows, "WIRE-L")
    lib_wire.check_payload(ctx, "WIRE-P")
    R.floor("WIRE-P", 4)
    lib_wire.check_headers(ctx, "WIRE-H")
    R.floor("WIRE-H", 11)
    lib_wire.check_message(ctx, "WIRE-M")
    R.floor("WIRE-M", 8)
    if cons:
        from rules import C04, lib_incomplete
        C04.run_cons(ctx)
        lib_incomplete.check(ctx, strict_verdict=strict_verdict)
