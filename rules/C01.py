"""C01 — serialise-then-parse identity (structural necessary conditions, DESIGN §4/C01)."""
from rules import lib_ord

LEVEL = "other"
PAIRED = ("dlt::Message::as_bytes", "dlt::Message::new", "parse::dlt_message_intern", "parse::construct_arguments")


def wire_bodies(F):
    return sorted(p for p, b in F.bodies.items() if not b["derived"] and (p.startswith("dlt::") or p.startswith("parse::") or p.startswith("<dlt::") or p.startswith("<parse::") or p.startswith("<byteorder::") or p.startswith("<bytes::")))


def run(ctx):
    F, R = ctx.facts, ctx.report
    R.explanation = "ORD-1 byte-order discipline of every numeric wire primitive reference in dlt.rs/parse.rs (T-generic, spec-fixed, impl and paired dispatch contexts)."
    R.not_decided = ["equality of field values through nom/byteorder/String conversions (trusted library semantics)", "the round-trip equality itself (runtime values)"]
    n = lib_ord.check(ctx, wire_bodies(F), "ORD-1", PAIRED)
    R.floor("ORD-1", 90)
