"""PANIC — turn the engine's proof obligations into report entries."""
import json
import os

VERIF = os.path.dirname(os.path.dirname(os.path.abspath(__file__)))


def load_lemmas():
    p = os.path.join(VERIF, "rules", "assumed_lemmas.json")
    if os.path.isfile(p):
        return {l["key"]: l for l in json.load(open(p))}
    return {}


def report(ctx, eng, rule="PANIC", only_funcs=None, entry=None):
    """Every obligation the engine enumerated becomes a report obligation; open ones are violations
    unless listed (by exact key) as an assumed lemma."""
    R = ctx.report
    lemmas = load_lemmas()
    n = 0
    for key, ob in sorted(eng.obligations.items()):
        if only_funcs is not None and ob.func not in only_funcs:
            continue
        n += 1
        full = "%s|%s|%s" % (ctx.prop, rule, key)
        R.instance(rule, key)
        if ob.status == "discharged":
            R.obligation(rule, key, "discharged", ob.reason, nontrivial=not ob.reason.startswith("condition constant"))
        elif full in lemmas:
            R.obligation(rule, key, "assumed-lemma", lemmas[full]["reason"])
            R.notes.append("assumed lemma: %s — %s" % (full, lemmas[full]["reason"]))
        else:
            R.obligation(rule, key, "open", ob.need)
            R.violation(rule, key, "panic-capable site not discharged: %s %s needs `%s`%s" % (ob.kind, ob.desc, ob.need, (" (" + ob.reason + ")") if ob.reason else ""),
                        file=ob.file, line=ob.line, function=ob.func, entry_point=entry, call_chain=ob.chain, known_facts=ob.facts, needed=ob.need)
    for f in eng.analysed:
        R.fn(f)
    return n
