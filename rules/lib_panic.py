"""PANIC — turn the engine's proof obligations into report entries."""
import json
import os

VERIF = os.path.dirname(os.path.dirname(os.path.abspath(__file__)))


def load_lemmas():
    p = os.path.join(VERIF, "rules", "assumed_lemmas.json")
    if os.path.isfile(p):
        return {l["key"]: l for l in json.load(open(p))}
    return {}


def report(ctx, eng, rule="PANIC", only_funcs=None, entry=None):
    """Every obligation the engine enumerated becomes a report obligation; open ones are violations
    unless listed (by exact key) as an assumed lemma."""
    return report_obs(ctx, export(eng), sorted(eng.analysed), rule, only_funcs, entry)


def export(eng):
    """Picklable form of the engine's obligations."""
    out = []
    for key, ob in sorted(eng.obligations.items()):
        out.append({"key": key, "kind": ob.kind, "func": ob.func, "file": ob.file, "line": ob.line, "status": ob.status, "reason": ob.reason, "need": ob.need,
                    "facts": list(ob.facts or []), "chain": list(ob.chain or []), "desc": ob.desc})
    return out


def report_obs(ctx, obs, analysed, rule="PANIC", only_funcs=None, entry=None):
    R = ctx.report
    lemmas = load_lemmas()
    n = 0
    for ob in obs:
        key = ob["key"]
        if only_funcs is not None and ob["func"] not in only_funcs:
            continue
        n += 1
        full = "%s|%s|%s" % (ctx.prop, rule, key)
        R.instance(rule, key)
        if ob["status"] == "discharged":
            R.obligation(rule, key, "discharged", ob["reason"], nontrivial=not ob["reason"].startswith("condition constant"))
        elif full in lemmas:
            R.obligation(rule, key, "assumed-lemma", lemmas[full]["reason"])
            R.notes.append("assumed lemma: %s — %s" % (full, lemmas[full]["reason"]))
        else:
            R.obligation(rule, key, "open", ob["need"])
            R.violation(rule, key, "panic-capable site not discharged: %s %s needs `%s`%s" % (ob["kind"], ob["desc"], ob["need"], (" (" + ob["reason"] + ")") if ob["reason"] else ""),
                        file=ob["file"], line=ob["line"], function=ob["func"], entry_point=entry, call_chain=ob["chain"], known_facts=ob["facts"], needed=ob["need"])
    for f in analysed:
        R.fn(f)
    return n


def check(ctx, entries, reach, rule="PANIC", modular=True, budget=300000):
    """Modular PANIC pass: every handwritten function of `reach` (default: everything reachable from
    `entries`) is analysed stand-alone with unconstrained arguments; calls to other members of the
    set are not inlined (they are analysed on their own), small helpers outside the set are."""
    from engine.interp import Budget, Engine

    F, R = ctx.facts, ctx.report
    if reach is None:
        reach = sorted(p for p in ctx.cg.local_reachable(entries) if not F.body(p)["derived"])
    members = set(reach)
    eng = Engine(F, budget=budget)
    eng.inline_filter = (lambda p: p not in members) if modular else None
    n = 0
    for p in reach:
        b = F.body(p)
        if b is None or b["derived"]:
            continue
        try:
            eng.steps = 0
            eng.call_path(p, eng.symbolic_args(b))
            n += 1
        except Budget as e:
            R.violation(rule, p + "|budget", "analysis budget exceeded: %s" % e, function=p, kind="UNRECOGNISED-SHAPE")
        except RecursionError:
            R.violation(rule, p + "|recursion", "analysis recursion limit", function=p, kind="UNRECOGNISED-SHAPE")
    R.extra["panic_functions_analysed"] = n
    report(ctx, eng, rule, entry=entries[0] if entries else None)
    return eng
