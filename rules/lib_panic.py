"""PANIC — turn the engine's proof obligations into report entries."""
import json
import os

VERIF = os.path.dirname(os.path.dirname(os.path.abspath(__file__)))


def load_lemmas():
    p = os.path.join(VERIF, "rules", "assumed_lemmas.json")
    if os.path.isfile(p):
        return {l["key"]: l for l in json.load(open(p))}
    return {}


def report(ctx, eng, rule="PANIC", only_funcs=None, entry=None):
    """Every obligation the engine enumerated becomes a report obligation; open ones are violations
    unless listed (by exact key) as an assumed lemma."""
    return report_obs(ctx, export(eng), sorted(eng.analysed), rule, only_funcs, entry)


def export(eng):
    """Picklable form of the engine's obligations."""
    out = []
    for key, ob in sorted(eng.obligations.items()):
        out.append({"key": key, "kind": ob.kind, "func": ob.func, "file": ob.file, "line": ob.line, "status": ob.status, "reason": ob.reason, "need": ob.need,
                    "facts": list(ob.facts or []), "chain": list(ob.chain or []), "desc": ob.desc})
    return out


def report_obs(ctx, obs, analysed, rule="PANIC", only_funcs=None, entry=None):
    R = ctx.report
    lemmas = load_lemmas()
    n = 0
    for ob in obs:
        key = ob["key"]
        if only_funcs is not None and ob["func"] not in only_funcs:
            continue
        n += 1
        full = "%s|%s|%s" % (ctx.prop, rule, key)
        R.instance(rule, key)
        if ob["status"] == "discharged":
            R.obligation(rule, key, "discharged", ob["reason"], nontrivial=not ob["reason"].startswith("condition constant"))
        elif full in lemmas:
            R.obligation(rule, key, "assumed-lemma", lemmas[full]["reason"])
            R.notes.append("assumed lemma: %s — %s" % (full, lemmas[full]["reason"]))
        else:
            R.obligation(rule, key, "open", ob["need"])
            R.violation(rule, key, "panic-capable site not discharged: %s %s needs `%s`%s" % (ob["kind"], ob["desc"], ob["need"], (" (" + ob["reason"] + ")") if ob["reason"] else ""),
                        file=ob["file"], line=ob["line"], function=ob["func"], entry_point=entry, call_chain=ob["chain"], known_facts=ob["facts"], needed=ob["need"])
    for f in analysed:
        R.fn(f)
    return n


def check(ctx, entries, reach, rule="PANIC", modular=True, budget=300000, fold_scope=None, engine_setup=None):
    """Modular PANIC pass: every handwritten function of `reach` (default: everything reachable from
    `entries`) is analysed stand-alone with unconstrained arguments; calls to other members of the
    set are not inlined (they are analysed on their own), small helpers outside the set are."""
    from engine.interp import Budget, Engine

    F, R = ctx.facts, ctx.report
    if reach is None:
        reach = sorted(p for p in ctx.cg.local_reachable(entries) if not F.body(p)["derived"])
    members = set(reach)
    eng = Engine(F, budget=budget)
    if engine_setup is not None:
        engine_setup(eng)  # interface assumptions of the caller's scope (e.g. I(Message) for writer-side functions)
    from engine import cfg as _cfg
    # members are analysed on their own and not inlined into each other — except small loop-free helpers (a guard such
    # as `ensure_available(data, off, n)?` extracted into a function must still establish its fact at the call site)
    small = {p for p in members if F.body(p) is not None and len(F.body(p)["blocks"]) <= 40 and not _cfg.natural_loops(F.body(p)) and F.body(p)["kind"] != "closure"}
    eng.inline_filter = (lambda p: p not in members or p in small) if modular else None
    n = 0
    folds = fold_closures(F, fold_scope or reach)
    for p in reach:
        b = F.body(p)
        if b is None or b["derived"]:
            continue
        try:
            eng.steps = 0
            args = eng.symbolic_args(b)
            st0 = None
            if p in folds and len(args) >= 2:
                # the accumulator of an Iterator::fold step: integer components are counters (counter axiom: an
                # accumulator that grows by a small constant per element of a finite iterator cannot overflow 64 bits)
                from engine.state import State
                st0 = State()
                args[1] = counter_value(eng, st0, args[1], "acc")
            eng.call_path(p, args, st=st0)
            n += 1
        except Budget as e:
            R.violation(rule, p + "|budget", "analysis budget exceeded: %s" % e, function=p, kind="UNRECOGNISED-SHAPE")
        except RecursionError:
            R.violation(rule, p + "|recursion", "analysis recursion limit", function=p, kind="UNRECOGNISED-SHAPE")
    R.extra["panic_functions_analysed"] = n
    obs = export(eng)
    if modular and entries and any(o["status"] != "discharged" for o in obs):
        obs = rescue_in_context(ctx, eng, obs, entries, members, rule)
    report_obs(ctx, obs, sorted(eng.analysed), rule, None, entries[0] if entries else None)
    return eng


def rescue_in_context(ctx, eng, obs, entries, members, rule):
    """Modular analysis assumes nothing about a helper's arguments.  A site that stays open in a *private* helper whose
    every caller lies inside the analysed set is re-examined in context: the entry points are analysed with everything
    inlined (closures handed to `map(..).collect()` as abstract loops, the length-bound join template at every join);
    if the site is reached there and discharged on every visit, it is discharged — all its contexts were covered."""
    from engine.interp import Budget, Engine
    F, R, cg = ctx.facts, ctx.report, ctx.cg
    callers = {}
    for c, tgts in cg.edges.items():
        for t in tgts:
            callers.setdefault(t, set()).add(c)

    def private_inside(fn):
        seen, todo = set(), [fn]
        while todo:
            f = todo.pop()
            if f in seen:
                continue
            seen.add(f)
            b = F.body(f)
            if b is None:
                return False
            if f in entries:
                continue
            if "::{closure" not in f and str(b.get("vis", "")).startswith("Public"):
                return False
            cs = callers.get(f, set())
            if "::{closure" in f:
                cs = cs | {f.split("::{closure")[0]}
            if not cs or not all(c in members or c in entries for c in cs):
                return False
            todo.extend(cs)
        return True

    open_keys = [o for o in obs if o["status"] != "discharged"]
    cand = [o for o in open_keys if o["func"] not in entries and private_inside(o["func"])]
    if not cand:
        return obs
    import time as _time
    e2 = Engine(F, budget=100000)  # small on purpose: the rescue is for compact decoders, not for whole-module entry points
    e2.deadline = _time.time() + 20
    e2.model_lazy_collect = True
    e2.len_bound_all_joins = True
    try:
        for p in entries:
            b = F.body(p)
            if b is not None:
                e2.call_path(p, e2.symbolic_args(b))
    except (Budget, RecursionError):
        return obs
    ctxobs = {k: o for k, o in e2.obligations.items()}
    out = []
    for o in obs:
        c = ctxobs.get(o["key"])
        if o in cand and c is not None and c.status == "discharged" and c.count > 0:
            o = dict(o, status="discharged", reason="open for unconstrained arguments; discharged on all %d visit(s) of the in-context analysis from %s (private helper, every caller inside the analysed set): %s" % (c.count, entries[0], c.reason))
            R.notes.append("%s: %s discharged in context (modular analysis alone leaves it open)" % (rule, o["key"]))
        out.append(o)
    return out


def fold_closures(F, reach):
    """Closure bodies handed to Iterator::fold somewhere in `reach`."""
    from engine import cfg
    out = set()
    for p in reach:
        b = F.body(p)
        if b is None:
            continue
        for blk in b["blocks"]:
            t = blk["term"]
            f = cfg.callee_of(t)
            if f and f["path"].endswith("Iterator::fold"):
                for o in t["args"][1:]:
                    pl = o.get("c") or o.get("m")
                    k = o.get("k")
                    ty = None
                    if pl is not None and not pl["p"]:
                        ty = F.ty(b["locals"][pl["l"]]["ty"])
                    elif k is not None:
                        ty = F.ty(k["ty"])
                    if ty and ty["k"] == "closure":
                        d = ty.get("def") or ty.get("path")
                        if d:
                            out.add(d)
                # fall back: closures defined in this function
                for q in F.bodies:
                    if q.startswith(p + "::{closure") and F.body(q)["arg_count"] == 3:
                        out.add(q)
    return out


def counter_value(eng, st, v, name):
    """Materialise an accumulator value with every unsigned 64-bit integer component declared a counter."""
    from engine.values import Int, Struct, Top
    from engine.lin import Lin
    if isinstance(v, Top):
        v = eng.M.force(st, v)
    if isinstance(v, Int) and v.w == 64 and not v.signed:
        s_ = v.lin.single_sym()
        if s_:
            eng.counters.add(s_)
            eng.bounds[s_] = (0, 1 << 62)
        return v
    if isinstance(v, Struct):
        return Struct(v.ty, tuple(counter_value(eng, st, f, "%s.%d" % (name, i)) for i, f in enumerate(v.fields)))
    return v
