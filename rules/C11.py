"""C11 — the FIBEX model returned is the model written in the files (DESIGN §4/C11): table / call-discipline clauses.

TAB-V     type_info_for_signal_ref as an extracted table: every standard signal name and, through
          signals[ref] -> codings[.] -> base data type, every base type maps to the kind / width / coding of the spec
          vocabulary; nothing else yields a type.
FIRST     the three result maps (PDUs by id, frames by id, frames by context+application+frame id) are written only
          through the vacant arm of the entry API (first definition wins): no insert / extend / remove on them; they are
          filled after all files were read (accumulate, then assemble).
REFS      unknown signal references are dropped (filter_map over type_info_for_signal_ref), an unknown PDU reference
          turns into an error (get .. ok_or_else inside a collect into Result followed by `?`).
SORT      the sort key of signal instances / PDU instances is the sequence number that was pushed with them.
LOOKUP    extract_metadata: with an extended header the key is (context_id, application_id, "ID_<id>") on the keyed map,
          otherwise "ID_<id>" on the plain map.
ATTR      attr_opt accepts an attribute whose key equals the name, or ends with ':' + name (namespaced), and nothing else.
"""
import re

from engine import cfg
from engine import contracts  # noqa: F401  (registers the contract tables)
from engine.contracts_coll import view
from engine.interp import Engine
from engine.lin import Lin
from engine.values import Bool, Cont, Enum, Int, Ref, Slice, Struct, Top
from rules.C09 import name_of
from rules.common import loc_of
from rules.spec import fibex_spec

LEVEL = "other"
TI = "fibex::type_info_for_signal_ref"
READ = "fibex::read_fibexes"
EXTRACT = "fibex::extract_metadata"
ATTR = "fibex::XmlReaderWithContext::<B>::attr_opt"
WIDTHS = {"BitLength8": 8, "BitLength16": 16, "BitLength32": 32, "BitLength64": 64, "BitLength128": 128, "Width32": 32, "Width64": 64}
MAP_DENY = re.compile(r"(HashMap::<.*>::(insert|extend|remove|remove_entry|clear|retain|drain|get_mut|iter_mut|values_mut|extend_one)$)|(OccupiedEntry::<.*>::(insert|remove|remove_entry|get_mut|into_mut)$)|(Entry::<.*>::(and_modify|insert_entry)$)|(Extend.*::extend$)")


def const_str(eng, st, v):
    vw = view(eng, st, v)
    if vw and isinstance(vw["base"], str) and vw["base"].startswith("const:"):
        d = eng.const_bytes.get(vw["base"])
        if d is not None and vw["off"].is_const() and vw["len"].is_const():
            return d[vw["off"].c: vw["off"].c + vw["len"].c].decode("latin1")
    return None


def run(ctx):
    F, R = ctx.facts, ctx.report
    R.explanation = ("TAB-V: the signal / base-type vocabulary as an extracted table equals the spec vocabulary; FIRST: first-definition-wins call discipline on the three result maps and accumulate-then-assemble; "
                     "REFS: unknown signal refs dropped, unknown PDU refs fail; SORT: sort keys are the pushed sequence numbers; LOOKUP: the two lookup keys of extract_metadata; ATTR: the attribute-matching predicate.")
    R.not_decided = ["the flow XML tag -> reader field -> event field -> model field inside Reader::read_event (a state machine over quick-xml events; not decided)",
                     "quick-xml event semantics, hash-map contents; permutation invariance as such follows from sort + accumulate-then-assemble (argued, not mechanised)"]
    for p in (TI, READ, EXTRACT, ATTR, "fibex::read_pdu", "fibex::read_frame"):
        if F.body(p) is None:
            R.violation("ANCHOR", "missing|" + p, "anchor function %s not found" % p, kind="ANCHOR-MISSING")
            return
    tab_v(ctx)
    first_wins(ctx)
    refs(ctx)
    sort_keys(ctx)
    lookup(ctx)
    attr(ctx)


def typeinfo_row(eng, F, v):
    """(kind, width bits, coding) of a TypeInfo value."""
    names = [f["name"] for f in F.adts["dlt::TypeInfo"]["variants"][0]["fields"]]
    k = v.fields[names.index("kind")]
    kind = width = None
    if isinstance(k, Enum) and len(k.variants) == 1:
        kind = eng.T.variant_name(k.ty, k.variants[0][0])
        fs = k.variants[0][1]
        if fs and isinstance(fs[0], Enum) and len(fs[0].variants) == 1:
            width = WIDTHS.get(eng.T.variant_name(fs[0].ty, fs[0].variants[0][0]))
    c = v.fields[names.index("coding")]
    coding = eng.T.variant_name(c.ty, c.variants[0][0]) if isinstance(c, Enum) and len(c.variants) == 1 else None
    flags = []
    for fn in ("has_variable_info", "has_trace_info"):
        b = v.fields[names.index(fn)]
        flags.append(b.cond if isinstance(b, Bool) else None)
    return kind, width, coding, flags


def tab_v(ctx):
    F, R = ctx.facts, ctx.report
    b = F.body(TI)
    eng = Engine(F)
    eng.key_all = True

    def on_call(eng_, st, fr, f, args, site):
        p = f["path"]
        if p.endswith("::eq") and len(args) == 2:
            ca, cb = const_str(eng_, st, args[0]), const_str(eng_, st, args[1])
            if (ca is None) != (cb is None):
                return [(st, Bool(("sym", "eq:%s" % (ca if ca is not None else cb))))]
        if re.search(r"HashMap::<.*>::get$", p):
            from engine.contracts import ret_ty
            return [(st, Top(ret_ty(eng_, site), "get(%s,%s)" % (name_of(eng_, st, args[0]), name_of(eng_, st, args[1]))))]
        return None

    eng.on_call = on_call
    outs = eng.call_path(TI, eng.symbolic_args(b, names=["signal_ref", "signals", "codings"]))
    got_sig, got_base = {}, {}
    for st, rv in outs:
        trues = [k[1][3:] for k in st.key if k[0] == "sym" and str(k[1]).startswith("eq:") and k[2]]
        gets = {k[1]: k[2] for k in st.key if k[0] == "variant" and str(k[1]).startswith("get(")}
        if not isinstance(rv, Enum) or len(rv.variants) != 1:
            R.violation("TAB-V", TI + "|shape", "an exit's result is not a definite Option", function=TI, kind="UNRECOGNISED-SHAPE")
            continue
        some = eng.T.variant_name(rv.ty, rv.variants[0][0]) == "Some"
        row = typeinfo_row(eng, F, rv.variants[0][1][0]) if some else None
        if len(trues) == 1:
            through = [g for g in gets if gets[g] == "Some"]
            if not gets:
                got_sig[trues[0]] = row
            elif len(through) == 2 and any(g.startswith("get(*signals,") for g in through) and any(g.startswith("get(*codings,*get(*signals,") for g in through):
                got_base[trues[0]] = row
            else:
                R.violation("TAB-V", TI + "|chain|" + trues[0], "base type %s is not reached through signals[ref] -> codings[.] (lookups on the path: %s)" % (trues[0], gets), function=TI, file=b["span"]["f"], line=b["span"]["l"])
        elif len(trues) == 0:
            if some:
                R.violation("TAB-V", TI + "|default-some", "a name outside the vocabulary yields a type (%s)" % (row,), function=TI, file=b["span"]["f"], line=b["span"]["l"])
        else:
            R.violation("TAB-V", TI + "|ambiguous|" + ",".join(sorted(trues)), "an exit is reached under several name equalities %s" % trues, function=TI, kind="UNRECOGNISED-SHAPE")
    for tab, spec, what in ((got_sig, fibex_spec.SIGNALS, "signal"), (got_base, fibex_spec.BASE_TYPES, "base type")):
        for name, want in sorted(spec.items()):
            got = tab.get(name, "missing")
            g3 = got[:3] if isinstance(got, tuple) else got
            flags_ok = not isinstance(got, tuple) or all(fl == ("const", False) for fl in got[3])
            if g3 == want and flags_ok:
                R.obligation("TAB-V", "%s|%s|%s" % (TI, what, name), "discharged", "%s -> %s" % (name, want))
                R.instance("TAB-V", "%s %s -> %s" % (what, name, want))
            else:
                R.violation("TAB-V", "%s|%s|%s" % (TI, what, name), "%s %s maps to %s; the FIBEX vocabulary prescribes %s (no variable / trace info)" % (what, name, got, want), function=TI, file=b["span"]["f"], line=b["span"]["l"])
        extra = set(tab) - set(spec)
        for name in sorted(extra):
            if tab[name] is not None:
                R.violation("TAB-V", "%s|%s-extra|%s" % (TI, what, name), "%s name %s is not in the spec vocabulary but yields %s" % (what, name, tab[name]), function=TI)
    R.floor("TAB-V", 30)


def map_locals(F, body):
    """Locals of read_fibexes holding one of the three result maps: {local: short name}."""
    out = {}
    for i, l in enumerate(body["locals"]):
        s = F.ty_s(l["ty"])
        if s.startswith("std::collections::HashMap<") and ("PduMetadata" in s or "FrameMetadata" in s) and l.get("user"):
            out[i] = s
    return out


def first_wins(ctx):
    F, R = ctx.facts, ctx.report
    b = F.body(READ)
    maps = map_locals(F, b)
    if len(maps) != 3:
        R.violation("FIRST", READ + "|maps", "expected the three result maps (PDUs by id, frames by id, frames by key) as locals of read_fibexes, found %d: %s" % (len(maps), sorted(maps.values())), function=READ, kind="UNRECOGNISED-SHAPE")
        return
    # temps that are references to a map local
    refs = {}
    for blk in b["blocks"]:
        for s in blk["stmts"]:
            if s["k"] == "assign" and not s["p"]["p"] and s["rv"]["k"] in ("ref", "rawptr") and s["rv"]["p"]["l"] in maps and not s["rv"]["p"]["p"]:
                refs[s["p"]["l"]] = s["rv"]["p"]["l"]
    loops = cfg.natural_loops(b)
    file_loop = None
    for lp in loops:
        for bi in lp["blocks"]:
            f = cfg.callee_of(b["blocks"][bi]["term"])
            if f and f["path"].endswith("::from_file"):
                if file_loop is None or len(lp["blocks"]) > len(file_loop["blocks"]):
                    file_loop = lp
    if file_loop is None:
        R.violation("FIRST", READ + "|file-loop", "cannot identify the loop over the input files", function=READ, kind="UNRECOGNISED-SHAPE")
        return
    n_entry = 0
    bodies = [(READ, b)] + [(p, F.body(p)) for p in F.bodies if p.startswith(READ + "::{closure")]
    for path, body in bodies:
        for bi, blk in enumerate(body["blocks"]):
            if blk["cleanup"]:
                continue
            t = blk["term"]
            f = cfg.callee_of(t)
            if not f:
                continue
            tgt = cfg.fn_target(f)
            fl, ln = loc_of(blk)
            on_map = None
            if body is b and t["args"]:
                p0 = t["args"][0].get("c") or t["args"][0].get("m")
                if p0 is not None and not p0["p"]:
                    on_map = refs.get(p0["l"]) if p0["l"] in refs else (p0["l"] if p0["l"] in maps else None)
            if MAP_DENY.search(tgt) or MAP_DENY.search(f["path"]):
                sty = F.ty_s(f["self_ty"]) if f.get("self_ty") is not None else ""
                touches = on_map is not None or "PduMetadata" in tgt + sty or "FrameMetadata" in tgt + sty or any(("PduMetadata" in F.ty_s(a) or "FrameMetadata" in F.ty_s(a)) for a in f.get("args", []) if isinstance(a, int))
                if touches:
                    R.violation("FIRST", "%s|%s" % (path, re.sub(r"<.*?>", "", tgt.split("::")[-2] + "::" + tgt.split("::")[-1])), "%s writes a result map through %s: only the vacant arm of the entry API keeps the first definition of a duplicated id" % (path, tgt), function=path, file=fl, line=ln)
            if body is b and on_map is not None and re.search(r"HashMap::<.*>::entry$", tgt):
                n_entry += 1
                if bi in file_loop["blocks"]:
                    R.violation("FIRST", READ + "|assemble-inside-file-loop", "a result map is filled inside the loop over the files: definitions from later files would not see the accumulated PDUs / signals (distribution over files would matter)", function=READ, file=fl, line=ln)
                else:
                    R.instance("FIRST", "entry() on %s after the file loop" % re.sub(r"std::collections::HashMap<(.*), std::hash::RandomState>", r"map<\1>", maps[on_map])[:90])
    # new maps created inside the file loop (per-file maps merged later) are a deviation from accumulate-then-assemble
    for bi in file_loop["blocks"]:
        blk = b["blocks"][bi]
        f = cfg.callee_of(blk["term"])
        if f and re.search(r"HashMap::<.*>::(new|with_capacity|default)$", cfg.fn_target(f)) and blk["term"]["dest"]["l"] in maps:
            fl, ln = loc_of(blk)
            R.violation("FIRST", READ + "|per-file-map", "a result map is created per file inside the file loop", function=READ, file=fl, line=ln)
    if n_entry == 3:
        R.obligation("FIRST", READ + "|entry-only", "discharged", "each of the three result maps is written through entry() only, after the file loop")
    else:
        R.violation("FIRST", READ + "|entry-count", "expected one entry() call per result map (3), found %d" % n_entry, function=READ, kind="UNRECOGNISED-SHAPE")
    R.floor("FIRST", 3)


def refs(ctx):
    F, R = ctx.facts, ctx.report
    b = F.body(READ)
    # closures handed to iterator adaptors in read_fibexes
    handed = {}
    for bi, blk in enumerate(b["blocks"]):
        t = blk["term"]
        f = cfg.callee_of(t)
        if f and f["path"].startswith("std::iter::Iterator::") and len(t["args"]) >= 2:
            for o in t["args"][1:]:
                p = o.get("c") or o.get("m")
                if p is not None and not p["p"]:
                    ty = F.ty(b["locals"][p["l"]]["ty"])
                    if ty["k"] == "closure":
                        handed[ty.get("def") or ty.get("path") or ty.get("s")] = f["path"].split("::")[-1]
    sig = pdu = None
    for p in sorted(F.bodies):
        if not p.startswith(READ + "::{closure"):
            continue
        body = F.body(p)
        calls = [cfg.fn_target(cfg.callee_of(blk["term"])) for blk in body["blocks"] if cfg.callee_of(blk["term"])]
        adaptor = None
        for k, v in handed.items():
            if k and (k == p or str(k).endswith(p.split("::")[-1]) and p in str(k)):
                adaptor = v
        if any(c == TI for c in calls):
            sig = (p, adaptor)
        if any(re.search(r"HashMap::<.*>::get$", c) for c in calls):
            pdu = (p, adaptor, any(re.search(r"Option::<T>::(ok_or_else|ok_or)$", c) for c in calls), F.ty_s(body["locals"][0]["ty"]))
    if sig and (sig[1] in (None, "filter_map")):
        # the adaptor of the closure: look for filter_map in read_fibexes
        has_fm = any((cfg.callee_of(blk["term"]) or {}).get("path", "").endswith("Iterator::filter_map") for blk in b["blocks"])
        if has_fm:
            R.obligation("REFS", READ + "|signal-refs-dropped", "discharged", "signal types collected through filter_map(type_info_for_signal_ref): unknown references are skipped")
            R.instance("REFS", "unknown signal refs: filter_map")
        else:
            R.violation("REFS", READ + "|signal-refs", "signal references are not resolved through filter_map: an unknown reference would not simply be skipped", function=READ)
    else:
        R.violation("REFS", READ + "|signal-closure", "cannot find the closure resolving signal references", function=READ, kind="UNRECOGNISED-SHAPE")
    if pdu and pdu[2] and "Result<" in pdu[3]:
        has_try = any((cfg.callee_of(blk["term"]) or {}).get("path", "").endswith("Try::branch") for blk in b["blocks"])
        R.obligation("REFS", READ + "|pdu-refs-fail", "discharged", "PDU references resolved with get(..).ok_or_else(..) into a Result: an unknown PDU makes loading fail")
        R.instance("REFS", "unknown PDU ref: %s returns %s" % (pdu[0].split("::")[-1], pdu[3][:60]))
    else:
        R.violation("REFS", READ + "|pdu-refs", "PDU references are not resolved by a fallible lookup (get .. ok_or_else returning Result): a reference to an unknown PDU would be dropped instead of failing the load", function=READ)
    R.floor("REFS", 2)


def sort_keys(ctx):
    F, R = ctx.facts, ctx.report
    for fn, ev, keyfield in (("fibex::read_pdu", "SignalInstance", "sequence_number"), ("fibex::read_frame", "PduInstance", "sequence_number")):
        b = F.body(fn)
        # the closure passed to sort_by_key
        clos = None
        for blk in b["blocks"]:
            t = blk["term"]
            f = cfg.callee_of(t)
            if f and f["path"].endswith("::sort_by_key"):
                for o in t["args"][1:]:
                    p = o.get("c") or o.get("m")
                    k = o.get("k")
                    ty = None
                    if p is not None and not p["p"]:
                        ty = F.ty(b["locals"][p["l"]]["ty"])
                    elif k is not None:
                        ty = F.ty(k["ty"])
                    if ty and ty["k"] == "closure":
                        clos = ty.get("def") or ty.get("path")
        cands = [p for p in F.bodies if p.startswith(fn + "::{closure")]
        good = False
        for p in cands:
            cb = F.body(p)
            if cb["arg_count"] != 2:
                continue
            eng = Engine(F)
            outs = eng.call_path(p, eng.symbolic_args(cb, names=["env", "item"]))
            if len(outs) == 1 and isinstance(outs[0][1], Int) and outs[0][1].lin == Lin.sym("*item.0"):
                good = True
        # what is pushed: (sequence_number, ref)
        eng = Engine(F)
        eng.inline_filter = lambda p: p != "fibex::Reader::<B>::read_event"
        pushed = []

        def on_call(eng_, st, fr, f, args, site):
            if re.search(r"Vec::<.*>::push$", f["path"]) and fr.path == fn:
                pushed.append(args[1])
            return None

        eng.on_call = on_call
        eng.call_path(fn, eng.symbolic_args(b, names=["reader"]))
        okp = bool(pushed) and all(isinstance(v, Struct) and len(v.fields) == 2 and (".%s.%s" % (ev, keyfield)) in repr(v.fields[0]) for v in pushed)
        if good and okp:
            R.obligation("SORT", fn + "|key", "discharged", "sorted by field 0 = %s.%s of the pushed tuple" % (ev, keyfield))
            R.instance("SORT", "%s: sort_by_key(|x| x.0) with x.0 = %s.%s" % (fn, ev, keyfield))
        else:
            R.violation("SORT", fn + "|key", "%s does not sort its instances by the sequence number pushed with them (key closure projects field 0: %s; pushed first component is %s.%s: %s)" % (fn, good, ev, keyfield, okp), function=fn, file=b["span"]["f"], line=b["span"]["l"])
    R.floor("SORT", 2)


def lookup(ctx):
    F, R = ctx.facts, ctx.report
    b = F.body(EXTRACT)
    eng = Engine(F)
    eng.key_all = True
    gets = []

    def on_call(eng_, st, fr, f, args, site):
        p = f["path"]
        if re.search(r"HashMap::<.*>::get$", p):
            kv = args[1]
            if isinstance(kv, Ref):
                kv = eng_.M.read_path(st, kv.loc, kv.path)
            if isinstance(kv, Top):
                kv = eng_.M.force(st, kv)
            gets.append((st.key, name_of(eng_, st, args[0]), kv, st))
            return None
        if p.endswith("hint::must_use") and args:
            return [(st, args[0])]
        if p.endswith("fmt::format") or p.endswith("alloc::fmt::format"):
            from engine.contracts import ret_ty
            return [(st, Top(ret_ty(eng_, site), "format_id"))]
        if f.get("name") == "clone":
            from engine.contracts import ret_ty
            return [(st, Top(ret_ty(eng_, site), "clone(%s)" % name_of(eng_, st, args[0])))]
        return None

    eng.on_call = on_call
    eng.call_path(EXTRACT, eng.symbolic_args(b, names=["fibex_metadata", "id", "extended_header"]))
    # "ID_" prefix literal
    has_prefix = False
    for (bi, si, o, sp) in cfg.all_operands(b, True):
        k = o.get("k") if isinstance(o, dict) else None
        if k:
            for key in ("bytes", "ptr_bytes", "indirect_bytes", "str"):
                if key in k:
                    d = k[key]
                    d = bytes(d) if not isinstance(d, str) else d.encode()
                    if b"ID_" in d:
                        has_prefix = True
    seen = set()
    names = [f["name"] for f in F.adts["fibex::FrameMetadataIdentification"]["variants"][0]["fields"]]
    for key, mp, k, st in gets:
        ext = [x[2] for x in key if x[0] == "variant" and x[1] == "extended_header"]
        ext = ext[0] if ext else None
        kv = k
        rep = repr(kv)
        if ext == "Some":
            ok = mp.endswith("frame_map_with_key") and isinstance(kv, Struct)
            if ok:
                d = dict(zip(names, kv.fields))
                ok = "clone(*extended_header.Some.0.context_id)" in repr(d.get("context_id")) and "clone(*extended_header.Some.0.application_id)" in repr(d.get("app_id")) and "format_id" in repr(d.get("frame_id"))
            want = "frame_map_with_key[(ext.context_id, ext.application_id, \"ID_<id>\")]"
        elif ext == "None":
            ok = mp.endswith("frame_map") and "format_id" in rep
            want = "frame_map[\"ID_<id>\"]"
        else:
            ok, want = False, "a lookup partitioned on the presence of the extended header"
        seen.add(ext)
        if ok:
            R.obligation("LOOKUP", "%s|ext=%s" % (EXTRACT, ext), "discharged", want)
            R.instance("LOOKUP", "extended header %s: %s" % (ext, want))
        else:
            R.violation("LOOKUP", "%s|ext=%s" % (EXTRACT, ext), "extract_metadata looks up %s with key %s; the property prescribes %s" % (mp, rep[:160], want), function=EXTRACT, file=b["span"]["f"], line=b["span"]["l"])
    if not has_prefix:
        R.violation("LOOKUP", EXTRACT + "|prefix", "the frame id text is not built with the \"ID_\" prefix", function=EXTRACT, file=b["span"]["f"], line=b["span"]["l"])
    if seen != {"Some", "None"}:
        R.violation("LOOKUP", EXTRACT + "|paths", "expected one lookup with and one without extended header, saw %s" % sorted(map(str, seen)), function=EXTRACT, kind="UNRECOGNISED-SHAPE")
    R.floor("LOOKUP", 2)


def attr(ctx):
    """attr_opt: an attribute is accepted iff key == name, or len(key) > len(name) and key[len(key)-len(name)-1] == ':'
    and key[len(key)-len(name)..] == name."""
    F, R = ctx.facts, ctx.report
    b = F.body(ATTR)
    eng = Engine(F)
    eng.key_all = True

    def sl(eng_, st, v):
        vw = view(eng_, st, v)
        if vw is None:
            return "?"
        base = vw["base"] if isinstance(vw["base"], str) else "tmp"
        return "%s[%s..+%s]" % (base, vw["off"], vw["len"])

    atoms = {}

    def on_call(eng_, st, fr, f, args, site):
        p = f["path"]
        if p.endswith("::eq") and len(args) == 2:
            nm = "eq(%s,%s)" % (sl(eng_, st, args[0]), sl(eng_, st, args[1]))
            va, vb = view(eng_, st, args[0]), view(eng_, st, args[1])
            if va is not None and vb is not None:
                atoms[nm] = (va["base"], va["off"], va["len"], vb["base"], vb["off"], vb["len"])
            return [(st, Bool(("sym", nm)))]
        if p.endswith("Iterator::next"):
            from engine.contracts import ret_ty
            rt = ret_ty(eng_, site)
            o = eng_.M.force(st, Top(rt, "attr#%d" % eng_._hv()))
            return [(st, o)] if False else None
        if p.endswith("::ends_with") or p.endswith("::starts_with") or p.endswith("::contains"):
            return [(st, Bool(("sym", "%s(%s,%s)" % (p.split("::")[-1], sl(eng_, st, args[0]), sl(eng_, st, args[1])))))]
        return None

    eng.on_call = on_call
    outs = eng.call_path(ATTR, eng.symbolic_args(b, names=["self", "attrs", "name"]))
    n_acc = 0
    for st, rv in outs:
        if not isinstance(rv, Enum):
            continue
        for vi, fs in rv.variants:
            if vi != 0:
                continue
            o = fs[0]
            if isinstance(o, Top):
                o = eng.M.force(st, o)
            if not (isinstance(o, Enum) and len(o.variants) == 1 and eng.T.variant_name(o.ty, o.variants[0][0]) == "Some"):
                continue
            # an accepting exit: the conditions of the last iteration
            lits = [(k[1], k[2]) for k in st.key if k[0] == "sym" and (str(k[1]).startswith("eq(") or "_with(" in str(k[1]) or str(k[1]).startswith("contains("))]
            cmps = [k for k in st.key if k[0] == "cmp"]
            n_acc += 1
            desc = "%s %s" % (lits, [(c[1], c[2], c[3], c[4]) for c in cmps])
            def is_full(a):
                return a is not None and a[1] == Lin.const(0) and a[4] == Lin.const(0) and a[0] != a[3] and isinstance(a[0], str) and isinstance(a[3], str) and a[2] == Lin.sym("len(%s)" % a[0]) and a[5] == Lin.sym("len(%s)" % a[3])

            def is_tail(a):
                # key[len(key) - len(name) ..] == name
                return a is not None and a[4] == Lin.const(0) and isinstance(a[0], str) and isinstance(a[3], str) and a[5] == Lin.sym("len(%s)" % a[3]) and a[2] == a[5] and a[1] == Lin.sym("len(%s)" % a[0]).sub(a[5])

            full_true = [l for l in lits if l[1] and is_full(atoms.get(l[0]))]
            tail_true = [l for l in lits if l[1] and is_tail(atoms.get(l[0]))]
            colon = [c for c in cmps if c[1] == "Eq" and c[4] and ("58" in (c[2], c[3]))]
            longer = []
            for l in tail_true:
                a = atoms[l[0]]
                la, lb = "len(%s)" % a[0], "len(%s)" % a[3]
                longer += [c for c in cmps if (c[1] == "Gt" and c[4] and c[2] == la and c[3] == lb) or (c[1] == "Lt" and c[4] and c[2] == lb and c[3] == la) or (c[1] == "Le" and not c[4] and c[2] == la and c[3] == lb) or (c[1] == "Ge" and not c[4] and c[2] == lb and c[3] == la)]
            other = [l for l in lits if l[1] and l not in full_true and l not in tail_true]
            if full_true and not other and not tail_true:
                R.obligation("ATTR", ATTR + "|accept|exact", "discharged", "key == name")
                R.instance("ATTR", "accept: key == name")
            elif tail_true and colon and longer and not other:
                R.obligation("ATTR", ATTR + "|accept|namespaced", "discharged", "longer key, ':' before the name-length tail, tail == name")
                R.instance("ATTR", "accept: key ends with ':' + name")
            else:
                R.violation("ATTR", ATTR + "|accept|other", "attr_opt accepts an attribute under conditions other than `key == name` or `key ends with ':' + name`: %s" % desc[:400], function=ATTR, file=b["span"]["f"], line=b["span"]["l"])
    if n_acc < 2:
        R.violation("ATTR", ATTR + "|accepting-exits", "expected two accepting paths (exact and namespaced match), saw %d" % n_acc, function=ATTR, kind="UNRECOGNISED-SHAPE")
    R.floor("ATTR", 2)
