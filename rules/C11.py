"""C11 — the FIBEX model returned is the model written in the files (DESIGN §4/C11): table / call-discipline clauses.

TAB-V     type_info_for_signal_ref as an extracted table: every standard signal name and, through
          signals[ref] -> codings[.] -> base data type, every base type maps to the kind / width / coding of the spec
          vocabulary; nothing else yields a type.
FIRST     the three result maps (PDUs by id, frames by id, frames by context+application+frame id) are written only
          through the vacant arm of the entry API (first definition wins): no insert / extend / remove on them; they are
          filled after all files were read (accumulate, then assemble).
REFS      unknown signal references are dropped (filter_map over type_info_for_signal_ref), an unknown PDU reference
          turns into an error (get .. ok_or_else inside a collect into Result followed by `?`).
SORT      the sort key of signal instances / PDU instances is the sequence number that was pushed with them.
LOOKUP    extract_metadata: with an extended header the key is (context_id, application_id, "ID_<id>") on the keyed map,
          otherwise "ID_<id>" on the plain map.
ATTR      attr_opt accepts an attribute whose key equals the name, or ends with ':' + name (namespaced), and nothing else.
"""
import re

from engine import cfg
from engine import contracts  # noqa: F401  (registers the contract tables)
from engine.contracts_coll import view
from engine.interp import Engine
from engine.lin import Lin
from engine.values import Bool, Cont, Enum, Int, Ref, Slice, Struct, Top
from rules.C09 import name_of
from rules.common import loc_of
from rules.spec import fibex_spec

LEVEL = "other"
TI = "fibex::type_info_for_signal_ref"
READ = "fibex::read_fibexes"
EXTRACT = "fibex::extract_metadata"
ATTR = "fibex::XmlReaderWithContext::<B>::attr_opt"
WIDTHS = {"BitLength8": 8, "BitLength16": 16, "BitLength32": 32, "BitLength64": 64, "BitLength128": 128, "Width32": 32, "Width64": 64}
MAP_DENY = re.compile(r"(HashMap::<.*>::(insert|extend|remove|remove_entry|clear|retain|drain|get_mut|iter_mut|values_mut|extend_one)$)|(OccupiedEntry::<.*>::(insert|remove|remove_entry|get_mut|into_mut)$)|(Entry::<.*>::(and_modify|insert_entry)$)|(Extend.*::extend$)")


def const_str(eng, st, v):
    vw = view(eng, st, v)
    if vw and isinstance(vw["base"], str) and vw["base"].startswith("const:"):
        d = eng.const_bytes.get(vw["base"])
        if d is not None and vw["off"].is_const() and vw["len"].is_const():
            return d[vw["off"].c: vw["off"].c + vw["len"].c].decode("latin1")
    return None


def run(ctx):
    F, R = ctx.facts, ctx.report
    R.explanation = ("TAB-V: the signal / base-type vocabulary as an extracted table equals the spec vocabulary; FIRST: first-definition-wins call discipline on the three result maps and accumulate-then-assemble; "
                     "REFS: unknown signal refs dropped, unknown PDU refs fail; SORT: sort keys are the pushed sequence numbers; LOOKUP: the two lookup keys of extract_metadata; ATTR: the attribute-matching predicate.")
    R.explanation += (" FLOW-X: every scratch field an emitting arm of Reader::read_event consumes is reassigned by the arm of the opening tag (no leak from an earlier element); "
                      "FLOW-M / FLOW-K: XML element / attribute -> scratch field -> event field -> public model field, map key / value, sort key and resolver argument, composed from the per-arm table of read_event "
                      "and the label flow through read_fibexes / read_pdu / read_frame and their closures, compared with the FIBEX layout table.")
    R.not_decided = ["quick-xml event semantics (nesting of elements is not modelled: FLOW-X is the per-tag reset discipline, not a proof about arbitrary documents)",
                     "hash-map contents; permutation invariance as such follows from sort + accumulate-then-assemble (argued, not mechanised)",
                     "Vec<String> hand-over between read_pdu / read_frame and the closures of read_fibexes is followed by type, not by value"]
    for p in (TI, READ, EXTRACT, ATTR, "fibex::read_pdu", "fibex::read_frame"):
        if F.body(p) is None:
            R.violation("ANCHOR", "missing|" + p, "anchor function %s not found" % p, kind="ANCHOR-MISSING")
            return
    tab_v(ctx)
    first_wins(ctx)
    map_independence(ctx)
    refs(ctx)
    sort_keys(ctx)
    lookup(ctx)
    attr(ctx)
    file_order(ctx)
    from rules import lib_fibexflow
    lib_fibexflow.check(ctx)


ORDER_OPS = re.compile(r"::(sort|sort_by|sort_by_key|sort_unstable|sort_unstable_by|sort_unstable_by_key|sort_by_cached_key|dedup|dedup_by|dedup_by_key|reverse|retain|retain_mut|swap|swap_remove|rotate_left|rotate_right|rev|truncate|drain|pop|remove|split_off)$")


def file_order(ctx):
    """ORDER-F: "the first definition wins" is relative to the order in which the caller lists the files: between the
    configuration and the loop over the files nothing reorders, drops or deduplicates the list (type-based: no
    reordering / removing operation on a sequence of paths anywhere in the module)."""
    F, R = ctx.facts, ctx.report
    n = 0
    for path, body in fibex_bodies(F):
        for bi, blk in enumerate(body["blocks"]):
            if blk["cleanup"]:
                continue
            f = cfg.callee_of(blk["term"])
            if not f:
                continue
            tgt = cfg.fn_target(f)
            tys = [F.ty_s(a) for a in f.get("args", []) if isinstance(a, int)]
            if f.get("self_ty") is not None:
                tys.append(F.ty_s(f["self_ty"]))
            if not any("PathBuf" in t or t == "std::path::Path" for t in tys):
                continue
            n += 1
            if ORDER_OPS.search(re.sub(r"::<.*?>", "", tgt)) or ORDER_OPS.search(re.sub(r"::<.*?>", "", f["path"])):
                fl, ln = loc_of(blk)
                R.violation("ORDER-F", "%s|%s" % (path, re.sub(r"::<.*?>", "", f["path"]).split("::")[-1]), "%s applies %s to the list of FIBEX files: the files are no longer read in the order the caller gave, so which definition of a duplicated id is \"first\" changes" % (path, f["path"]), function=path, file=fl, line=ln)
    R.instance("ORDER-F", "%d operation(s) on the file list, none reorders or drops entries" % n)


def typeinfo_row(eng, F, v):
    """(kind, width bits, coding) of a TypeInfo value."""
    names = [f["name"] for f in F.adts["dlt::TypeInfo"]["variants"][0]["fields"]]
    k = v.fields[names.index("kind")]
    kind = width = None
    if isinstance(k, Enum) and len(k.variants) == 1:
        kind = eng.T.variant_name(k.ty, k.variants[0][0])
        fs = k.variants[0][1]
        if fs and isinstance(fs[0], Enum) and len(fs[0].variants) == 1:
            width = WIDTHS.get(eng.T.variant_name(fs[0].ty, fs[0].variants[0][0]))
    c = v.fields[names.index("coding")]
    coding = eng.T.variant_name(c.ty, c.variants[0][0]) if isinstance(c, Enum) and len(c.variants) == 1 else None
    flags = []
    for fn in ("has_variable_info", "has_trace_info"):
        b = v.fields[names.index(fn)]
        flags.append(b.cond if isinstance(b, Bool) else None)
    return kind, width, coding, flags


def tab_v(ctx):
    F, R = ctx.facts, ctx.report
    b = F.body(TI)
    eng = Engine(F)
    eng.key_all = True

    def on_call(eng_, st, fr, f, args, site):
        p = f["path"]
        if p.endswith("::eq") and len(args) == 2:
            ca, cb = const_str(eng_, st, args[0]), const_str(eng_, st, args[1])
            if (ca is None) != (cb is None):
                return [(st, Bool(("sym", "eq:%s" % (ca if ca is not None else cb))))]
        if re.search(r"HashMap::<.*>::get$", p):
            from engine.contracts import ret_ty
            return [(st, Top(ret_ty(eng_, site), "get(%s,%s)" % (name_of(eng_, st, args[0]), name_of(eng_, st, args[1]))))]
        return None

    eng.on_call = on_call
    outs = eng.call_path(TI, eng.symbolic_args(b, names=["signal_ref", "signals", "codings"]))
    got_sig, got_base = {}, {}
    for st, rv in outs:
        trues = [k[1][3:] for k in st.key if k[0] == "sym" and str(k[1]).startswith("eq:") and k[2]]
        gets = {k[1]: k[2] for k in st.key if k[0] == "variant" and str(k[1]).startswith("get(")}
        if not isinstance(rv, Enum) or len(rv.variants) != 1:
            R.violation("TAB-V", TI + "|shape", "an exit's result is not a definite Option", function=TI, kind="UNRECOGNISED-SHAPE")
            continue
        some = eng.T.variant_name(rv.ty, rv.variants[0][0]) == "Some"
        row = typeinfo_row(eng, F, rv.variants[0][1][0]) if some else None
        if len(trues) == 1:
            through = [g for g in gets if gets[g] == "Some"]
            if not gets:
                got_sig[trues[0]] = row
            elif len(through) == 2 and any(g.startswith("get(*signals,") for g in through) and any(g.startswith("get(*codings,*get(*signals,") for g in through):
                got_base[trues[0]] = row
            else:
                R.violation("TAB-V", TI + "|chain|" + trues[0], "base type %s is not reached through signals[ref] -> codings[.] (lookups on the path: %s)" % (trues[0], gets), function=TI, file=b["span"]["f"], line=b["span"]["l"])
        elif len(trues) == 0:
            if some:
                R.violation("TAB-V", TI + "|default-some", "a name outside the vocabulary yields a type (%s)" % (row,), function=TI, file=b["span"]["f"], line=b["span"]["l"])
        else:
            R.violation("TAB-V", TI + "|ambiguous|" + ",".join(sorted(trues)), "an exit is reached under several name equalities %s" % trues, function=TI, kind="UNRECOGNISED-SHAPE")
    for tab, spec, what in ((got_sig, fibex_spec.SIGNALS, "signal"), (got_base, fibex_spec.BASE_TYPES, "base type")):
        for name, want in sorted(spec.items()):
            got = tab.get(name, "missing")
            g3 = got[:3] if isinstance(got, tuple) else got
            flags_ok = not isinstance(got, tuple) or all(fl == ("const", False) for fl in got[3])
            if g3 == want and flags_ok:
                R.obligation("TAB-V", "%s|%s|%s" % (TI, what, name), "discharged", "%s -> %s" % (name, want))
                R.instance("TAB-V", "%s %s -> %s" % (what, name, want))
            else:
                R.violation("TAB-V", "%s|%s|%s" % (TI, what, name), "%s %s maps to %s; the FIBEX vocabulary prescribes %s (no variable / trace info)" % (what, name, got, want), function=TI, file=b["span"]["f"], line=b["span"]["l"])
        extra = set(tab) - set(spec)
        for name in sorted(extra):
            if tab[name] is not None:
                R.violation("TAB-V", "%s|%s-extra|%s" % (TI, what, name), "%s name %s is not in the spec vocabulary but yields %s" % (what, name, tab[name]), function=TI)
    R.floor("TAB-V", 30)


def fibex_bodies(F):
    return [(p, b) for p, b in sorted(F.bodies.items()) if p.startswith("fibex::") and not b["derived"] and "::tests::" not in p]


def is_result_map_ty(F, ti):
    s = F.ty_s(ti)
    return "HashMap<" in s and ("PduMetadata" in s or "FrameMetadata" in s)


def _recv_place(body, o):
    """The place a receiver operand refers to: the operand is (a copy / move of) a temporary defined once as `&[mut] place`."""
    import json
    pl = o.get("c") or o.get("m")
    for _ in range(4):
        if pl is None or pl["p"]:
            return None
        defs = []
        for blk in body["blocks"]:
            for st_ in blk["stmts"]:
                if st_["k"] == "assign" and st_["p"]["l"] == pl["l"] and not st_["p"]["p"]:
                    defs.append(st_["rv"])
        if len(defs) != 1:
            return None
        rv = defs[0]
        if rv["k"] == "ref":
            q = rv["p"]
            if q["p"] == ["*"]:  # a reborrow of another reference: follow it
                pl = {"l": q["l"], "p": []}
                continue
            return (q["l"], json.dumps(q["p"], sort_keys=True))
        if rv["k"] == "use":
            pl = rv["a"].get("c") or rv["a"].get("m")
            continue
        return None
    return None


def guarded_insert(F, body, bi):
    """`if !map.contains_key(&k) { map.insert(k, v) }` (or `match map.get(&k) { None => { map.insert(..) } .. }`): the
    insert at block `bi` is reached only through the *absent* outcome of a membership test on the same map — it keeps the
    first definition exactly like the vacant arm of the entry API."""
    from rules import lib_loop
    from rules.common import op_local
    t = body["blocks"][bi]["term"]
    if not t.get("args"):
        return False
    m = _recv_place(body, t["args"][0])
    if m is None:
        return False
    dom, _ = cfg.dominators(body)
    ddefs = lib_loop.discr_defs(body)
    for di, blk in enumerate(body["blocks"]):
        if blk["cleanup"] or di == bi or di not in dom.get(bi, ()):
            continue
        f = cfg.callee_of(blk["term"])
        if not f or not re.search(r"HashMap::<.*>::(contains_key|get|get_key_value)$", cfg.fn_target(f)):
            continue
        tt = blk["term"]
        if not tt.get("args") or _recv_place(body, tt["args"][0]) != m or tt["dest"]["p"]:
            continue
        dl = tt["dest"]["l"]
        is_bool = cfg.fn_target(f).endswith("contains_key")
        # the switch that decides on the outcome: on the bool itself, or on the discriminant of the Option
        for si, sb in enumerate(body["blocks"]):
            st_ = sb["term"]
            if st_["k"] != "switch" or si not in dom.get(bi, ()) or di not in dom.get(si, ()):
                continue
            sl = op_local(st_["d"])
            hit = (is_bool and sl == dl) or (not is_bool and sl is not None and any(pl["l"] == dl and not pl["p"] for pl in ddefs.get(sl, [])))
            if not hit:
                continue
            absent = st_["otherwise"]
            for v, tg in zip(st_["vals"], st_["tgts"]):
                if int(v) == 0:
                    absent = tg
            present = [x for x in list(st_["tgts"]) + [st_["otherwise"]] if x != absent]
            if absent in dom.get(bi, ()) and not any(x in dom.get(bi, ()) for x in present):
                return True
    return False


def first_wins(ctx):
    """Type-based: any write-capable HashMap method whose map type is one of the three result maps, anywhere in the
    module, must be entry(); the entry() calls are not executed inside the loop over the input files."""
    F, R, cg = ctx.facts, ctx.report, ctx.cg
    n_entry = 0
    entry_fns = set()
    # generic helpers (`fn insert_first_wins<K, V>(map: &mut HashMap<K, V>, ..)`): what they are instantiated with
    from rules.lib_call import all_fn_refs
    generic_inst = {}
    for path, body in fibex_bodies(F):
        names = [g for g in (body.get("generics") or []) if not g.startswith("const ") and not g.startswith("'")]
        if not names:
            continue
        for q, qb in fibex_bodies(F):
            for bi, f, sp, how in all_fn_refs(qb):
                if f["path"] == path or f.get("resolved") == path:
                    tys = [F.ty_s(a) for a in f.get("args", []) if isinstance(a, int)]
                    generic_inst.setdefault(path, []).append(tys)
    for path, body in fibex_bodies(F):
        insts = generic_inst.get(path, [])
        inst_result = sum(1 for tys in insts if any(("PduMetadata" in t or "FrameMetadata" in t) for t in tys))
        for bi, blk in enumerate(body["blocks"]):
            if blk["cleanup"]:
                continue
            t = blk["term"]
            f = cfg.callee_of(t)
            if not f:
                continue
            tgt = cfg.fn_target(f)
            tys = [a for a in f.get("args", []) if isinstance(a, int)]
            sty = f.get("self_ty")
            generic_map = inst_result > 0 and "HashMap" in tgt and any(F.ty(a)["k"] == "param" for a in tys)
            touches = generic_map or (sty is not None and is_result_map_ty(F, sty)) or ("HashMap" in tgt and any(("PduMetadata" in F.ty_s(a) or "FrameMetadata" in F.ty_s(a)) for a in tys)) or (("Entry" in tgt) and any(("PduMetadata" in F.ty_s(a) or "FrameMetadata" in F.ty_s(a)) for a in tys))
            if not touches:
                continue
            fl, ln = loc_of(blk)
            if re.search(r"HashMap::<.*>::insert$", tgt) and guarded_insert(F, body, bi):
                n_entry += 1
                entry_fns.add(path)
                R.instance("FIRST", "%s: insert guarded by the absent outcome of a membership test on the same map" % path)
            elif MAP_DENY.search(tgt) or MAP_DENY.search(f["path"]):
                short = re.sub(r"<.*?>", "", "::".join(tgt.split("::")[-2:]))
                R.violation("FIRST", "%s|%s" % (path, short), "%s writes a result map through %s: only the vacant arm of the entry API keeps the first definition of a duplicated id" % (path, tgt), function=path, file=fl, line=ln)
            elif re.search(r"HashMap::<.*>::entry$", tgt):
                n_entry += inst_result if generic_map else 1
                entry_fns.add(path)
                R.instance("FIRST", "%s: entry() on a result map" % path)
    # the loop over the files: the loop (in any function) whose body reaches Reader::from_file
    file_loops = []
    for path, body in fibex_bodies(F):
        for lp in cfg.natural_loops(body):
            callees = set()
            for bi in lp["blocks"]:
                f = cfg.callee_of(body["blocks"][bi]["term"])
                if f:
                    callees.add(cfg.fn_target(f))
                    callees.add(f["path"])
            local = {c for c in callees if c in F.bodies}
            reach = set(cg.local_reachable(sorted(local))) | callees if local else callees
            if any(c.endswith("::from_file") for c in reach):
                file_loops.append((path, body, lp, reach))
    if not file_loops:
        R.violation("FIRST", READ + "|file-loop", "cannot identify the loop over the input files", function=READ, kind="UNRECOGNISED-SHAPE")
    for path, body, lp, reach in file_loops:
        bad = [e for e in entry_fns if e in reach]
        inside = []
        if path in entry_fns:
            for bi in lp["blocks"]:
                f = cfg.callee_of(body["blocks"][bi]["term"])
                if f and re.search(r"HashMap::<.*>::entry$", cfg.fn_target(f)) and any(("PduMetadata" in F.ty_s(a) or "FrameMetadata" in F.ty_s(a)) for a in f.get("args", []) if isinstance(a, int)):
                    inside.append(bi)
        if bad or inside:
            fl, ln = loc_of(body["blocks"][lp["header"]])
            R.violation("FIRST", READ + "|assemble-inside-file-loop", "a result map is filled while the files are still being read (%s): definitions from later files would not see the accumulated PDUs / signals" % (sorted(bad) or path), function=path, file=fl, line=ln)
        else:
            R.obligation("FIRST", "%s|accumulate-then-assemble" % path, "discharged", "no result map is written inside the loop over the files")
    if n_entry >= 3:
        R.obligation("FIRST", READ + "|entry-only", "discharged", "%d entry() calls on result maps, no other write" % n_entry)
    else:
        R.violation("FIRST", READ + "|entry-count", "expected an entry() call per result map (3), found %d" % n_entry, function=READ, kind="UNRECOGNISED-SHAPE")
    R.floor("FIRST", 1)


def refs(ctx):
    F, R, cg = ctx.facts, ctx.report, ctx.cg
    sig_ok = pdu_ok = False
    for path, body in fibex_bodies(F):
        calls = [(cfg.fn_target(cfg.callee_of(blk["term"])), cfg.callee_of(blk["term"])) for blk in body["blocks"] if not blk["cleanup"] and cfg.callee_of(blk["term"])]
        names = [c for c, _ in calls]
        # unknown signal references are dropped: the resolver's Option result feeds filter_map / flatten / a `if let Some` push
        if TI in names and body["kind"] in ("closure",):
            rt = F.ty_s(body["locals"][0]["ty"])
            if rt.startswith("std::option::Option<"):
                sig_ok = True
        if TI in names and body["kind"] != "closure":
            # loop form: the result is matched, only Some is pushed
            sig_ok = sig_ok or any(n.endswith("Vec::<T, A>::push") or re.search(r"Vec::<.*>::push$", n) for n in names)
        # unknown PDU references fail: a lookup on the PDU map whose miss becomes an Err
        gets = [f for c, f in calls if re.search(r"HashMap::<.*>::get$", c) and any("PduMetadata" in F.ty_s(a) for a in f.get("args", []) if isinstance(a, int))]
        if gets:
            rt = F.ty_s(body["locals"][0]["ty"])
            if any(re.search(r"Option::<T>::(ok_or_else|ok_or)$", n) for n in names) and "Result<" in rt:
                pdu_ok = True
            elif miss_is_error(ctx, path) is True:
                pdu_ok = True
            else:
                fl, ln = body["span"]["f"], body["span"]["l"]
                R.violation("REFS", "%s|pdu-refs" % path.split("::{")[0], "%s looks a PDU reference up without turning a miss into an error (no ok_or_else / Result): a reference to an unknown PDU would be dropped instead of failing the load" % path, function=path, file=fl, line=ln)
    if sig_ok:
        R.obligation("REFS", READ + "|signal-refs-dropped", "discharged", "the signal-type resolver's Option result is filtered: unknown references are skipped")
        R.instance("REFS", "unknown signal refs skipped")
    else:
        R.violation("REFS", READ + "|signal-refs", "cannot find where unknown signal references are skipped", function=READ, kind="UNRECOGNISED-SHAPE")
    if pdu_ok:
        R.obligation("REFS", READ + "|pdu-refs-fail", "discharged", "PDU references resolved with get(..).ok_or_else(..) into a Result: an unknown PDU makes loading fail")
        R.instance("REFS", "unknown PDU ref fails the load")
    elif not any("pdu-refs" in v["key"] for v in R.violations):
        R.violation("REFS", READ + "|pdu-refs", "cannot find the fallible lookup of PDU references", function=READ, kind="UNRECOGNISED-SHAPE")
    R.floor("REFS", 2)


def miss_is_error(ctx, path):
    """Semantic form of the PDU-reference rule: on every path of `path` (one iteration of its loop, if any) on which the
    lookup in the PDU map misses, the function returns Err — a miss is neither skipped nor replaced.  True / False /
    None (no miss path seen)."""
    from engine.contracts import ret_ty
    from rules.lib_fibexflow import once_body
    F = ctx.facts
    body = F.body(path)
    b1 = once_body(F, path) if cfg.natural_loops(body) else body
    if b1 is None:
        return None
    eng = Engine(F)
    eng.key_all = True

    def on_call(eng_, st, fr, f, args, site):
        if re.search(r"HashMap::<.*>::get$", f["path"]) and any("PduMetadata" in F.ty_s(a) for a in f.get("args", []) if isinstance(a, int)):
            return [(st, Top(ret_ty(eng_, site), "pdu_get"))]
        return None

    eng.on_call = on_call
    try:
        outs = eng.call_path(b1["path"], eng.symbolic_args(b1))
    except Exception:
        return None
    seen = False
    for st, rv in outs:
        if not any(k[0] == "variant" and k[1] == "pdu_get" and k[2] == "None" for k in st.key):
            continue
        seen = True
        if not (isinstance(rv, Enum) and rv.variants and all(eng.T.variant_name(rv.ty, vi) == "Err" for vi, _ in rv.variants)):
            return False
    return True if seen else None


def sort_keys(ctx):
    """Every sort_by_key closure of the module projects field 0 of its item; the 2-tuples pushed by read_pdu / read_frame
    carry the instance's sequence number in field 0; a sort is reachable from both."""
    F, R, cg = ctx.facts, ctx.report, ctx.cg
    sorters = []
    for path, body in fibex_bodies(F):
        for blk in body["blocks"]:
            f = cfg.callee_of(blk["term"])
            if f and f["path"].endswith("::sort_by_key"):
                sorters.append(path)
    n_clos = 0
    for path in sorted(set(sorters)):
        for p in [q for q in F.bodies if q.startswith(path + "::{closure")]:
            cb = F.body(p)
            if cb["arg_count"] != 2:
                continue
            it = F.ty_s(cb["locals"][2]["ty"])
            if not it.startswith("&(") or F.ty(cb["locals"][0]["ty"])["k"] not in ("uint", "int"):
                continue  # not a key-projection closure (e.g. the `.map(|v| v.1)` that strips the key)
            eng = Engine(F)
            outs = eng.call_path(p, eng.symbolic_args(cb, names=["env", "item"]))
            n_clos += 1
            if len(outs) == 1 and isinstance(outs[0][1], Int) and outs[0][1].lin == Lin.sym("*item.0"):
                R.obligation("SORT", p + "|projects-0", "discharged", "sort key = field 0 of the item")
            else:
                R.violation("SORT", path + "|key-closure", "the sort key closure %s does not project field 0 (the sequence number) of its item" % p, function=p, file=cb["span"]["f"], line=cb["span"]["l"])
    for fn, ev in (("fibex::read_pdu", "SignalInstance"), ("fibex::read_frame", "PduInstance")):
        b = F.body(fn)
        eng = Engine(F)
        eng.inline_filter = lambda p: p != "fibex::Reader::<B>::read_event"
        pushed = []
        reach0 = set(cg.local_reachable([fn])) | {fn}

        def on_call(eng_, st, fr, f, args, site, _fn=fn, _reach=reach0):
            # the push may sit in a private helper (a newtype around the Vec): any 2-tuple pushed on the way counts
            if re.search(r"Vec::<.*>::push$", f["path"]) and (fr.path == _fn or fr.path in _reach) and len(args) > 1 and isinstance(args[1], Struct) and len(args[1].fields) == 2:
                pushed.append(args[1])
            return None

        eng.on_call = on_call
        eng.call_path(fn, eng.symbolic_args(b, names=["reader"]))
        okp = bool(pushed) and all(isinstance(v, Struct) and len(v.fields) == 2 and (".%s.sequence_number" % ev) in repr(v.fields[0]) for v in pushed)
        reach = set(cg.local_reachable([fn])) | {fn}
        sorted_here = any(s_ in reach for s_ in sorters)
        if okp and sorted_here and n_clos:
            R.obligation("SORT", fn + "|key", "discharged", "instances pushed as (sequence_number, ref) and sorted by field 0")
            R.instance("SORT", "%s: (sequence_number, ref) pushed, sort_by_key reachable" % fn)
        else:
            R.violation("SORT", fn + "|key", "%s does not sort its instances by the sequence number pushed with them (pushed first component is %s.sequence_number: %s; a sort_by_key on field 0 is reachable: %s)" % (fn, ev, okp, sorted_here and bool(n_clos)), function=fn, file=b["span"]["f"], line=b["span"]["l"])
    R.floor("SORT", 2)


def lookup(ctx):
    F, R = ctx.facts, ctx.report
    b = F.body(EXTRACT)
    eng = Engine(F)
    eng.key_all = True
    gets = []

    def on_call(eng_, st, fr, f, args, site):
        p = f["path"]
        if re.search(r"HashMap::<.*>::get$", p):
            kv = args[1]
            if isinstance(kv, Ref):
                kv = eng_.M.read_path(st, kv.loc, kv.path)
            if isinstance(kv, Top):
                kv = eng_.M.force(st, kv)
            gets.append((st.key, name_of(eng_, st, args[0]), kv, st))
            return None
        if p.endswith("hint::must_use") and args:
            return [(st, args[0])]
        if p.endswith("fmt::format") or p.endswith("alloc::fmt::format"):
            from engine.contracts import ret_ty
            return [(st, Top(ret_ty(eng_, site), "format_id"))]
        if f.get("name") == "clone":
            from engine.contracts import ret_ty
            return [(st, Top(ret_ty(eng_, site), "clone(%s)" % name_of(eng_, st, args[0])))]
        return None

    eng.on_call = on_call
    eng.call_path(EXTRACT, eng.symbolic_args(b, names=["fibex_metadata", "id", "extended_header"]))
    # "ID_" prefix literal
    has_prefix = False
    for (bi, si, o, sp) in cfg.all_operands(b, True):
        k = o.get("k") if isinstance(o, dict) else None
        if k:
            for key in ("bytes", "ptr_bytes", "indirect_bytes", "str"):
                if key in k:
                    d = k[key]
                    d = bytes(d) if not isinstance(d, str) else d.encode()
                    if b"ID_" in d:
                        has_prefix = True
    seen = set()
    names = [f["name"] for f in F.adts["fibex::FrameMetadataIdentification"]["variants"][0]["fields"]]
    for key, mp, k, st in gets:
        ext = [x[2] for x in key if x[0] == "variant" and x[1] == "extended_header"]
        ext = ext[0] if ext else None
        kv = k
        rep = repr(kv)
        if ext == "Some":
            ok = mp.endswith("frame_map_with_key") and isinstance(kv, Struct)
            if ok:
                d = dict(zip(names, kv.fields))
                ok = "clone(*extended_header.Some.0.context_id)" in repr(d.get("context_id")) and "clone(*extended_header.Some.0.application_id)" in repr(d.get("app_id")) and "format_id" in repr(d.get("frame_id"))
            want = "frame_map_with_key[(ext.context_id, ext.application_id, \"ID_<id>\")]"
        elif ext == "None":
            ok = mp.endswith("frame_map") and "format_id" in rep
            want = "frame_map[\"ID_<id>\"]"
        else:
            ok, want = False, "a lookup partitioned on the presence of the extended header"
        seen.add(ext)
        if ok:
            R.obligation("LOOKUP", "%s|ext=%s" % (EXTRACT, ext), "discharged", want)
            R.instance("LOOKUP", "extended header %s: %s" % (ext, want))
        else:
            R.violation("LOOKUP", "%s|ext=%s" % (EXTRACT, ext), "extract_metadata looks up %s with key %s; the property prescribes %s" % (mp, rep[:160], want), function=EXTRACT, file=b["span"]["f"], line=b["span"]["l"])
    if not has_prefix:
        R.violation("LOOKUP", EXTRACT + "|prefix", "the frame id text is not built with the \"ID_\" prefix", function=EXTRACT, file=b["span"]["f"], line=b["span"]["l"])
    if seen != {"Some", "None"}:
        R.violation("LOOKUP", EXTRACT + "|paths", "expected one lookup with and one without extended header, saw %s" % sorted(map(str, seen)), function=EXTRACT, kind="UNRECOGNISED-SHAPE")
    R.floor("LOOKUP", 2)


def _separator_evidence(ctx, idiom):
    """ATTR, weak form for predicates the slice-comparison rule does not follow (`strip_suffix`, `rsplit`, ...): a namespaced
    key is `<prefix>:<name>`, so whatever accepts it must look at the separator — some function or closure reachable from
    attr_opt mentions the byte / char ':' or a byte string / str containing it.  A necessary condition only (which byte is
    compared with it is not decided); a predicate with no ':' in it accepts `OID` for `ID`."""
    import json
    F, R = ctx.facts, ctx.report
    reach = set(ctx.cg.local_reachable([ATTR])) | {ATTR}
    seen, n = [], 0
    for q, qb in F.bodies.items():
        if qb.get("derived") or not (q in reach or any(q.startswith(r + "::{closure") for r in reach)):
            continue
        n += 1
        txt = json.dumps([qb["blocks"], qb.get("promoted")])   # `Some(&b':')` is a promoted constant of the body
        sw = any(blk["term"].get("k") == "switch" and 58 in (blk["term"].get("vals") or []) and F.ty_s(blk["term"].get("dty")) in ("u8", "char") for blk in qb["blocks"])   # a pattern `Some(&b':')`
        if sw or re.search(r'"int": 58[,}]', txt) or re.search(r'"str": "[^"]*:[^"]*"', txt) or re.search(r'"bytes": \[[^\]]*\b58\b[^\]]*\]', txt):
            seen.append(q)
    if seen:
        R.obligation("ATTR", ATTR + "|separator", "discharged", "the ':' separator is mentioned in %s (predicate written with %s: which byte it is compared with is not decided)" % (", ".join(seen[:3]), idiom))
        R.instance("ATTR", "separator evidence (%s form)" % idiom)
    else:
        b = F.body(ATTR)
        R.violation("ATTR", ATTR + "|separator", "attr_opt matches keys by %s but none of the %d function(s)/closure(s) it reaches mentions the namespace separator ':' — a key that merely ends with the name (e.g. OID for ID) is accepted" % (idiom, n), function=ATTR, file=b["span"]["f"], line=b["span"]["l"])


def attr(ctx):
    """attr_opt: an attribute is accepted iff key == name, or len(key) > len(name) and key[len(key)-len(name)-1] == ':'
    and key[len(key)-len(name)..] == name."""
    F, R = ctx.facts, ctx.report
    b = F.body(ATTR)
    # idioms that express the suffix test in one library call (`key.strip_suffix(name)`, `rsplit`, ...) are not modelled
    # as slice comparisons: the clause is then reported as not decided instead of judged on partial evidence
    from rules.lib_call import all_fn_refs
    for q in sorted(set(ctx.cg.local_reachable([ATTR])) | {ATTR}):
        qb = F.body(q)
        if qb is None or qb.get("derived"):
            continue
        for bi, f_, sp, how in all_fn_refs(qb):
            if re.search(r"::(strip_suffix|strip_prefix|rsplit|rsplitn|rsplit_once|split_last|rposition|rfind)(::<.*>)?$", f_["path"]) and "slice" in f_["path"]:
                R.notes.append("ATTR not decided: the attribute-matching predicate uses %s, which the rule does not express as slice comparisons" % f_["path"].split("::")[-1])
                _separator_evidence(ctx, f_["path"].split("::")[-1])
                return
    eng = Engine(F)
    eng.key_all = True

    def sl(eng_, st, v):
        vw = view(eng_, st, v)
        if vw is None:
            return "?"
        base = vw["base"] if isinstance(vw["base"], str) else "tmp"
        return "%s[%s..+%s]" % (base, vw["off"], vw["len"])

    atoms = {}

    def on_call(eng_, st, fr, f, args, site):
        p = f["path"]
        if p.endswith("::eq") and len(args) == 2:
            nm = "eq(%s,%s)" % (sl(eng_, st, args[0]), sl(eng_, st, args[1]))
            va, vb = view(eng_, st, args[0]), view(eng_, st, args[1])
            if va is not None and vb is not None:
                atoms[nm] = (va["base"], va["off"], va["len"], vb["base"], vb["off"], vb["len"])
            return [(st, Bool(("sym", nm)))]
        if p.endswith("Iterator::next"):
            from engine.contracts import ret_ty
            rt = ret_ty(eng_, site)
            o = eng_.M.force(st, Top(rt, "attr#%d" % eng_._hv()))
            return [(st, o)] if False else None
        if p.endswith("::ends_with") or p.endswith("::starts_with") or p.endswith("::contains"):
            return [(st, Bool(("sym", "%s(%s,%s)" % (p.split("::")[-1], sl(eng_, st, args[0]), sl(eng_, st, args[1])))))]
        return None

    eng.on_call = on_call
    outs = eng.call_path(ATTR, eng.symbolic_args(b, names=["self", "attrs", "name"]))
    n_acc = 0
    if not any(k[0] == "sym" and (str(k[1]).startswith("eq(") or "_with(" in str(k[1]) or str(k[1]).startswith("contains(")) for st, rv in outs for k in st.key):
        R.notes.append("ATTR not decided: the attribute-matching predicate of attr_opt is not expressed through slice comparisons the analysis follows (e.g. an iterator adaptor over quick-xml's attribute iterator)")
        return
    for st, rv in outs:
        if not isinstance(rv, Enum):
            continue
        for vi, fs in rv.variants:
            if vi != 0:
                continue
            o = fs[0]
            if isinstance(o, Top):
                o = eng.M.force(st, o)
            if not (isinstance(o, Enum) and len(o.variants) == 1 and eng.T.variant_name(o.ty, o.variants[0][0]) == "Some"):
                continue
            # an accepting exit: the conditions of the last iteration
            lits = [(k[1], k[2]) for k in st.key if k[0] == "sym" and (str(k[1]).startswith("eq(") or "_with(" in str(k[1]) or str(k[1]).startswith("contains("))]
            cmps = [k for k in st.key if k[0] == "cmp"]
            n_acc += 1
            desc = "%s %s" % (lits, [(c[1], c[2], c[3], c[4]) for c in cmps])
            def is_full(a):
                return a is not None and a[1] == Lin.const(0) and a[4] == Lin.const(0) and a[0] != a[3] and isinstance(a[0], str) and isinstance(a[3], str) and a[2] == Lin.sym("len(%s)" % a[0]) and a[5] == Lin.sym("len(%s)" % a[3])

            def is_tail(a):
                # some view of the key with exactly len(name) bytes that ENDS at the key's end, compared with the whole name
                if a is None or not isinstance(a[0], str) or not isinstance(a[3], str):
                    return False
                for (kb, ko, kl, nb, no, nl) in (a, (a[3], a[4], a[5], a[0], a[1], a[2])):
                    if no == Lin.const(0) and nl == Lin.sym("len(%s)" % nb) and kl == nl and ko.add(kl) == Lin.sym("len(%s)" % kb) and kb != nb:
                        return True
                return False

            full_true = [l for l in lits if l[1] and is_full(atoms.get(l[0]))]
            tail_true = [l for l in lits if l[1] and is_tail(atoms.get(l[0]))]
            colon = [c for c in cmps if c[1] == "Eq" and c[4] and ("58" in (c[2], c[3]))]
            other = [l for l in lits if l[1] and l not in full_true and l not in tail_true]
            if full_true and not other and not tail_true:
                R.obligation("ATTR", ATTR + "|accept|exact", "discharged", "key == name")
                R.instance("ATTR", "accept: key == name")
            elif tail_true and colon and not other:
                R.obligation("ATTR", ATTR + "|accept|namespaced", "discharged", "a ':' test and the name-length tail of the key equal to the name")
                R.instance("ATTR", "accept: key ends with ':' + name")
            else:
                R.violation("ATTR", ATTR + "|accept|other", "attr_opt accepts an attribute on a path without the evidence of `key == name` or of (`:` before the tail and tail of name length == name): %s" % desc[:400], function=ATTR, file=b["span"]["f"], line=b["span"]["l"])
    if n_acc < 2:
        R.violation("ATTR", ATTR + "|accepting-exits", "expected two accepting paths (exact and namespaced match), saw %d" % n_acc, function=ATTR, kind="UNRECOGNISED-SHAPE")
    R.floor("ATTR", 2)


def map_independence(ctx):
    """MAP-IND: a frame is entered in the id-keyed map on every iteration of the frame loop, and in the (context id,
    application id, frame id)-keyed map on every iteration on which both ids are present — a duplicate in one map does
    not keep the frame out of the other.  Path rule on the loop that touches both maps: no header-to-latch path avoids
    the id-keyed map's write site, and none avoids the other map's write site unless it takes a `None` arm of a test on
    an optional value (the ids, or the key built from them)."""
    from rules.common import place_ty, op_local
    from rules import lib_loop
    F, R = ctx.facts, ctx.report
    n = 0
    for path, body in fibex_bodies(F):
        loops = cfg.natural_loops(body)
        if not loops:
            continue
        sc = cfg.succs(body)
        ddefs = lib_loop.discr_defs(body)
        for lp in loops:
            keyed, plain = set(), set()
            for bi in lp["blocks"]:
                blk = body["blocks"][bi]
                if blk["cleanup"]:
                    continue
                f = cfg.callee_of(blk["term"])
                if not f:
                    continue
                tgt = cfg.fn_target(f)
                tys = [F.ty_s(a) for a in (f.get("args") or []) if isinstance(a, int)]
                if f.get("self_ty") is not None:
                    tys.append(F.ty_s(f["self_ty"]))
                if not any("FrameMetadata" in t for t in tys):
                    continue
                local_helper = (f.get("resolved") or f["path"]) in F.bodies
                if not (re.search(r"HashMap::<.*>::(entry|insert|contains_key|get|get_key_value|try_insert)$", tgt) or local_helper):
                    continue
                if local_helper and not any("HashMap" in F.ty_s(l["ty"]) for l in F.body(f.get("resolved") or f["path"])["locals"][1:1 + F.body(f.get("resolved") or f["path"])["arg_count"]]):
                    continue
                (keyed if any("FrameMetadataIdentification" in t for t in tys) else plain).add(bi)
            if not keyed or not plain:
                continue
            hdr = lp["header"]
            latches = {a for a, h in lp["back_edges"]}
            fl, ln = loc_of(body["blocks"][hdr])

            def reach_latch(avoid, drop_none_arms):
                seen, work = {hdr}, [hdr]
                while work:
                    u = work.pop()
                    if u in latches and u not in avoid:
                        return True
                    if u in avoid:
                        continue
                    t = body["blocks"][u]["term"]
                    nxt = [x for x in sc[u] if x in lp["blocks"] and not body["blocks"][x]["cleanup"]]
                    if drop_none_arms and t["k"] == "switch":
                        dl = op_local(t["d"])
                        for pl in ddefs.get(dl, []) if dl is not None else []:
                            pt = place_ty(F, body, pl)
                            if pt is not None and F.ty_s(pt).startswith(("std::option::Option<", "core::option::Option<")):
                                none_t = t["otherwise"]
                                for v, tg in zip(t["vals"], t["tgts"]):
                                    if int(v) == 0:
                                        none_t = tg
                                nxt = [x for x in nxt if x != none_t]
                    for x in nxt:
                        if x not in seen:
                            seen.add(x)
                            work.append(x)
                return False

            n += 1
            if reach_latch(plain, False):
                R.violation("MAP-IND", "%s|id-map-skipped" % path, "an iteration of the frame loop can complete without touching the map keyed by the frame id: a frame can be missing from the by-id lookup", function=path, file=fl, line=ln)
            else:
                R.obligation("MAP-IND", "%s|id-map-always" % path, "discharged", "every header-to-latch path passes a write site of the id-keyed frame map")
            if reach_latch(keyed, True):
                R.violation("MAP-IND", "%s|keyed-map-skipped" % path, "an iteration of the frame loop can complete without touching the map keyed by (context id, application id, frame id) although no test on an optional id took its None arm: a frame whose id is a duplicate in the by-id map (or any other early `continue`) is kept out of the keyed lookup", function=path, file=fl, line=ln)
            else:
                R.obligation("MAP-IND", "%s|keyed-map-when-ids-present" % path, "discharged", "every header-to-latch path that takes no None arm of an optional-id test passes a write site of the keyed frame map")
            R.instance("MAP-IND", "%s: loop at line %s touches both frame maps (%d / %d sites)" % (path, ln, len(plain), len(keyed)))
    if n == 0:
        R.notes.append("MAP-IND: no loop touching both frame maps found (not decided)")
