"""C17 — timestamps from ms / µs denote the same instant (DESIGN §4/C17): TERM + PANIC."""
from engine.interp import Engine
from engine.lin import Lin
from engine.values import Int, Struct
from rules import lib_panic

LEVEL = "proof"
ADT = "dlt::DltTimeStamp"
CASES = (("dlt::DltTimeStamp::from_ms", 1000), ("dlt::DltTimeStamp::from_us", 1))


def run(ctx):
    F, R = ctx.facts, ctx.report
    R.explanation = ("TERM: the abstract interpreter computes the result fields as linear terms over x div D / x mod D and proves seconds*10^6 + microseconds = U*x and "
                     "microseconds <= 999999 from x = D*(x div D) + (x mod D); PANIC: every overflow/div obligation discharged under the stated precondition.")
    adt = F.adts.get(ADT)
    if not adt:
        R.violation("ANCHOR", "missing|" + ADT, "type %s not found" % ADT, kind="ANCHOR-MISSING")
        return
    names = [f["name"] for f in adt["variants"][0]["fields"]]
    if "seconds" not in names or "microseconds" not in names:
        R.violation("ANCHOR", "fields|" + ADT, "DltTimeStamp no longer has seconds/microseconds fields", kind="ANCHOR-MISSING")
        return
    isec, ius = names.index("seconds"), names.index("microseconds")
    for path, U in CASES:
        b = F.body(path)
        if b is None:
            R.violation("ANCHOR", "missing|" + path, "anchor function %s not found" % path, kind="ANCHOR-MISSING")
            continue
        eng = Engine(F)
        eng.key_all = True
        args = eng.symbolic_args(b, names=["x"])
        # precondition of the property: whole seconds fit in 32 bits
        per_s = 1000000 // U
        eng.bounds["x"] = (0, (1 << 32) * per_s - 1)
        outs = eng.call_path(path, [eng.M.force(eng.new_state(), args[0])])
        if not outs:
            R.violation("TERM", path + "|no-exit", "no normal exit found", function=path)
        for st, rv in outs:
            if not isinstance(rv, Struct) or not all(isinstance(rv.fields[i], Int) for i in (isec, ius)):
                R.violation("TERM", path + "|shape", "result is not a DltTimeStamp of two integer terms: %r" % (rv,), function=path, kind="UNRECOGNISED-SHAPE")
                continue
            sec, us = rv.fields[isec], rv.fields[ius]
            x = Lin.sym("x")
            e = sec.lin.scale(1000000).add(us.lin).sub(x.scale(U))
            ok_id = st.holds(e, eng) and st.holds(e.neg(), eng)
            R.instance("TERM", "%s: seconds = %s, microseconds = %s; identity seconds*10^6+microseconds-%d*x = %s" % (path, sec.lin, us.lin, U, e))
            R.sample({"function": path, "seconds": repr(sec.lin), "microseconds": repr(us.lin), "facts": sorted(map(repr, st.facts))[:6]})
            if ok_id:
                R.obligation("TERM", path + "|identity", "discharged", "linear identity follows from x = D*q + r")
            else:
                R.obligation("TERM", path + "|identity", "open", repr(e) + " == 0")
                R.violation("TERM", path + "|identity", "seconds*1000000 + microseconds != %d*input: residual term %s is not zero (seconds = %s, microseconds = %s)" % (U, e, sec.lin, us.lin), file=b["span"]["f"], line=b["span"]["l"], function=path)
            ok_rng = st.holds(Lin.const(999999).sub(us.lin), eng) and st.holds(us.lin, eng)
            if ok_rng:
                R.obligation("TERM", path + "|range", "discharged", "0 <= microseconds <= 999999 by interval arithmetic")
            else:
                R.obligation("TERM", path + "|range", "open", "microseconds <= 999999")
                R.violation("TERM", path + "|range", "microseconds field %s can reach 1000000 or more" % us.lin, file=b["span"]["f"], line=b["span"]["l"], function=path)
        lib_panic.report(ctx, eng, "PANIC", entry=path)
    R.floor("TERM", 2)
    R.floor("PANIC", 2)
