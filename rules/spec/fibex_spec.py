"""FIBEX non-verbose vocabulary (transcribed from the AUTOSAR DLT / dlt-viewer FIBEX conventions and the property
statement): standard signal names and base data types -> argument kind, width in bits, string coding."""
SIGNALS = {
    "S_BOOL": ("Bool", None, "ASCII"),
    "S_SINT8": ("Signed", 8, "ASCII"), "S_SINT16": ("Signed", 16, "ASCII"), "S_SINT32": ("Signed", 32, "ASCII"), "S_SINT64": ("Signed", 64, "ASCII"),
    "S_UINT8": ("Unsigned", 8, "ASCII"), "S_UINT16": ("Unsigned", 16, "ASCII"), "S_UINT32": ("Unsigned", 32, "ASCII"), "S_UINT64": ("Unsigned", 64, "ASCII"),
    "S_FLOA16": None,  # not representable: refused
    "S_FLOA32": ("Float", 32, "ASCII"), "S_FLOA64": ("Float", 64, "ASCII"),
    "S_STRG_ASCII": ("StringType", None, "ASCII"), "S_STRG_UTF8": ("StringType", None, "UTF8"),
    "S_RAWD": ("Raw", None, "ASCII"), "S_RAW": ("Raw", None, "ASCII"),
}
BASE_TYPES = {
    "A_UINT8": ("Unsigned", 8, "ASCII"), "A_UINT16": ("Unsigned", 16, "ASCII"), "A_UINT32": ("Unsigned", 32, "ASCII"), "A_UINT64": ("Unsigned", 64, "ASCII"),
    "A_INT8": ("Signed", 8, "ASCII"), "A_INT16": ("Signed", 16, "ASCII"), "A_INT32": ("Signed", 32, "ASCII"), "A_INT64": ("Signed", 64, "ASCII"),
    "A_SINT8": ("Signed", 8, "ASCII"), "A_SINT16": ("Signed", 16, "ASCII"), "A_SINT32": ("Signed", 32, "ASCII"), "A_SINT64": ("Signed", 64, "ASCII"),
    "A_FLOAT32": ("Float", 32, "ASCII"), "A_FLOAT64": ("Float", 64, "ASCII"),
    "A_ASCIISTRING": ("StringType", None, "ASCII"), "A_UNICODE2STRING": ("StringType", None, "UTF8"),
}

# ---- value flow: public model field <- (element that closes the record part, source element, kind of source)
# kinds: "text" element text, "num" number parsed from element text, "attr:<NAME>" attribute of the source element.
# Transcribed from the FIBEX layout the property statement describes: a FRAME carries SHORT-NAME and a
# MANUFACTURER-EXTENSION with APPLICATION_ID / CONTEXT_ID / MESSAGE_TYPE / MESSAGE_INFO; a PDU carries DESC;
# PDU-INSTANCE / SIGNAL-INSTANCE carry SEQUENCE-NUMBER and PDU-REF / SIGNAL-REF (ID-REF); a SIGNAL carries
# CODING-REF (ID-REF); a CODING carries CODED-TYPE with BASE-DATA-TYPE.
MODEL_RECORDS = ("fibex::PduMetadata", "fibex::FrameMetadata", "fibex::FrameMetadataIdentification")
MODEL = {
    ("fibex::FrameMetadata", "short_name"): ("FRAME", "SHORT-NAME", "text"),
    ("fibex::FrameMetadata", "application_id"): ("MANUFACTURER-EXTENSION", "APPLICATION_ID", "text"),
    ("fibex::FrameMetadata", "context_id"): ("MANUFACTURER-EXTENSION", "CONTEXT_ID", "text"),
    ("fibex::FrameMetadata", "message_type"): ("MANUFACTURER-EXTENSION", "MESSAGE_TYPE", "text"),
    ("fibex::FrameMetadata", "message_info"): ("MANUFACTURER-EXTENSION", "MESSAGE_INFO", "text"),
    ("fibex::PduMetadata", "description"): ("PDU", "DESC", "text"),
    ("fibex::FrameMetadataIdentification", "context_id"): ("MANUFACTURER-EXTENSION", "CONTEXT_ID", "text"),
    ("fibex::FrameMetadataIdentification", "app_id"): ("MANUFACTURER-EXTENSION", "APPLICATION_ID", "text"),
    ("fibex::FrameMetadataIdentification", "frame_id"): ("FRAME", "FRAME", "attr:ID"),
}
KEYS = {
    "pdu_map_key": ("PDU", "PDU", "attr:ID"),
    "frame_map_key": ("FRAME", "FRAME", "attr:ID"),
    "pdu_lookup_key": ("PDU-INSTANCE", "PDU-REF", "attr:ID-REF"),
    "signals_key": ("SIGNAL", "SIGNAL", "attr:ID"),
    "signals_val": ("SIGNAL", "CODING-REF", "attr:ID-REF"),
    "codings_key": ("CODING", "CODING", "attr:ID"),
    "codings_val": ("CODING", "CODED-TYPE", "attr:BASE-DATA-TYPE"),
    "signal_ref": ("SIGNAL-INSTANCE", "SIGNAL-REF", "attr:ID-REF"),
    "signal_seq": ("SIGNAL-INSTANCE", "SEQUENCE-NUMBER", "num"),
    "pdu_seq": ("PDU-INSTANCE", "SEQUENCE-NUMBER", "num"),
}

# ---- nesting of the elements the reader knows (direct children, FIBEX 3.x layout as used by DLT non-verbose files).
# Used only to decide which writers of a shared scratch slot can occur between the start and the end of an element.
CHILDREN = {
    "FRAME": ("SHORT-NAME", "DESC", "BYTE-LENGTH", "FRAME-TYPE", "PDU-INSTANCE", "MANUFACTURER-EXTENSION"),
    "PDU-INSTANCE": ("PDU-REF", "SEQUENCE-NUMBER"),
    "MANUFACTURER-EXTENSION": ("APPLICATION_ID", "CONTEXT_ID", "MESSAGE_TYPE", "MESSAGE_INFO"),
    "PDU": ("SHORT-NAME", "DESC", "BYTE-LENGTH", "PDU-TYPE", "SIGNAL-INSTANCE"),
    "SIGNAL-INSTANCE": ("SEQUENCE-NUMBER", "SIGNAL-REF"),
    "SIGNAL": ("SHORT-NAME", "DESC", "CODING-REF"),
    "CODING": ("SHORT-NAME", "DESC", "CODED-TYPE"),
}


def inside(tag):
    """tag and everything that can occur below it."""
    out, todo = {tag}, [tag]
    while todo:
        t = todo.pop()
        for c in CHILDREN.get(t, ()):
            if c not in out:
                out.add(c)
                todo.append(c)
    return out
