"""FIBEX non-verbose vocabulary (transcribed from the AUTOSAR DLT / dlt-viewer FIBEX conventions and the property
statement): standard signal names and base data types -> argument kind, width in bits, string coding."""
SIGNALS = {
    "S_BOOL": ("Bool", None, "ASCII"),
    "S_SINT8": ("Signed", 8, "ASCII"), "S_SINT16": ("Signed", 16, "ASCII"), "S_SINT32": ("Signed", 32, "ASCII"), "S_SINT64": ("Signed", 64, "ASCII"),
    "S_UINT8": ("Unsigned", 8, "ASCII"), "S_UINT16": ("Unsigned", 16, "ASCII"), "S_UINT32": ("Unsigned", 32, "ASCII"), "S_UINT64": ("Unsigned", 64, "ASCII"),
    "S_FLOA16": None,  # not representable: refused
    "S_FLOA32": ("Float", 32, "ASCII"), "S_FLOA64": ("Float", 64, "ASCII"),
    "S_STRG_ASCII": ("StringType", None, "ASCII"), "S_STRG_UTF8": ("StringType", None, "UTF8"),
    "S_RAWD": ("Raw", None, "ASCII"), "S_RAW": ("Raw", None, "ASCII"),
}
BASE_TYPES = {
    "A_UINT8": ("Unsigned", 8, "ASCII"), "A_UINT16": ("Unsigned", 16, "ASCII"), "A_UINT32": ("Unsigned", 32, "ASCII"), "A_UINT64": ("Unsigned", 64, "ASCII"),
    "A_INT8": ("Signed", 8, "ASCII"), "A_INT16": ("Signed", 16, "ASCII"), "A_INT32": ("Signed", 32, "ASCII"), "A_INT64": ("Signed", 64, "ASCII"),
    "A_SINT8": ("Signed", 8, "ASCII"), "A_SINT16": ("Signed", 16, "ASCII"), "A_SINT32": ("Signed", 32, "ASCII"), "A_SINT64": ("Signed", 64, "ASCII"),
    "A_FLOAT32": ("Float", 32, "ASCII"), "A_FLOAT64": ("Float", 64, "ASCII"),
    "A_ASCIISTRING": ("StringType", None, "ASCII"), "A_UNICODE2STRING": ("StringType", None, "UTF8"),
}
