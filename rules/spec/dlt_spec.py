"""Spec tables: the independent oracle.  Written from the AUTOSAR "Log and Trace
Protocol Specification" (PRS_Dlt, message format chapter) and the dlt-daemon
storage-header convention — NOT from the crate."""

# ---- standard header HTYP bits [PRS_Dlt_00094 ff.]
HTYP_BITS = {"UEH": 0, "MSBF": 1, "WEID": 2, "WSID": 3, "WTMS": 4}  # VERS = bits 5..7
# ---- extended header MSIN: VERB bit 0, MSTP bits 1..3, MTIN bits 4..7
MSTP = {"Log": 0, "ApplicationTrace": 1, "NetworkTrace": 2, "Control": 3}
MTIN_LOG = {"Fatal": 1, "Error": 2, "Warn": 3, "Info": 4, "Debug": 5, "Verbose": 6}
MTIN_APP_TRACE = {"Variable": 1, "FunctionIn": 2, "FunctionOut": 3, "State": 4, "Vfb": 5}
MTIN_NW_TRACE = {"Ipc": 1, "Can": 2, "Flexray": 3, "Most": 4, "Ethernet": 5, "Someip": 6}
MTIN_CONTROL = {"Request": 1, "Response": 2}
# ---- type info bits [PRS_Dlt_00135 ff.]
TYPE_INFO_BITS = {"BOOL": 4, "SINT": 5, "UINT": 6, "FLOA": 7, "ARAY": 8, "STRG": 9, "RAWD": 10, "VARI": 11, "FIXP": 12, "TRAI": 13, "STRU": 14}
TYLE = {1: 8, 2: 16, 3: 32, 4: 64, 5: 128}  # bits 0..3
SCOD_SHIFT = 15  # bits 15..17, 0 ASCII, 1 UTF-8

# ---- crate constants that must carry these values (path -> expected value)
CONSTS = {
    "dlt::WITH_EXTENDED_HEADER_FLAG": 1 << HTYP_BITS["UEH"],
    "dlt::BIG_ENDIAN_FLAG": 1 << HTYP_BITS["MSBF"],
    "dlt::WITH_ECU_ID_FLAG": 1 << HTYP_BITS["WEID"],
    "dlt::WITH_SESSION_ID_FLAG": 1 << HTYP_BITS["WSID"],
    "dlt::WITH_TIMESTAMP_FLAG": 1 << HTYP_BITS["WTMS"],
    "dlt::HEADER_MIN_LENGTH": 4,  # HTYP + MCNT + LEN(2)
    "dlt::VERBOSE_FLAG": 1,
    "dlt::EXTENDED_HEADER_LENGTH": 10,  # MSIN + NOAR + APID(4) + CTID(4)
    "dlt::STORAGE_HEADER_LENGTH": 16,  # pattern(4) + seconds(4) + microseconds(4) + ECU(4)
    "dlt::TYPE_INFO_LENGTH": 4,
    "dlt::TYPE_INFO_BOOL_FLAG": 1 << TYPE_INFO_BITS["BOOL"],
    "dlt::TYPE_INFO_SINT_FLAG": 1 << TYPE_INFO_BITS["SINT"],
    "dlt::TYPE_INFO_UINT_FLAG": 1 << TYPE_INFO_BITS["UINT"],
    "dlt::TYPE_INFO_FLOAT_FLAG": 1 << TYPE_INFO_BITS["FLOA"],
    "dlt::TYPE_INFO_STRING_FLAG": 1 << TYPE_INFO_BITS["STRG"],
    "dlt::TYPE_INFO_RAW_FLAG": 1 << TYPE_INFO_BITS["RAWD"],
    "dlt::TYPE_INFO_VARIABLE_INFO": 1 << TYPE_INFO_BITS["VARI"],
    "dlt::TYPE_INFO_FIXED_POINT_FLAG": 1 << TYPE_INFO_BITS["FIXP"],
    "dlt::TYPE_INFO_TRACE_INFO_FLAG": 1 << TYPE_INFO_BITS["TRAI"],
    "dlt::LEVEL_FATAL": 1, "dlt::LEVEL_ERROR": 2, "dlt::LEVEL_WARN": 3, "dlt::LEVEL_INFO": 4, "dlt::LEVEL_DEBUG": 5, "dlt::LEVEL_VERBOSE": 6,
    "dlt::DLT_TYPE_LOG": 0, "dlt::DLT_TYPE_APP_TRACE": 1, "dlt::DLT_TYPE_NW_TRACE": 2, "dlt::DLT_TYPE_CONTROL": 3,
    "dlt::CTRL_TYPE_REQUEST": 1, "dlt::CTRL_TYPE_RESPONSE": 2,
    "parse::DLT_PATTERN": b"DLT\x01",
    "dlt::DEFAULT_ECU_ID": "ECU",
}
OPTIONAL_CONSTS = {  # checked only when present
    "dlt::_TYPE_INFO_ARRAY_FLAG": 1 << TYPE_INFO_BITS["ARAY"],
    "dlt::TYPE_INFO_STRUCT_FLAG": 1 << TYPE_INFO_BITS["STRU"],
}
# enum discriminants that are used arithmetically (`as usize / 8`)
ENUM_DISCR = {
    "dlt::TypeLength": {"BitLength8": 8, "BitLength16": 16, "BitLength32": 32, "BitLength64": 64, "BitLength128": 128},
    "dlt::FloatWidth": {"Width32": 32, "Width64": 64},
}
# severity order of log levels, most severe first (derived PartialOrd follows declaration order)
LOG_LEVEL_ORDER = ["Fatal", "Error", "Warn", "Info", "Debug", "Verbose", "Invalid"]
