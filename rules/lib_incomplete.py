"""C05 — ORDER / HINT / ERR rules over the exits of the in-context analysis of dlt_message_intern and of
dlt_consume_msg (DESIGN §4/C05).

ORDER  every Ok exit entails len(input) >= A + L: the parser never returns a message (or a filtered / invalid
       marker) unless the whole declared message is present.
HINT   every Incomplete(Size(n)) exit whose hint is a linear expression over the input entails
       1 <= n <= (minimal end of a well-formed message consistent with the bytes read) - len(input);
       joined hints (phi) are checked by entailment and otherwise reported as not decided.
ERR    every hard-error exit that is reachable while the declared message is not completely present is justified by a
       value check a well-formed message passes: a tag mismatch or the header-length consistency check.
"""
from engine.lin import Lin
from engine.values import Enum, Int, Slice, Struct, Top
from rules import lib_parse
from rules.spec import dlt_spec
from rules.C04 import spec_header_len, spec_header_len_min

FN = lib_parse.INTERN
CONSUME = "parse::dlt_consume_msg"


def err_parts(eng, st, ev):
    """[(kind name, hint Lin or None or 'unknown')] of a nom::Err value."""
    if isinstance(ev, Top):
        ev = eng.M.force(st, ev)
    out = []
    if not isinstance(ev, Enum):
        return [(0, "?", None)]
    for ei, efs in ev.variants:
        en = eng.T.variant_name(ev.ty, ei)
        if en == "IncompleteParse" and efs:
            # the crate's own error for missing bytes (what a nom Incomplete is converted to), built directly
            od = efs[0]
            if isinstance(od, Top):
                od = eng.M.force(st, od)
            if isinstance(od, Enum):
                for oi, ofs in od.variants:
                    if eng.T.variant_name(od.ty, oi) == "None":
                        out.append((ei, "Incomplete", "unknown"))
                    else:
                        nz = ofs[0]
                        if isinstance(nz, Top):
                            nz = eng.M.force(st, nz)
                        v = nz.fields[0] if isinstance(nz, Struct) and nz.fields else (nz if isinstance(nz, Int) else None)
                        out.append((ei, "Incomplete", v.lin if isinstance(v, Int) else "?"))
            else:
                out.append((ei, "Incomplete", "?"))
            continue
        if en != "Incomplete":
            out.append((ei, en, None))
            continue
        nd = efs[0]
        if isinstance(nd, Top):
            nd = eng.M.force(st, nd)
        if not isinstance(nd, Enum):
            out.append((ei, en, "?"))
            continue
        for ni, nfs in nd.variants:
            nn = eng.T.variant_name(nd.ty, ni)
            if nn == "Unknown":
                out.append((ei, en, "unknown"))
            else:
                nz = nfs[0]
                if isinstance(nz, Top):
                    nz = eng.M.force(st, nz)
                v = nz.fields[0] if isinstance(nz, Struct) else None
                out.append((ei, en, v.lin if isinstance(v, Int) else "?"))
    return out


def min_end(eng, st, wsh, fixed_A=None):
    """Smallest possible end offset of a well-formed message consistent with what was read on this path."""
    A, Lname, hsym = lib_parse.header_layout(eng, st)
    if fixed_A is not None and A is None:
        A = fixed_A
    if A is not None and Lname is not None:
        return A.add(Lin.sym(Lname)), "A + L"
    if A is not None:
        bits = lib_parse.htyp_bits(st, hsym) if hsym else {}
        return A.add(Lin.const(spec_header_len_min(bits))), "A + header length"
    if wsh:
        for k in st.key:
            if k == ("find", "some"):
                s = [x for x in st.facts for y in x.syms() if y.startswith("found#")]
                syms = sorted({y for x in st.facts for y in x.syms() if y.startswith("found#")})
                if len(syms) == 1:
                    return Lin.sym(syms[0]).add(Lin.const(20)), "found + 16 + 4"
        return Lin.const(20), "16 + 4"
    return Lin.const(4), "4"


def check_exits(ctx, eng, outs, fn, b, consume=False, strict_verdict=False):
    R = ctx.report
    ilen = Lin.sym("len(input)")
    fl, ln = b["span"]["f"], b["span"]["l"]
    n_hint = n_phi = n_err = n_order = 0
    for st0, rv in outs:
        if not isinstance(rv, Enum):
            continue
        for vi, fs in rv.variants:
            st = lib_parse.ok_state(eng, st0, rv, vi)
            if st is None:
                continue
            wsh = True if consume else lib_parse.key_flag(st, "with_storage_header")
            A, Lname, hsym = lib_parse.header_layout(eng, st)
            whole = A is not None and Lname is not None and st.holds(ilen.sub(A).sub(Lin.sym(Lname)), eng)
            if vi == 0:
                tup = fs[0]
                if isinstance(tup, Top):
                    tup = eng.M.force(st, tup)
                rest = tup.fields[0]
                if A is None or Lname is None:
                    continue  # 'no further storage header' / empty-input exits: checked by C04
                n_order += 1
                if whole:
                    R.obligation("ORDER", "%s|ok-exit-has-whole-message|%d" % (fn, n_order), "discharged", "len(input) >= A + L on this Ok exit")
                else:
                    R.violation("ORDER", fn + "|ok-exit-without-whole-message", "an Ok exit is reachable although the declared message (A + L = %s + %s bytes) is not known to be completely present: a proper prefix could be returned as a message" % (A, Lname), function=fn, file=fl, line=ln)
                continue
            ev0 = fs[0]
            if isinstance(ev0, Top):
                ev0 = eng.M.force(st, ev0)
            st_err = st
            for ei, en, hint in err_parts(eng, st_err, ev0):
                # facts that hold only for this kind of error (guards attached at joins)
                st = lib_parse.ok_state(eng, st_err, ev0, ei) if isinstance(ev0, Enum) else st_err
                if st is None:
                    continue
                A, Lname, hsym = lib_parse.header_layout(eng, st)
                whole = A is not None and Lname is not None and st.holds(ilen.sub(A).sub(Lin.sym(Lname)), eng)
                if en == "Incomplete":
                    if hint in ("unknown",):
                        R.instance("HINT.unknown", "Incomplete(Unknown)")
                        continue
                    if hint == "?" or hint is None:
                        R.violation("HINT", fn + "|shape", "cannot read the hint of an Incomplete exit", function=fn, kind="UNRECOGNISED-SHAPE")
                        continue
                    if wsh and any(k == ("find", "none") for k in st.key):
                        continue  # no pattern in >= 16 bytes: not a prefix of a well-formed message
                    hs_ = hint.single_sym() if hasattr(hint, "single_sym") else None
                    tm_ = eng.sym_terms.get(hs_) if hs_ else None
                    if tm_ is not None and tm_[0] == "sat" and tm_[1] == "Sub" and hint == Lin.sym(hs_):
                        # `NonZeroUsize::new(a.saturating_sub(b))` is Some only when a > b, and then it is a - b
                        try:
                            st = st.fork()
                            st.add_fact(tm_[2].sub(tm_[3]).sub(Lin.const(1)), eng)
                            hint = tm_[2].sub(tm_[3])
                        except Exception:
                            pass
                    end, why = min_end(eng, st, wsh, Lin.const(16) if consume else None)
                    lo_ok = True  # Needed::Size carries a NonZeroUsize: >= 1 by the type's invariant (new_unchecked is deny-listed)
                    hi_ok = st.holds(end.sub(ilen).sub(hint), eng)
                    if not hi_ok and Lname is not None and hsym:
                        # well-formedness hypothesis of the property (a prefix of a *valid* message): the declared length
                        # covers at least the header the header-type flags announce
                        H = spec_header_len_min(lib_parse.htyp_bits(st, hsym))  # flags not tested yet count as absent
                        if H is not None:
                            s2 = st.fork()
                            try:
                                s2.add_fact(Lin.sym(Lname).sub(Lin.const(H)), eng)
                                hi_ok = s2.holds(end.sub(ilen).sub(hint), eng)
                            except Exception:
                                pass
                    is_phi = any(s.startswith("phi(") for s in hint.syms())
                    if lo_ok and hi_ok:
                        n_hint += 1
                        R.obligation("HINT", "%s|hint|%s|%d" % (fn, "phi" if is_phi else repr(hint), n_hint), "discharged", "1 <= %s <= (%s) - len(input)" % (hint, why))
                    elif is_phi:
                        n_phi += 1
                    else:
                        R.violation("HINT", "%s|hint|%s" % (fn, _shape(hint)), "an Incomplete exit reports needed = %s, which is not provably within 1 .. (%s = %s) - len(input): the hint can exceed the number of bytes actually missing (or be 0)" % (hint, why, end), function=fn, file=fl, line=ln)
                else:
                    if whole:
                        continue
                    n_err += 1
                    just = None
                    if any(k == ("tag", "mismatch") for k in st.key):
                        just = "tag mismatch (the bytes are not the storage-header pattern)"
                    elif A is not None and Lname is not None:
                        bits = lib_parse.htyp_bits(st, hsym)
                        H = spec_header_len(bits)
                        if H is not None and st.holds(Lin.const(H - 1).sub(Lin.sym(Lname)), eng):
                            just = "declared length smaller than the headers announced by the header type"
                            if strict_verdict:
                                # verdict order for arbitrary byte strings (C02): a buffer that ends inside the standard
                                # header is 'incomplete' whatever its length field says — the rejection may only be
                                # reached once every standard-header field announced by HTYP is buffered
                                hb = dlt_spec.HTYP_BITS
                                hstd = 4 + 4 * sum(bits.get(hb[x], 1) for x in ("WEID", "WSID", "WTMS"))
                                if st.holds(ilen.sub(A).sub(Lin.const(hstd)), eng):
                                    R.obligation("VERDICT", "%s|reject-after-header|%d" % (fn, n_err), "discharged", "len(input) >= A + %d (the announced standard header is buffered) on this rejecting exit" % hstd)
                                    R.instance("VERDICT", "rejecting exit with the standard header complete")
                                else:
                                    R.violation("VERDICT", fn + "|reject-before-header-complete", "a rejection (%s: length field smaller than the headers) is reachable while the standard header announced by HTYP (%d bytes) is not known to be completely buffered: a buffer ending inside the header must be reported incomplete, whatever its length field says" % (en, hstd), function=fn, file=fl, line=ln)
                    if just:
                        R.obligation("ERR", "%s|hard-error-justified|%d" % (fn, n_err), "discharged", just)
                    else:
                        R.violation("ERR", "%s|hard-error-on-prefix|%s" % (fn, en), "a hard error (%s) is reachable while the declared message is not known to be completely present and no value check that a well-formed message passes (tag mismatch, header-length consistency) explains it: a proper prefix of a valid message can be rejected instead of reported incomplete" % en, function=fn, file=fl, line=ln, partition=repr([k for k in st.key if k[0] in ("sym", "find", "tag", "bit")])[:300])
    return n_hint, n_phi, n_err, n_order


def _shape(lin):
    import re
    return re.sub(r"#\d+", "#", repr(lin))


def check(ctx, strict_verdict=False):
    F, R = ctx.facts, ctx.report
    eng, outs = lib_parse.level1(ctx)
    if eng is None:
        R.violation("ANCHOR", "missing|" + FN, "anchor function %s not found" % FN, kind="ANCHOR-MISSING")
        return
    a = check_exits(ctx, eng, outs, FN, F.body(FN), strict_verdict=strict_verdict)
    e2, outs2 = lib_parse.standalone(ctx, CONSUME)
    c = check_exits(ctx, e2, outs2, CONSUME, F.body(CONSUME), consume=True)
    # a prefix must be *reported*: a panic on the way (overflow in a length computation, an index past the prefix) is
    # neither Incomplete nor an error — the panic-capable sites met by the two analyses above are obligations here too
    from rules import lib_panic
    lib_panic.report(ctx, eng, "PANIC", entry=FN)
    lib_panic.report(ctx, e2, "PANIC", entry=CONSUME)
    field_hints(ctx)
    for nm, (h, p, e, o) in (("dlt_message_intern", a), ("dlt_consume_msg", c)):
        R.instance("HINT", "%s: %d linear/entailed hints within 1..shortfall, %d joined hints not decided" % (nm, h, p))
        R.instance("ERR", "%s: %d hard-error exit partition(s) on incomplete input, each justified by a value check" % (nm, e))
        R.instance("ORDER", "%s: %d Ok exit partition(s) entail the whole declared message is present" % (nm, o))
    if a[1] or c[1]:
        R.not_decided.append("%d Incomplete exits carry a hint joined from several nom primitives (not a linear expression): their bound is trusted to nom" % (a[1] + c[1]))
    R.extra["hint_exits"] = {"decided": a[0] + c[0], "joined_not_decided": a[1] + c[1]}
    # vacuity guards (low on purpose: the number of exit partitions depends on how the parser is factored)
    if a[0] + a[1] < 10:
        R.violation("HINT", "FLOOR|hint", "only %d Incomplete exits were seen (floor 10)" % (a[0] + a[1]), kind="ANCHOR-MISSING")
    if a[3] < 8:
        R.violation("ORDER", "FLOOR|order", "only %d Ok exits were seen (floor 8)" % a[3], kind="ANCHOR-MISSING")


def field_hints(ctx, rule="HINT-F"):
    """Hints of the fixed-size field extraction shared by all ids and strings, decided on the helper's own exits (inside
    the message parser they are joined with other hints at the helper's return): every Incomplete(Size(n)) exit has
    1 <= n <= size - len(s), i.e. never more than the field itself still misses — a necessary condition of the
    message-level bound, since the field may be the last one of the message."""
    from engine.interp import Engine
    F, R = ctx.facts, ctx.report
    FIELD = "parse::dlt_zero_terminated_string_intern"
    b = F.body(FIELD)
    if b is None:
        R.notes.append("%s: %s not found (not decided)" % (rule, FIELD))
        return
    eng = Engine(F)
    eng.key_all = True
    try:
        outs = eng.call_path(FIELD, eng.symbolic_args(b, names=["s", "size"]))
    except Exception as ex:
        R.notes.append("%s: %s could not be analysed (%r) (not decided)" % (rule, FIELD, ex))
        return
    size, slen = Lin.sym("size"), Lin.sym("len(s)")
    n = 0
    for st, rv in outs:
        if not isinstance(rv, Enum):
            continue
        for vi, fs in rv.variants:
            if vi == 0:
                continue
            for ei, en, hint in err_parts(eng, st, fs[0]):
                if en != "Incomplete" or hint in ("unknown", None):
                    continue
                if hint == "?":
                    R.notes.append("%s: a hint of %s is not a linear expression (not decided)" % (rule, FIELD))
                    continue
                n += 1
                if st.holds(hint.sub(Lin.const(1)), eng) and st.holds(size.sub(slen).sub(hint), eng):
                    R.obligation(rule, "%s|needed|%s" % (FIELD, hint), "discharged", "1 <= %s <= size - len(s)" % hint)
                    R.instance(rule, "%s: needed = %s within 1..(size - len(s))" % (FIELD, hint))
                else:
                    R.violation(rule, "%s|needed|%s" % (FIELD, _shape(hint)), "the fixed-size field extraction reports needed = %s, which is not provably within 1 .. size - len(s): when the field is the last one of the message the hint exceeds the bytes actually missing" % hint, function=FIELD, file=b["span"]["f"], line=b["span"]["l"])
