"""C16 — re-serialising any parsed message is stable (DESIGN §4/C16).

Necessary conditions decided (an unstable fixed-width code field breaks C16 without changing any length):

TAB      every code field is a fixed point of decode-then-encode on the decoder's whole image: header-type byte (32 flag
         patterns), message-info byte (25 rows incl. Unknown / Invalid / UserDefined payloads), type-info word (95 accepted
         rows: kind, TYLE, VARI, FIXP, TRAI, SCOD incl. Reserved re-emitted, only format-unused bits cleared), control
         service id (value / from_value).
WIRE     every value shape the parser can construct has the writer layout of that shape with the stored field written
         unchanged (no arithmetic or lossy conversion between the stored value and the writer primitive: floats are
         bit-preserved); headers, NOAR, ids and the payload are written from the message's own fields.
"""
from rules import lib_codes, lib_wire, lib_wirep

LEVEL = "other"


def run(ctx):
    R = ctx.report
    R.explanation = ("TAB: decode-then-encode is the identity on the used bits of every code field for every decoder row (HTYP, MSIN, type info, control id); "
                     "WIRE: writer layouts per shape write the stored fields unchanged from the message's own parts; parser-side header fields and every field of a verbose argument are read from the spec offsets (WIRE-PH, WIRE-PA), so parser and writer agree on the layout shape by shape.")
    R.not_decided = ["idempotence of the string normalisation (NUL cut / UTF-8 prefix): library semantics", "the hypothesis 're-serialisation has the declared length' is a runtime condition",
                     ]
    lib_codes.check_msin(ctx)
    R.floor("TAB-MSIN.row", 25)
    lib_codes.check_msin_compose(ctx)
    lib_codes.check_htyp(ctx)
    R.floor("TAB-HTYP.row", 32)
    lib_codes.check_typeinfo(ctx)
    R.floor("TAB-TI.row", 80)
    lib_codes.check_ctrl_id(ctx)
    lib_wirep.check_all(ctx, "WIRE-PH")
    from rules import lib_wirepa
    lib_wirepa.check(ctx, "WIRE-PA")
    R.floor("WIRE-PA", 20)
    rows = lib_wire.check_writer(ctx, "WIRE-W")
    R.floor("WIRE-W.shape", 40)
    lib_wire.check_payload(ctx, "WIRE-P")
    lib_wire.check_headers(ctx, "WIRE-H")
    lib_wire.check_message(ctx, "WIRE-M")
    R.floor("WIRE-M", 8)
