"""C18 — fixed-point conversion (DESIGN §4/C18): TAB (when Some), PANIC, TERM (shape of the sum)."""
from engine.interp import Engine
from engine.values import Enum, Int, Struct, Top
from rules import lib_panic

LEVEL = "proof"
FN = "dlt::Argument::to_real_value"
INT_VALUES = {"I8", "I16", "I32", "I64", "U8", "U16", "U32", "U64"}
FP_KINDS = {"SignedFixedPoint", "UnsignedFixedPoint"}


def field_index(F, adt, name):
    a = F.adts[adt]
    for i, f in enumerate(a["variants"][0]["fields"]):
        if f["name"] == name:
            return i
    return None


def variant_names(eng, st, v):
    if isinstance(v, Top):
        v = eng.M.force(st, v)
    if isinstance(v, Enum):
        return {eng.T.variant_name(v.ty, vi) for vi, _ in v.variants}, v
    return None, v


def product_term_ok(eng, term, value_variant):
    """term must be ftoi_u64( fmul_f64( itof(value payload), fcvt_32->64(quantization) ) ) in either operand order."""
    if not term or term[0] != "ftoi":
        return False, "result is not a float-to-integer conversion"
    _, ft, fw, iw, isg = term
    if fw != 64 or iw != 64 or isg:
        return False, "conversion is f%d -> %s%d, expected f64 -> u64" % (fw, "i" if isg else "u", iw)
    if ft[0] != "fmul":
        return False, "converted value is not a product (%s)" % ft[0]
    ops = [ft[1], ft[2]]
    has_val = has_q = False
    for o in ops:
        if o[0] == "itof":
            s = o[1].single_sym()
            if s and (".value.%s." % value_variant) in s and not ("trunc" in s):
                has_val = True
        if o[0] == "fcvt" and o[2] == 32 and o[1][0] == "sym" and "quantization" in o[1][1]:
            has_q = True
    if not has_val:
        return False, "physical value operand is not the argument's integer value converted to f64"
    if not has_q:
        return False, "quantization operand is not the f32 quantization widened to f64 (product must be in double precision)"
    return True, "trunc_u64(f64(value) * f64(quantization))"


def run(ctx):
    F, R = ctx.facts, ctx.report
    R.explanation = ("TAB: to_real_value returns Some only on partitions where kind is a fixed-point kind, fixed_point is Some and the value is an 8..64-bit integer (and never None there); "
                     "PANIC over to_real_value/log_v/value_as_f64 with an arbitrary argument; TERM: the result is trunc_u64(f64(value)*f64(quantization)) combined with sext64(offset) by a non-panicking two's-complement addition.")
    R.not_decided = ["IEEE rounding of the product (float semantics not modelled)"]
    b = F.body(FN)
    if b is None:
        R.violation("ANCHOR", "missing|" + FN, "anchor function %s not found" % FN, kind="ANCHOR-MISSING")
        return
    eng = Engine(F)
    eng.key_all = True
    outs = eng.call_path(FN, eng.symbolic_args(b, names=["self"]))
    i_ti, i_fp, i_val = field_index(F, "dlt::Argument", "type_info"), field_index(F, "dlt::Argument", "fixed_point"), field_index(F, "dlt::Argument", "value")
    i_kind = field_index(F, "dlt::TypeInfo", "kind")
    n_some = n_none = 0
    for st, rv in outs:
        obj = st.locs.get("obj:self")
        if isinstance(obj, Top):
            obj = eng.M.force(st, obj)
        if not isinstance(obj, Struct) or not isinstance(rv, Enum):
            R.violation("TAB", FN + "|shape", "cannot read the argument object / result in an exit state", function=FN, kind="UNRECOGNISED-SHAPE")
            continue
        ti = obj.fields[i_ti]
        if isinstance(ti, Top):
            ti = eng.M.force(st, ti)
        kinds, _ = variant_names(eng, st, ti.fields[i_kind]) if isinstance(ti, Struct) else (None, None)
        fps, fpv = variant_names(eng, st, obj.fields[i_fp])
        vals, valv = variant_names(eng, st, obj.fields[i_val])
        all_kinds = {v["name"] for v in F.adts["dlt::TypeInfoKind"]["variants"]}
        all_vals = {v["name"] for v in F.adts["dlt::Value"]["variants"]}
        kinds = kinds or all_kinds
        fps = fps or {"None", "Some"}
        vals = vals or all_vals
        rvars = {eng.T.variant_name(rv.ty, vi) for vi, _ in rv.variants}
        row = {"kind": sorted(kinds), "fixed_point": sorted(fps), "value": sorted(vals), "result": sorted(rvars)}
        R.instance("TAB", "row %s" % row)
        if "Some" in rvars:
            n_some += 1
            bad = []
            if not kinds <= FP_KINDS:
                bad.append("kind may be %s" % sorted(kinds - FP_KINDS))
            if fps != {"Some"}:
                bad.append("fixed_point may be None")
            if not vals <= INT_VALUES:
                bad.append("value may be %s" % sorted(vals - INT_VALUES))
            if bad:
                R.violation("TAB", FN + "|some|" + ";".join(bad), "to_real_value yields a value although %s" % ", ".join(bad), file=b["span"]["f"], line=b["span"]["l"], function=FN, row=row)
            else:
                R.obligation("TAB", FN + "|some-row|%s" % sorted(vals), "discharged", "Some only for fixed-point kind with data and an integer value")
            # TERM
            payload = None
            for vi, fs in rv.variants:
                if eng.T.variant_name(rv.ty, vi) == "Some":
                    payload = fs[0]
            if len(vals) == 1 and isinstance(payload, Int):
                vv = next(iter(vals))
                syms = payload.lin.syms()
                term_ok, why = False, "unrecognised"
                parts = None
                if len(syms) == 1 and payload.lin.single_sym():
                    t = eng.sym_terms.get(syms[0])
                    if t and t[0] == "wrap" and t[1] == "Add":
                        parts = (t[2], t[3])
                    elif t and t[0] == "sat":
                        why = "saturating addition: differs from the stated sum when offset is negative and the product is small"
                elif len(syms) == 2 and all(k == 1 for _, k in payload.lin.t) and payload.lin.c == 0:
                    from engine.lin import Lin
                    parts = (Lin.sym(syms[0]), Lin.sym(syms[1]))
                if parts:
                    prod = off = None
                    for p_ in parts:
                        s = p_.single_sym()
                        t = eng.sym_terms.get(s) if s else None
                        if t and t[0] == "ftoi":
                            prod = t
                        elif t and t[0] == "trunc":
                            off = t
                        elif s and "offset" in s:
                            off = ("exact", s)
                    if prod is None or off is None:
                        why = "sum operands are not (converted product, widened offset)"
                    else:
                        ok1, why1 = product_term_ok(eng, prod, vv)
                        ok2 = off[0] == "exact" or (off[0] == "trunc" and "offset" in repr(off[1]) and off[3] is True and off[4] == 64)
                        term_ok = ok1 and ok2
                        why = why1 if not ok1 else ("offset is not sign-extended to 64 bits" if not ok2 else why1 + " (+) sext64(offset)")
                R.instance("TERM", "%s value=%s: %s" % (FN, vv, why))
                if term_ok:
                    R.obligation("TERM", FN + "|term|" + vv + "|" + "/".join(sorted(fps)), "discharged", why)
                else:
                    R.violation("TERM", FN + "|term|" + vv, "result term for value kind %s is not trunc_u64(f64(value)*f64(quantization)) (+) sext64(offset): %s" % (vv, why), file=b["span"]["f"], line=b["span"]["l"], function=FN, kind=None if "saturating" in why or "not" in why else "UNRECOGNISED-SHAPE")
        if rvars == {"None"}:
            n_none += 1
            # the exit's input set (a product of the variant sets it was narrowed to, possibly under further conditions)
            # must not meet the domain on which a value is owed: fixed-point kind x data present x integer value
            if (kinds & FP_KINDS) and "Some" in fps and (vals & INT_VALUES):
                R.violation("TAB", FN + "|none|" + ",".join(sorted(vals & INT_VALUES)), "to_real_value can yield nothing for a fixed-point argument (kind %s) with data and integer value %s" % (sorted(kinds & FP_KINDS), sorted(vals & INT_VALUES)), file=b["span"]["f"], line=b["span"]["l"], function=FN, row=row)
            else:
                R.obligation("TAB", FN + "|none-row|%d" % n_none, "discharged", "None only outside fixed-point kind x data x integer value")
    R.extra["rows_some"] = n_some
    R.extra["rows_none"] = n_none
    R.floor("TAB", 10)
    R.floor("TERM", 8)
    lib_panic.report(ctx, eng, "PANIC", entry=FN)
    # after the repair there is no panic-capable site left in these functions; non-vacuity = the three bodies were analysed
    for fn in ("dlt::Argument::to_real_value", "dlt::Argument::log_v", "dlt::Argument::value_as_f64"):
        if fn in eng.analysed:
            R.instance("PANIC.scope", fn)
    R.floor("PANIC.scope", 3)
