"""Code tables (C14 / C16): header-type byte, message-info byte, type-info word.

For finite code domains the decoder is analysed fully path-sensitively with per-bit provenance: every Ok exit is a
*row*: a pattern over the input bits (the switch values on its path) and an abstract result whose payloads carry the
provenance of the remaining input bits.  The encoder is then applied *abstractly* to each row's result in the row's
state and its output bits are compared position by position with the input bits:

  identity bit     the output bit is the same input bit, or the constant the row's pattern fixes for it;
  dropped bit      the output bit is a constant although the input bit is free - allowed only for bits the format leaves
                   unused for that kind (type info), never for HTYP / MSIN.

Because every input of the domain falls into exactly one row, "all rows are identities" decides decode-then-encode on
all 2^8 / 2^32 inputs without enumerating them; named rows are compared with the spec code tables.
"""
import re

from engine.interp import Engine
from engine.lin import Lin
from engine.values import Bool, Cont, Enum, Int, Ref, Struct, Top
from rules.spec import dlt_spec

MSIN_DEC = "<dlt::MessageType as std::convert::TryFrom<u8>>::try_from"
MSIN_ENC = "dlt::<impl std::convert::From<&dlt::MessageType> for u8>::from"
TI_DEC = "<dlt::TypeInfo as std::convert::TryFrom<u32>>::try_from"
TI_ENC = "dlt::TypeInfo::as_bytes"
HTYP_ENC = "dlt::StandardHeader::header_type_byte"


def row_bits(st, sym, width):
    """Known input bits of a row: {bit index: 0/1}."""
    return dict(st.bits.get(sym, {}))


def out_bits(eng, st, v, width):
    if not isinstance(v, Int):
        return None
    b = eng.bits_of(st, v)
    if b is None and v.lin.is_const():
        c = v.lin.c
        return tuple((c >> i) & 1 for i in range(width))
    return b


def classify(bits, known, sym, width):
    """Per output bit: 'id' (same input bit / constant fixed by the row), ('drop', c) (constant, input free),
    ('bad', x) anything else."""
    res = []
    for i in range(width):
        x = bits[i] if bits is not None and i < len(bits) else None
        if x == ("b", sym, i):
            res.append("id")
        elif x in (0, 1):
            if i in known:
                res.append("id" if known[i] == x else ("bad", "constant %d but the input bit is %d" % (x, known[i])))
            else:
                res.append(("drop", x))
        else:
            res.append(("bad", x))
    return res


def variant_path(eng, v, depth=0):
    """Names of the nested single variants of a value, e.g. ['Log', 'Fatal']."""
    out = []
    while isinstance(v, Enum) and len(v.variants) == 1 and depth < 4:
        vi, fs = v.variants[0]
        out.append(eng.T.variant_name(v.ty, vi))
        v = fs[0] if fs else None
        depth += 1
    return out


def field_val(st, sym, lo, n):
    """Value of the n-bit field starting at bit lo if all its bits are fixed by the row, else None."""
    d = st.bits.get(sym, {})
    v = 0
    for i in range(n):
        if (lo + i) not in d:
            return None
        v |= d[lo + i] << i
    return v


def check_msin(ctx, rule="TAB-MSIN"):
    F, R = ctx.facts, ctx.report
    for p in (MSIN_DEC, MSIN_ENC):
        if F.body(p) is None:
            R.violation("ANCHOR", "missing|" + p, "anchor function %s not found" % p, kind="ANCHOR-MISSING")
            return
    b = F.body(MSIN_DEC)
    eng = Engine(F)
    eng.key_all = True
    outs = eng.call_path(MSIN_DEC, eng.symbolic_args(b, names=["m"]))
    spec_names = {0: ("Log", {v: k for k, v in dlt_spec.MTIN_LOG.items()}), 1: ("ApplicationTrace", {v: k for k, v in dlt_spec.MTIN_APP_TRACE.items()}),
                  2: ("NetworkTrace", {v: k for k, v in dlt_spec.MTIN_NW_TRACE.items()}), 3: ("Control", {v: k for k, v in dlt_spec.MTIN_CONTROL.items()})}
    n = 0
    for st, rv in outs:
        if not isinstance(rv, Enum):
            continue
        for vi, fs in rv.variants:
            if vi != 0:
                R.violation(rule, MSIN_DEC + "|rejects", "the message-info decoder rejects some byte (pattern %s): every one of the 256 values must decode" % sorted(st.bits.get("m", {}).items()), function=MSIN_DEC, file=b["span"]["f"], line=b["span"]["l"])
                continue
            val = fs[0]
            n += 1
            known = row_bits(st, "m", 8)
            mstp = field_val(st, "m", 1, 3)
            mtin = field_val(st, "m", 4, 4)
            names = variant_path(eng, val)
            row = "MSTP=%s MTIN=%s -> %s" % (mstp, mtin, "::".join(names))
            # named rows equal the spec code tables
            if mstp in spec_names and names:
                tn, subs = spec_names[mstp]
                if names[0] != tn:
                    R.violation(rule, "%s|type|%s" % (MSIN_DEC, mstp), "message type code %d decodes to %s; the DLT layout prescribes %s" % (mstp, names[0], tn), function=MSIN_DEC, file=b["span"]["f"], line=b["span"]["l"])
                elif mtin is not None and mtin in subs and (len(names) < 2 or names[1] != subs[mtin]):
                    R.violation(rule, "%s|subtype|%s|%s" % (MSIN_DEC, tn, mtin), "%s sub-type code %d decodes to %s; the DLT layout prescribes %s" % (tn, mtin, names[1:] or "?", subs[mtin]), function=MSIN_DEC, file=b["span"]["f"], line=b["span"]["l"])
                elif mtin is not None and mtin not in subs and len(names) >= 2 and names[1] in subs.values():
                    R.violation(rule, "%s|subtype|%s|%s" % (MSIN_DEC, tn, mtin), "%s sub-type code %d (not assigned by the format) decodes to the named sub-type %s" % (tn, mtin, names[1]), function=MSIN_DEC, file=b["span"]["f"], line=b["span"]["l"])
            # re-encode abstractly
            s2 = st.fork()
            s2.locs["obj:rt"] = val
            r = eng.call_path(MSIN_ENC, [Ref("obj:rt", (), False)], st=s2)
            if len(r) != 1:
                R.violation(rule, "%s|encode|%s" % (MSIN_ENC, "::".join(names)), "cannot evaluate the encoder on the decoder's result for row [%s] (%d outcomes)" % (row, len(r)), function=MSIN_ENC, kind="UNRECOGNISED-SHAPE")
                continue
            es, ev = r[0]
            cl = classify(out_bits(eng, es, ev, 8), known, "m", 8)
            # bit 0 is the verbose flag, not part of the message type: the encoder must leave it 0
            bad = [(i, c) for i, c in enumerate(cl) if i >= 1 and c != "id"]
            b0 = out_bits(eng, es, ev, 8)
            if b0 is None or b0[0] != 0:
                bad.append((0, ("bad", "bit 0 must be 0 (verbose flag is OR-ed in separately)")))
            if bad:
                i, c = bad[0]
                R.violation(rule, "%s|roundtrip|%s|bit%d" % (MSIN_ENC, "::".join(names), i), "message-info byte does not survive decode-then-encode for [%s]: output bit %d is %s" % (row, i, c if isinstance(c, str) else "%s %s" % c), function=MSIN_ENC, file=F.body(MSIN_ENC)["span"]["f"], line=F.body(MSIN_ENC)["span"]["l"], row=row)
            else:
                R.obligation(rule, "%s|row|%s" % (MSIN_DEC, row), "discharged", "decodes to the spec variant; re-encoding reproduces bits 1..7")
    R.instance(rule, "%d rows of the message-info decoder (patterns over MSTP bits 1-3 and MTIN bits 4-7), each re-encoded abstractly" % n)
    for _ in range(n):
        R.instance(rule + ".row", "row")


def check_htyp(ctx, rule="TAB-HTYP"):
    """encode(decode(b)) = b for the header-type byte: the decoder table is the set of Ok exits of dlt_standard_header
    (checked field by field against the spec in WIRE-PH); the encoder is applied abstractly to each decoded header."""
    F, R = ctx.facts, ctx.report
    from rules import lib_parse, lib_wirep
    if F.body(HTYP_ENC) is None or F.body(lib_wirep.STD) is None:
        R.violation("ANCHOR", "missing|" + HTYP_ENC, "anchor function %s not found" % HTYP_ENC, kind="ANCHOR-MISSING")
        return
    eng, outs = lib_parse.standalone(ctx, lib_wirep.STD)
    H = "rd[input@0:1:1]"
    n = 0
    for st, rest, hdr in lib_wirep.ok_exits(eng, outs):
        known = row_bits(st, H, 8)
        s2 = st.fork()
        s2.locs["obj:rt"] = hdr
        r = eng.call_path(HTYP_ENC, [Ref("obj:rt", (), False)], st=s2)
        if len(r) != 1:
            R.violation(rule, HTYP_ENC + "|encode", "cannot evaluate header_type_byte on a parsed header (%d outcomes)" % len(r), function=HTYP_ENC, kind="UNRECOGNISED-SHAPE")
            continue
        es, ev = r[0]
        cl = classify(out_bits(eng, es, ev, 8), known, H, 8)
        n += 1
        bad = [(i, c) for i, c in enumerate(cl) if c != "id"]
        part = "".join(str(known.get(i, "?")) for i in range(5))
        if bad:
            i, c = bad[0]
            R.violation(rule, "%s|roundtrip|bit%d" % (HTYP_ENC, i), "header-type byte does not survive parse-then-encode (flags %s): output bit %d is %s" % (part, i, c if isinstance(c, str) else "%s %s" % c), function=HTYP_ENC, file=F.body(HTYP_ENC)["span"]["f"], line=F.body(HTYP_ENC)["span"]["l"])
        else:
            R.obligation(rule, "%s|flags=%s" % (HTYP_ENC, part), "discharged", "all 8 bits reproduced")
    R.instance(rule, "%d flag patterns of the header-type byte re-encoded abstractly" % n)
    for _ in range(n):
        R.instance(rule + ".row", "row")


UNUSED_OK = {
    # bits the format leaves unused for the kind (may be cleared by re-encoding): TYLE for kinds without a width,
    # ARAY / STRU (unsupported, must be 0 to be accepted / ignored), bits 18..31 reserved
    "Bool": set(range(0, 4)) | {12},
    "StringType": set(range(0, 4)) | {12},
    "Raw": set(range(0, 4)) | {12},
    "Float": {12},  # FIXP is only meaningful together with SINT / UINT
}
ALWAYS_UNUSED = {14} | set(range(18, 32))
KIND_BITS = {"Bool": 4, "Signed": 5, "SignedFixedPoint": 5, "Unsigned": 6, "UnsignedFixedPoint": 6, "Float": 7, "StringType": 9, "Raw": 10}
TYLE_OK = {"Signed": {1, 2, 3, 4, 5}, "Unsigned": {1, 2, 3, 4, 5}, "Float": {3, 4}, "SignedFixedPoint": {3, 4}, "UnsignedFixedPoint": {3, 4}}


def check_typeinfo(ctx, rule="TAB-TI"):
    F, R = ctx.facts, ctx.report
    for p in (TI_DEC, TI_ENC):
        if F.body(p) is None:
            R.violation("ANCHOR", "missing|" + p, "anchor function %s not found" % p, kind="ANCHOR-MISSING")
            return
    b = F.body(TI_DEC)
    fl, ln = b["span"]["f"], b["span"]["l"]
    eng = Engine(F, budget=2000000)
    eng.key_all = True
    outs = eng.call_path(TI_DEC, eng.symbolic_args(b, names=["w"]))
    i_kind, i_cod, i_vari, i_trai = (next(i for i, f in enumerate(F.adts["dlt::TypeInfo"]["variants"][0]["fields"]) if f["name"] == n) for n in ("kind", "coding", "has_variable_info", "has_trace_info"))
    n = 0
    accept = {}
    for st, rv in outs:
        if not isinstance(rv, Enum):
            continue
        for vi, fs in rv.variants:
            if vi != 0:
                continue
            val = fs[0]
            if isinstance(val, Top):
                val = eng.M.force(st, val)
            known = row_bits(st, "w", 32)
            kind = variant_path(eng, val.fields[i_kind])
            kname = kind[0] if kind else "?"
            kf = field_val(st, "w", 4, 7)
            tyle = field_val(st, "w", 0, 4)
            fixp = known.get(12)
            n += 1
            accept.setdefault(kname, set()).add((kf, fixp, tyle))
            row = "kind-field=%s FIXP=%s TYLE=%s -> %s" % (bin(kf) if kf is not None else None, fixp, tyle, "::".join(kind))
            # accept set: exactly one supported kind bit, supported width
            want_kf = 1 << (KIND_BITS.get(kname, 0) - 4) if kname in KIND_BITS else None
            if kf != want_kf:
                R.violation(rule, "%s|accept|%s" % (TI_DEC, kname), "type-info words with kind field %s are decoded as %s; the format names %s by bit %s alone" % (bin(kf) if kf is not None else "unconstrained", kname, kname, KIND_BITS.get(kname)), function=TI_DEC, file=fl, line=ln)
                continue
            if kname in TYLE_OK:
                if tyle is None or tyle not in TYLE_OK[kname]:
                    R.violation(rule, "%s|width|%s|%s" % (TI_DEC, kname, tyle), "a %s type info with TYLE=%s is accepted; supported widths are %s" % (kname, tyle, sorted(TYLE_OK[kname])), function=TI_DEC, file=fl, line=ln)
                    continue
                if ("FixedPoint" in kname) != bool(fixp):
                    R.violation(rule, "%s|fixp|%s" % (TI_DEC, kname), "kind %s decoded with FIXP bit = %s" % (kname, fixp), function=TI_DEC, file=fl, line=ln)
                    continue
            # reserved bits: no row of the decoder may be selected by a bit the format leaves unused for every kind
            rsv = sorted(i for i in known if i in ALWAYS_UNUSED)
            if rsv:
                R.violation(rule, "%s|reserved|%s" % (TI_DEC, kname), "the decoded value of a %s type info depends on reserved bit(s) %s of the word (the format ignores bits 14 and 18..31): words an ECU emits with such a bit set are decoded differently [%s]" % (kname, rsv, row), function=TI_DEC, file=fl, line=ln)
            # field provenance: VARI bit 11, TRAI bit 13, SCOD bits 15..17
            for fname, idx, bit in (("has_variable_info", i_vari, 11), ("has_trace_info", i_trai, 13)):
                fv = val.fields[idx]
                c = eng.simplify_cond(st, fv.cond) if isinstance(fv, Bool) else None
                ok = c == ("bit", "w", bit, True) or (bit in known and c == ("const", bool(known[bit])))
                if not ok:
                    R.violation(rule, "%s|field|%s" % (TI_DEC, fname), "%s of the decoded type info is %s; the format puts it in bit %d" % (fname, c, bit), function=TI_DEC, file=fl, line=ln)
            # re-encode
            s2 = st.fork()
            s2.locs["obj:rt"] = val
            r = eng.call_path(TI_ENC, [Ref("obj:rt", (), False)], st=s2)
            words = []
            for es, ev in r:
                if isinstance(ev, Cont) and ev.segs and len(ev.segs) == 1 and ev.segs[0][0] == "num" and ev.segs[0][1] == 4:
                    words.append((es, ev.segs[0][3], ev.segs[0][2]))
            if len(words) != len(r) or not words:
                R.violation(rule, "%s|encode|%s" % (TI_ENC, kname), "cannot read the re-encoded type-info word for row [%s]" % row, function=TI_ENC, kind="UNRECOGNISED-SHAPE")
                continue
            for es, wv, order in words:
                if order != "T":
                    R.violation(rule, "%s|order" % TI_ENC, "type-info word written in order class %s instead of the message byte order" % order, function=TI_ENC)
                cl = classify(out_bits(eng, es, wv, 32), row_bits(es, "w", 32), "w", 32)
                allowed = UNUSED_OK.get(kname, set()) | ALWAYS_UNUSED | {8}
                bad = []
                for i, c in enumerate(cl):
                    if c == "id":
                        continue
                    if isinstance(c, tuple) and c[0] == "drop" and c[1] == 0 and i in allowed:
                        continue
                    bad.append((i, c))
                if bad:
                    i, c = bad[0]
                    R.violation(rule, "%s|roundtrip|%s|bit%d" % (TI_ENC, kname, i), "type-info word of kind %s does not survive decode-then-encode: output bit %d is %s (only bits the format leaves unused for the kind may change) [%s]" % (kname, i, c if isinstance(c, str) else "%s %s" % c, row), function=TI_ENC, file=F.body(TI_ENC)["span"]["f"], line=F.body(TI_ENC)["span"]["l"])
                else:
                    R.obligation(rule, "%s|row|%s|%d" % (TI_DEC, row, n), "discharged", "kind, TYLE, VARI, FIXP, TRAI, SCOD re-emitted at their positions, zero elsewhere")
    R.instance(rule, "%d accepted type-info rows (kind field x FIXP x TYLE x SCOD class), each re-encoded abstractly; kinds %s" % (n, sorted(accept)))
    for _ in range(n):
        R.instance(rule + ".row", "row")
    missing = set(KIND_BITS) - set(accept)
    if missing:
        R.violation(rule, "%s|kinds-missing|%s" % (TI_DEC, ",".join(sorted(missing))), "supported kinds never accepted by the decoder: %s" % sorted(missing), function=TI_DEC, file=fl, line=ln)
    for k, want in TYLE_OK.items():
        got = {t for (_, _, t) in accept.get(k, set())}
        if k in accept and got != want:
            R.violation(rule, "%s|widths|%s" % (TI_DEC, k), "kind %s is accepted with TYLE values %s; supported widths are %s" % (k, sorted(x for x in got if x is not None), sorted(want)), function=TI_DEC, file=fl, line=ln)


def check_msin_compose(ctx, rule="TAB-MSIN"):
    """The extended-header writer composes MSIN = u8::from(&message_type) | verbose: bit 0 is the verbose flag,
    bits 1..7 come from the message-type encoder (whose bit 0 is always 0, checked per row above)."""
    F, R = ctx.facts, ctx.report
    from rules import lib_wire
    p = lib_wire.EXT_AS_BYTES
    b = F.body(p)
    if b is None:
        R.violation("ANCHOR", "missing|" + p, "anchor function %s not found" % p, kind="ANCHOR-MISSING")
        return
    eng = Engine(F)
    eng.merge_returns = True

    def on_call(eng_, st, fr, f, args, site):
        if (f["resolved"] or f["path"]) == MSIN_ENC:
            r = eng_.named_int("MT", 8, False)
            st.set_bit("MT", 0, 0)  # every row of the message-type encoder leaves bit 0 clear (checked in check_msin)
            return [(st, r)]
        return None

    eng.on_call = on_call
    eng.keep_key = lambda x, fr: x[0] == "sym" and x[1] == "*self.verbose"
    outs = eng.call_path(p, eng.symbolic_args(b, names=["self"]))
    ok = bool(outs)
    for st, rv in outs:
        good = False
        if isinstance(rv, Cont) and rv.segs and rv.segs[0][0] == "num" and rv.segs[0][1] == 1:
            v = rv.segs[0][3]
            bits = eng.bits_of(st, v) if isinstance(v, Int) else None
            if bits is not None:
                hi = all(bits[i] == ("b", "MT", i) for i in range(1, 8))
                b0 = bits[0]
                # the verbose flag as a bit atom, or - when the code branches on it - the constant of the branch
                known = [k[2] for k in st.key if k[0] == "sym" and k[1] == "*self.verbose"]
                if known:
                    lo = b0 == (1 if known[0] else 0)
                else:
                    lo = b0 is not None and b0 not in (0, 1) and "verbose" in repr(b0)
                good = hi and lo
        ok = ok and good
    if ok:
        R.obligation(rule, p + "|compose", "discharged", "MSIN bits 1..7 from the message-type encoder, bit 0 from the verbose flag")
        R.instance(rule, "extended-header writer: MSIN = message-type code | verbose")
    else:
        R.violation(rule, p + "|compose", "the message-info byte written by the extended-header writer is not (message-type code | verbose flag in bit 0)", function=p, file=b["span"]["f"], line=b["span"]["l"])


def _bit0_is_or_with_verbose(eng, st, v):
    t = eng.sym_terms.get(v.lin.single_sym() or "", None)
    return "verbose" in repr(v.bits[0]) if v.bits else False


def check(ctx):
    from rules import lib_wirep
    R = ctx.report
    check_msin(ctx)
    R.floor("TAB-MSIN.row", 25)
    check_msin_compose(ctx)
    lib_wirep.check_standard(ctx, "WIRE-PH")
    lib_wirep.check_extended(ctx, "WIRE-PH")
    check_htyp(ctx)
    R.floor("TAB-HTYP.row", 32)
    check_typeinfo(ctx)
    R.floor("TAB-TI.row", 80)


CTRL_DEC = "dlt::ControlType::from_value"
CTRL_ENC = "dlt::ControlType::value"


def check_ctrl_id(ctx, rule="TAB-CTRL"):
    """value(from_value(b)) = b for all 256 service-id bytes of a control payload."""
    F, R = ctx.facts, ctx.report
    for p in (CTRL_DEC, CTRL_ENC):
        if F.body(p) is None:
            R.violation("ANCHOR", "missing|" + p, "anchor function %s not found" % p, kind="ANCHOR-MISSING")
            return
    eng = Engine(F)
    eng.key_all = True
    b = F.body(CTRL_DEC)
    outs = eng.call_path(CTRL_DEC, eng.symbolic_args(b, names=["t"]))
    n = 0
    for st, rv in outs:
        n += 1
        s2 = st.fork()
        s2.locs["obj:rt"] = rv
        r = eng.call_path(CTRL_ENC, [Ref("obj:rt", (), False)], st=s2)
        names = variant_path(eng, rv)
        good = len(r) == 1 and isinstance(r[0][1], Int)
        if good:
            es, ev = r[0]
            d = ev.lin.sub(Lin.sym("t"))
            good = (d.is_const() and d.c == 0) or (es.holds(d, eng) and es.holds(d.neg(), eng))
        if good:
            R.obligation(rule, "%s|row|%s" % (CTRL_DEC, "::".join(names)), "discharged", "value(from_value(t)) = t")
        else:
            R.violation(rule, "%s|roundtrip|%s" % (CTRL_ENC, "::".join(names)), "control service id does not survive from_value-then-value for the row %s (re-encoded as %s)" % ("::".join(names), getattr(r[0][1], "lin", r[0][1]) if r else "?"), function=CTRL_ENC, file=F.body(CTRL_ENC)["span"]["f"], line=F.body(CTRL_ENC)["span"]["l"])
    R.instance(rule, "%d rows of ControlType::from_value re-encoded through value()" % n)
    if n < 3:
        R.violation(rule, CTRL_DEC + "|rows", "only %d rows (floor 3)" % n, kind="ANCHOR-MISSING")
