"""C19 — fixed-size NUL-terminated fields (DESIGN §4/C19): CONS, TAB predicate, UTF-8 salvage, HINT, PANIC, CALL."""
from engine import cfg
from engine.interp import Engine
from engine.lin import Lin
from engine.values import Bool, Enum, Int, Slice, Struct, Top
from rules import lib_panic
from rules.common import loc_of

LEVEL = "proof"
FN = "parse::dlt_zero_terminated_string_intern"


def eq(st, eng, a, b):
    d = a.sub(b)
    return st.holds(d, eng) and st.holds(d.neg(), eng)


def run(ctx):
    F, R = ctx.facts, ctx.report
    R.explanation = ("CONS: on every Ok exit the remainder starts exactly `size` bytes after the input and the returned text starts at the input and is the take_while prefix "
                     "(or its valid_up_to prefix); TAB: the predicate is `byte != 0` with bounds (0, size); HINT: every Err exit is Incomplete with 1 <= needed <= size - len; PANIC; CALL: ids use size 4.")
    R.not_decided = ["nom's hint for take_while_m_n (=1, trusted)", "from_utf8's valid_up_to being the longest valid prefix (std contract)"]
    b = F.body(FN)
    if b is None:
        R.violation("ANCHOR", "missing|" + FN, "anchor function %s not found" % FN, kind="ANCHOR-MISSING")
        return
    eng = Engine(F)
    eng.key_all = True
    args = eng.symbolic_args(b, names=["s", "size"])
    outs = eng.call_path(FN, args)
    size = Lin.sym("size")
    slen = Lin.sym("len(s)")
    n_ok = n_err = 0
    for st, rv in outs:
        if not isinstance(rv, Enum):
            R.violation("CONS", FN + "|shape", "exit value is not an IResult", function=FN, kind="UNRECOGNISED-SHAPE")
            continue
        for vi, fs in rv.variants:
            if vi == 0:
                n_ok += 1
                tup = fs[0]
                rest, text = tup.fields
                ok = isinstance(rest, Slice) and rest.base == "s" and eq(st, eng, rest.off, size) and eq(st, eng, rest.len, slen.sub(size))
                R.instance("CONS", "Ok exit: rest = s[%s..] (len %s), text = s[%s..+%s]" % (rest.off, rest.len, getattr(text, "off", "?"), getattr(text, "len", "?")))
                if ok:
                    R.obligation("CONS", FN + "|consumed=size|" + repr(st.key[-2:]), "discharged", "off(rest) - off(s) = size as a linear identity")
                else:
                    R.violation("CONS", FN + "|consumed", "an Ok exit consumes %s bytes instead of exactly `size`" % (rest.off if isinstance(rest, Slice) else "?"), file=b["span"]["f"], line=b["span"]["l"], function=FN)
                # the text: starts at the input, is the take_while content or its valid prefix
                tw = [n for n in st.notes if n[0] == "take_while_m_n"]
                good_text = False
                why = ""
                if isinstance(text, Slice) and text.base == "s" and text.off == Lin.const(0) and len(tw) == 1:
                    _, base, off, c, m, n, pred = tw[0]
                    if text.len == c:
                        good_text, why = True, "whole content before the first NUL"
                    else:
                        s1 = text.len.single_sym()
                        if s1 and s1.startswith("valid_up_to") and st.holds(c.sub(text.len), eng):
                            good_text, why = True, "valid_up_to prefix of the content (<= content length)"
                    # bounds and predicate of the scan
                    if not (m == Lin.const(0) and n == size):
                        R.violation("TAB", FN + "|bounds", "take_while_m_n bounds are (%s, %s), must be (0, size)" % (m, n), function=FN, file=b["span"]["f"], line=b["span"]["l"])
                    else:
                        R.instance("TAB", "scan bounds (0, size)")
                    check_pred(ctx, eng, pred)
                if good_text:
                    R.obligation("CONS", FN + "|text|" + why, "discharged", why)
                else:
                    R.violation("CONS", FN + "|text", "returned text is not the (valid prefix of the) bytes before the first NUL starting at the field start: %r" % (text,), function=FN, file=b["span"]["f"], line=b["span"]["l"])
            else:
                n_err += 1
                ev = fs[0]
                if isinstance(ev, Top):
                    ev = eng.M.force(st, ev)
                names = {eng.T.variant_name(ev.ty, i) for i, _ in ev.variants} if isinstance(ev, Enum) else {"?"}
                R.instance("HINT", "Err exit kinds %s" % sorted(names))
                short = st.holds(size.sub(slen).sub(1), eng)
                if names != {"Incomplete"} or not short:
                    R.violation("HINT", FN + "|errkind|" + ",".join(sorted(names)), "an Err exit is %s%s: with at least `size` bytes available the extraction must succeed, with fewer it must be Incomplete" % (sorted(names), "" if short else " while len(s) >= size is possible"), function=FN, file=b["span"]["f"], line=b["span"]["l"])
                    continue
                for i, efs in ev.variants:
                    nd = efs[0]
                    if isinstance(nd, Enum):
                        for ni, nfs in nd.variants:
                            if eng.T.variant_name(nd.ty, ni) == "Size":
                                nz = nfs[0]
                                val = nz.fields[0] if isinstance(nz, Struct) else None
                                if isinstance(val, Int) and st.holds(val.lin.sub(1), eng) and st.holds(size.sub(slen).sub(val.lin), eng):
                                    R.obligation("HINT", FN + "|needed|" + repr(val.lin), "discharged", "1 <= needed <= size - len(s)")
                                else:
                                    R.violation("HINT", FN + "|needed", "needed hint %s is not within 1..(size - len)" % (val.lin if isinstance(val, Int) else val), function=FN, file=b["span"]["f"], line=b["span"]["l"])
    for _ in range(n_ok):
        R.instance("CONS.ok", "ok exit")
    R.floor("CONS.ok", 2)
    R.floor("HINT", 2)
    # from_utf8_unchecked only on a prefix whose validity was established
    unchecked = [e for e in eng.events if e[0] == "from_utf8_unchecked"]
    checked = [e for e in eng.events if e[0] == "from_utf8"]
    for e in unchecked:
        ok = any(c[1] == e[1] and c[2] == e[2] for c in checked) and (e[3].single_sym() or "").startswith("valid_up_to")
        R.instance("UNSAFE", "from_utf8_unchecked on %s[%s..+%s]" % (e[1], e[2], e[3]))
        if not ok:
            R.violation("UNSAFE", FN + "|from_utf8_unchecked", "from_utf8_unchecked is applied to bytes that are not the valid_up_to prefix of a slice rejected by from_utf8", function=e[4])
    lib_panic.report(ctx, eng, "PANIC", entry=FN)
    R.floor("PANIC", 2)
    # CALL: the 4-byte ids go through this function with the constant 4
    sites = 0
    for p in ("parse::parse_ecu_id", "parse::dlt_storage_header"):
        bb = F.body(p)
        if bb is None:
            R.violation("CALL", "missing|" + p, "anchor function %s not found" % p, kind="ANCHOR-MISSING")
            continue
        for bi, blk in enumerate(bb["blocks"]):
            f = cfg.callee_of(blk["term"])
            if f and f["path"] == FN:
                a = blk["term"]["args"][1]
                k = a.get("k")
                fl, ln = loc_of(blk)
                if k and "int" in k and int(k["int"]) == 4:
                    sites += 1
                    R.instance("CALL", "%s extracts an id with size 4" % p)
                else:
                    R.violation("CALL", p + "|size", "%s extracts an id field with size %s, DLT ids are 4 bytes" % (p, k.get("int") if k else "non-constant"), file=fl, line=ln, function=p)
    passthrough(ctx, "parse::parse_ecu_id")
    refs = 0
    for p in ("parse::dlt_extended_header", "parse::maybe_parse_ecu_id::parse_ecu_id_to_option"):
        bb = F.body(p)
        if bb is None:
            continue
        for (bi, si, o, sp) in cfg.all_operands(bb, False):
            f = cfg.const_fn(o)
            if f and f["path"] == "parse::parse_ecu_id":
                refs += 1
                R.instance("CALL", "%s uses parse_ecu_id" % p)
    R.floor("CALL", 3)
    # ID-FLOW: what the three header parsers store as ids is the extraction's result for the 4 bytes at the layout's
    # offset, present exactly when the layout has the field (a filter / default / fallback between the extraction and the
    # header record would let a message report an id that is not the field's clean prefix)
    from rules import lib_wirep
    lib_wirep.check_standard(ctx, "ID-FLOW", only={"ecu_id"})
    lib_wirep.check_extended(ctx, "ID-FLOW", only={"application_id", "context_id"})
    lib_wirep.check_storage(ctx, "ID-FLOW", only={"ecu_id"})
    R.floor("ID-FLOW", 3)


def passthrough(ctx, p):
    """CALL-S: every exit of the id extractor returns what the generic fixed-size extraction returns for (input, 4) —
    there is no other way to produce an id (a fast path would have to re-implement the first-NUL rule)."""
    from engine.contracts import ret_ty
    F, R = ctx.facts, ctx.report
    b = F.body(p)
    if b is None:
        return
    eng = Engine(F)
    eng.key_all = True
    calls = []

    def on_call(eng_, st, fr, f, args, site):
        if (f.get("resolved") or f["path"]) == FN or f["path"] == FN:
            a0 = repr(args[0])
            size = args[1].lin.c if isinstance(args[1], Int) and args[1].lin.is_const() else None
            calls.append((a0, size))
            st.key = st.key + (("rx", "zts"),)
            return [(st, Top(ret_ty(eng_, site), "zts"))]
        return None

    eng.on_call = on_call
    outs = eng.call_path(p, eng.symbolic_args(b, names=["input"]))
    fl, ln = b["span"]["f"], b["span"]["l"]
    bad = 0
    for st, rv in outs:
        through = any(k[0] == "rx" and k[1] == "zts" for k in st.key)
        ok = through
        if ok and isinstance(rv, Enum):
            for vi, fs in rv.variants:
                vn = eng.T.variant_name(rv.ty, vi)
                for fv in fs:
                    parts = fv.fields if isinstance(fv, Struct) else (fv,)
                    for x in parts:
                        if ("zts.%s.0" % vn) not in repr(x):
                            ok = False
        elif ok and not (isinstance(rv, Top) and rv.name == "zts"):
            ok = False
        if ok:
            R.obligation("CALL-S", "%s|exit|%r" % (p, st.key[-2:]), "discharged", "the exit returns the generic extraction's result unchanged")
        else:
            bad += 1
    if bad:
        R.violation("CALL-S", p + "|passthrough", "%d of %d exits of %s do not return the result of %s(input, 4): an id can be produced by other code than the first-NUL extraction" % (bad, len(outs), p, FN), function=p, file=fl, line=ln)
    elif calls and all(sz == 4 and "input" in a0 for a0, sz in calls):
        R.instance("CALL-S", "%s returns %s(input, 4) on all %d exits" % (p, FN, len(outs)))
    else:
        R.violation("CALL-S", p + "|args", "%s calls the generic extraction with %s instead of (input, 4)" % (p, calls), function=p, file=fl, line=ln)


_pred_done = set()


def check_pred(ctx, eng, pred):
    from engine.values import Fn
    R = ctx.report
    if not isinstance(pred, Fn):
        R.violation("TAB", FN + "|pred", "scan predicate is not a known function", function=FN, kind="UNRECOGNISED-SHAPE")
        return
    for it in pred.items:
        if it in _pred_done:
            continue
        _pred_done.add(it)
        path = it[1]
        body = ctx.facts.body(path)
        if body is None:
            R.violation("TAB", FN + "|pred|" + path, "scan predicate %s has no local body" % path, function=FN, kind="UNRECOGNISED-SHAPE")
            continue
        e2 = Engine(ctx.facts)
        e2.key_all = True
        outs = e2.call_path(path, e2.symbolic_args(body, names=["c"]))
        good = len(outs) == 1 and isinstance(outs[0][1], Bool) and outs[0][1].cond == ("cmp", "Ne", Lin.sym("c"), Lin.const(0))
        R.instance("TAB", "predicate %s(c) = %s" % (path, outs[0][1].cond if outs else None))
        if not good:
            R.violation("TAB", FN + "|pred|" + path, "scan predicate %s is not `byte != 0`: %r" % (path, outs[0][1] if outs else None), function=path, file=body["span"]["f"], line=body["span"]["l"])
