"""Shared analyses of the slice parser (parse.rs) used by C03, C04, C05, C06.

Level 1: `parse::dlt_message_intern` analysed in context from unconstrained arguments with every local
callee inlined except the CUTS, which are treated modularly (weak nom-parser contract at the call site,
verified on the callee's own exits here).  Partitioning: storage mode, find outcome, the flag bits of
the header-type byte and of the message-info byte survive callee returns; everything else is joined at
the callee's return per returned variant shape.
"""
import re

from engine.interp import Budget, Engine
from engine.lin import Lin
from engine.values import Enum, Int, Slice, Struct, Top

INTERN = "parse::dlt_message_intern"
CUTS = ("parse::dlt_argument",)

_cache = {}
# parameter names are fixed by the rules (a rename of a parameter in /repo must not change any verdict)
CANON_NAMES = {
    "parse::dlt_consume_msg": ["input"], "parse::dlt_standard_header": ["input"], "parse::dlt_extended_header": ["input"], "parse::dlt_storage_header": ["input"],
    "parse::forward_to_next_storage_header": ["input"], "parse::dlt_argument": ["input"], "parse::skip_storage_header": ["input"], "parse::dlt_message": ["input", "filter_config_opt", "with_storage_header"],
}


def mk_engine(F, cuts=CUTS, budget=3000000):
    eng = Engine(F, budget=budget)
    eng.merge_returns = True
    eng.cuts = set(cuts)
    eng.keep_key = lambda x, fr: x[0] in ("bit", "find", "tag")
    eng.keyed_events = {"find", "tag"}
    eng.key_adts = {"dlt::TypeInfoKind"}
    eng.key_top_outcomes = True
    return eng


def level1(ctx):
    """(engine, exits) of dlt_message_intern; cached per facts object."""
    F = ctx.facts
    k = ("l1", id(F))
    if k not in _cache:
        eng = mk_engine(F)
        eng.cut_sites = []

        def on_call(eng_, st, fr, f, args, site):
            lp = f["resolved"] or f["path"]
            if lp in eng_.cuts and args and isinstance(args[0], Slice):
                eng_.cut_sites.append((st.holds(Lin.const(65538).sub(args[0].len), eng_), fr.path, repr(args[0].len)))
            return None

        eng.on_call = on_call
        b = F.body(INTERN)
        if b is None:
            _cache[k] = (None, None)
        else:
            outs = eng.call_path(INTERN, eng.symbolic_args(b, names=["input", "filter_config_opt", "with_storage_header"]))
            _cache[k] = (eng, outs)
    return _cache[k]


def standalone(ctx, path, cuts=CUTS, names=None, plain=False):
    F = ctx.facts
    k = ("sa", id(F), path, tuple(cuts), plain)
    if k not in _cache:
        eng = mk_engine(F, cuts=[c for c in cuts if c != path])
        if plain:
            # loop-carrying function: no forced partitioning on argument kinds (joined at the loop head anyway)
            eng = Engine(F, budget=3000000)
            eng.model_lazy_collect = True   # a decode loop written as iter().map(..).collect() is analysed as a loop
            eng.len_bound_all_joins = True
        b = F.body(path)
        if b is None:
            _cache[k] = (None, None)
        else:
            if names is None:
                names = CANON_NAMES.get(path)
            outs = eng.call_path(path, eng.symbolic_args(b, names=names))
            _cache[k] = (eng, outs)
    return _cache[k]


def first_arg_name(F, path):
    if path in CANON_NAMES:
        return CANON_NAMES[path][0]
    b = F.body(path)
    for d in b.get("debug", []):
        if d.get("arg") == 1 and not d["p"]["p"]:
            return d["name"]
    return "arg1"


def check_weak_contract(ctx, path, rule="NOMC"):
    """Guarantee side of the cut: on every Ok exit of the stand-alone analysis of `path` the remainder
    is a suffix of the input (same base, off+len preserved, len not larger)."""
    F, R = ctx.facts, ctx.report
    eng, outs = standalone(ctx, path)
    if eng is None:
        R.violation("ANCHOR", "missing|" + path, "anchor function %s not found" % path, kind="ANCHOR-MISSING")
        return None
    nm = first_arg_name(F, path)
    ilen = Lin.sym("len(%s)" % nm)
    b = F.body(path)
    n = 0
    for st, rv in outs:
        if not isinstance(rv, Enum):
            R.violation(rule, path + "|shape", "exit value of %s is not an IResult" % path, function=path, kind="UNRECOGNISED-SHAPE")
            continue
        for vi, fs in rv.variants:
            if vi != 0:
                continue
            st = ok_state(eng, st, rv)
            if st is None:
                continue
            tup = fs[0]
            if isinstance(tup, Top):
                tup = eng.M.force(st, tup)
            rest = tup.fields[0] if isinstance(tup, Struct) else None
            if isinstance(rest, Top):
                rest = eng.M.force(st, rest)
            n += 1
            ok = isinstance(rest, Slice) and rest.base == nm and st.holds(ilen.sub(rest.len), eng) and _eq(st, eng, rest.off.add(rest.len), ilen)
            if ok:
                R.obligation(rule, "%s|suffix|%d" % (path, n), "discharged", "Ok remainder is input[%s..] (a suffix of the input)" % rest.off)
            else:
                R.violation(rule, path + "|suffix", "an Ok exit of %s returns a remainder that is not provably a suffix of its input (%r): callers rely on this parser contract" % (path, rest), function=path, file=b["span"]["f"], line=b["span"]["l"])
    R.instance(rule, "%s: %d Ok exit(s) return a suffix of the input" % (path, n))
    return eng


def ok_state(eng, st, rv, variant=0):
    """The exit state restricted to the given variant of the returned enum (facts guarded by that variant become facts)."""
    from engine.state import Dead
    ns = st.fork()
    try:
        eng.M.refine_enum(ns, rv, {variant})
    except Dead:
        return None
    return ns


def _eq(st, eng, a, b):
    d = a.sub(b)
    return st.holds(d, eng) and st.holds(d.neg(), eng)


def key_flag(st, name):
    for k in st.key:
        if k[0] == "sym" and k[1] == name:
            return k[2]
    return None


def header_layout(eng, st):
    """(A, L, htyp_sym): A = offset of the standard header in `input` = offset of the byte whose flag bits were
    tested first on this path, L = symbol of the big-endian u16 read at A+2 (None if no such read happened),
    htyp_sym = symbol of the byte at A."""
    H = None
    for k in st.key:
        if k[0] == "bit" and k[1] in eng.rd_syms:
            H = k[1]
            break
    if H is None:
        return None, None, None
    base, A, w, oc = eng.rd_syms[H]
    if base != "input" or w != 1:
        return None, None, None
    L = None
    want = A.add(Lin.const(2))
    for name, (b2, off, w2, oc2) in eng.rd_syms.items():
        if b2 == "input" and w2 == 2 and oc2 == "BE" and off == want:
            L = name
    return A, L, H


def htyp_bits(st, hsym):
    bits = {}
    for k in st.key:
        if k[0] == "bit" and k[1] == hsym:
            bits[k[2]] = k[3]
    return bits
