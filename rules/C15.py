"""C15 — computed lengths equal serialised lengths; built messages are self-consistent (DESIGN §4/C15).

WIRE-L   Argument::len() = number of bytes Argument::as_bytes::<T>() emits, as a linear identity per well-formed shape
         (T abstract: both byte orders).
WIRE-W   the writer layout itself equals the spec layout per shape (shared with C01/C02).
TAB-N    Message::new: payload_length = length of the payload serialised in the order selected by conf.endianness;
         has_extended_header <=> an extended header is built; verbose flag and argument count per payload kind equal what
         the parser requires to produce that kind (verbose for Verbose and NetworkTrace, NOAR = number of arguments / slices).
LEN      byte_len() = overall_length() = payload_length + 4 + 4*[ecu] + 4*[session] + 4*[timestamp] + 10*[extended].
STORAGE  add_storage_header: timestamp <- argument (or from_ms(now)), ECU id <- header.ecu_id or the constant "ECU",
         every other field unchanged.
VALID    Argument::valid() is false for Bool / Float32 / Float64 kinds carrying a value of another variant.
"""
import os
from engine.interp import Engine
from engine.lin import Lin
from engine.values import Bool, Cont, Enum, Int, Ref, Slice, Struct, Top
from rules import lib_panic, lib_wire

LEVEL = "other"
NEW = "dlt::Message::new"
BYTE_LEN = "dlt::Message::byte_len"
OVERALL = "dlt::StandardHeader::overall_length"
ADD_SH = "dlt::Message::add_storage_header"
VALID = "dlt::Argument::valid"
VERBOSE_KINDS = {"Verbose", "NetworkTrace"}


def fidx(F, adt, name):
    for i, f in enumerate(F.adts[adt]["variants"][0]["fields"]):
        if f["name"] == name:
            return i
    return None


def run(ctx):
    F, R = ctx.facts, ctx.report
    R.explanation = ("WIRE-L: len() equals the emitted byte count per well-formed shape; WIRE-H: the header writers emit the layouts byte_len()/add_storage_header count on (fixed 4-byte ids, NUL padded by bytes); TAB-N: Message::new records the serialised payload length, the extended-header flag, and the verbose flag / "
                     "argument count its payload kind requires; LEN: byte_len = payload_length + header lengths by flag; STORAGE: add_storage_header only sets the storage header from the argument and the header ECU id (default 'ECU'); "
                     "VALID: the validity table for Bool / Float kinds; TAB: message-info, header-type and control-id code tables decode and re-encode consistently (shared with C14 / C16).")
    R.not_decided = ["'parses back to an equal message' beyond the structural conditions (layouts vs spec: WIRE, parser-side consumption: C04)", "the current time used by add_storage_header(None)"]
    for p in (NEW, BYTE_LEN, OVERALL, ADD_SH, VALID, lib_wire.ARG_AS_BYTES, lib_wire.ARG_LEN):
        if F.body(p) is None:
            R.violation("ANCHOR", "missing|" + p, "anchor function %s not found" % p, kind="ANCHOR-MISSING")
            return
    rows = lib_wire.check_writer(ctx, "WIRE-W")
    lib_wire.check_len(ctx, rows, "WIRE-L")
    R.floor("WIRE-W.shape", 40)
    R.floor("WIRE-L.pair", 40)
    # byte_len() counts the header lengths by flag (LEN); it equals the serialisation only if the header writers emit exactly
    # those lengths (16-byte storage header, 4 + optional fields, 10-byte extended header; ids padded to 4 bytes)
    lib_wire.check_headers(ctx, "WIRE-H")
    R.floor("WIRE-H", 11)
    # a built message parses back to an equal one only if every code field it carries survives encode-then-decode
    from rules import lib_codes
    lib_codes.check_msin(ctx)
    lib_codes.check_msin_compose(ctx)
    lib_codes.check_htyp(ctx)
    lib_codes.check_ctrl_id(ctx)
    tab_n(ctx)
    overall_len(ctx)
    storage(ctx)
    valid(ctx)


def tab_n(ctx):
    F, R = ctx.facts, ctx.report
    eng = Engine(F, budget=3000000)
    eng.merge_returns = True
    eng.len_max = 65534
    eng.key_adts = {"dlt::PayloadContent", "dlt::Endianness"}
    eng.keep_key = lambda x, fr: x[0] == "variant" and x[1] in ("conf.payload", "conf.endianness", "conf.extended_header_info")
    eng.partition_filter = lambda fr, b, kind, detail: (detail if isinstance(detail, str) else "") in ("conf.payload", "conf.endianness", "conf.extended_header_info") or fr.depth > 0

    def on_call(eng_, st, fr, f, args, site):
        lp = f["resolved"] or f["path"]
        if lp == lib_wire.PAYLOAD_AS_BYTES:
            from engine.contracts import ret_ty
            from engine.contracts_coll import new_cont
            order = eng_.T.t(f["args"][0]).get("path", "?").split("::")[-1] if f["args"] and isinstance(f["args"][0], int) else "?"
            ln = eng_.named_int("len(payload_bytes<%s>)" % order, 64, False, 0, 65534)
            return [(st, new_cont(eng_, "vec", ln.lin, None, (("sub", "payload", order),), ret_ty(eng_, site), hint="pb"))]
        return None

    eng.on_call = on_call
    b = F.body(NEW)
    outs = eng.call_path(NEW, eng.symbolic_args(b, names=["conf", "storage_header"]))
    fl, ln = b["span"]["f"], b["span"]["l"]
    i_hdr, i_ext, i_pl = fidx(F, "dlt::Message", "header"), fidx(F, "dlt::Message", "extended_header"), fidx(F, "dlt::Message", "payload")
    i_plen, i_hasext = fidx(F, "dlt::StandardHeader", "payload_length"), fidx(F, "dlt::StandardHeader", "has_extended_header")
    i_verb, i_cnt = fidx(F, "dlt::ExtendedHeader", "verbose"), fidx(F, "dlt::ExtendedHeader", "argument_count")
    n = 0
    kinds_seen = set()
    for st, rv in outs:
        kd = lib_wire.key_dict(st)
        en, ext = kd.get("conf.endianness"), kd.get("conf.extended_header_info")
        kinds = set((kd.get("conf.payload") or "Verbose|NonVerbose|ControlMsg|NetworkTrace").split("|"))
        if not isinstance(rv, Struct) or en is None or ext is None:
            R.violation("TAB-N", NEW + "|shape", "Message::new exit is not a Message value partitioned on endianness / extended header info", function=NEW, kind="UNRECOGNISED-SHAPE")
            continue
        hdr = rv.fields[i_hdr]
        if isinstance(hdr, Top):
            hdr = eng.M.force(st, hdr)
        n += 1
        part = "endianness=%s ext=%s payload=%s" % (en, ext, "|".join(sorted(kinds)))
        # payload_length
        want = Lin.sym("len(payload_bytes<%s>)" % ("BigEndian" if en == "Big" else "LittleEndian"))
        pl = hdr.fields[i_plen]
        if isinstance(pl, Int) and pl.lin == want:
            R.obligation("TAB-N", "%s|payload_length|%s" % (NEW, part), "discharged", "payload_length = %s (exact cast)" % want)
        else:
            R.violation("TAB-N", "%s|payload_length|endianness=%s" % (NEW, en), "Message::new records payload_length = %s; the payload serialised in the configured byte order has %s bytes [%s]" % (getattr(pl, "lin", pl), want, part), function=NEW, file=fl, line=ln)
        # has_extended_header <=> extended header built
        he = hdr.fields[i_hasext]
        hv = eng.simplify_cond(st, he.cond) if isinstance(he, Bool) else None
        if hv and hv[0] == "isvar":
            # `conf.extended_header_info.is_some()`: a test of that field's discriminant against Some
            i_info = fidx(F, "dlt::MessageConfig", "extended_header_info")
            if hv[2] == (("f", i_info),) and hv[3] == 1 and hv[1][1] == 1:
                hv = ("const", (ext == "Some") == bool(hv[4]))
        eh = rv.fields[i_ext]
        ehv = {eng.T.variant_name(eh.ty, v) for v, _ in eh.variants} if isinstance(eh, Enum) else {"?"}
        if hv == ("const", ext == "Some") and ehv == {ext}:
            R.obligation("TAB-N", "%s|has_extended_header|%s" % (NEW, part), "discharged", "flag and extended header both follow extended_header_info")
        else:
            R.violation("TAB-N", "%s|has_extended_header|ext=%s" % (NEW, ext), "has_extended_header = %s and extended_header in %s although extended_header_info is %s" % (hv, sorted(ehv), ext), function=NEW, file=fl, line=ln)
        if ext != "Some":
            continue
        e = eh.variants[0][1][0]
        if isinstance(e, Top):
            e = eng.M.force(st, e)
        vb = e.fields[i_verb]
        vv = eng.simplify_cond(st, vb.cond) if isinstance(vb, Bool) else None
        cnt = e.fields[i_cnt]
        for k in sorted(kinds):
            kinds_seen.add(k)
            need = k in VERBOSE_KINDS
            if vv == ("const", need):
                R.obligation("TAB-N", "%s|verbose|%s|%s" % (NEW, k, en), "discharged", "verbose = %s for a %s payload" % (need, k))
            else:
                R.violation("TAB-N", "%s|verbose|%s" % (NEW, k), "Message::new sets verbose = %s for a %s payload; the parser yields a %s payload only from a message whose verbose flag is %s, so the built message does not parse back" % (vv[1] if vv and vv[0] == "const" else vv, k, k, need), function=NEW, file=fl, line=ln)
            if need:
                src = "len(conf.payload.%s.0)" % k
                ok = isinstance(cnt, Int) and (src in cnt.lin.syms() or (cnt.bits and any(isinstance(x, tuple) and len(x) > 1 and x[1] == src for x in cnt.bits)))
                if ok:
                    R.obligation("TAB-N", "%s|argument_count|%s|%s" % (NEW, k, en), "discharged", "argument_count derived from %s" % src)
                else:
                    R.violation("TAB-N", "%s|argument_count|%s" % (NEW, k), "Message::new sets argument_count = %s for a %s payload; the parser needs the number of %s (%s) there" % (getattr(cnt, "lin", cnt), k, "arguments" if k == "Verbose" else "slices", src), function=NEW, file=fl, line=ln)
    R.instance("TAB-N", "%d exit partitions of Message::new; payload kinds covered %s" % (n, sorted(kinds_seen)))
    if kinds_seen != {"Verbose", "NonVerbose", "ControlMsg", "NetworkTrace"}:
        R.violation("TAB-N", NEW + "|kinds", "payload kinds covered by the constructor table: %s" % sorted(kinds_seen), function=NEW, kind="UNRECOGNISED-SHAPE")


def overall_len(ctx):
    """overall_length() on a header of each of the 16 presence patterns (the rule constructs the input of each shape,
    so the verdict does not depend on how the function branches)."""
    import itertools
    from engine.state import State
    F, R = ctx.facts, ctx.report
    b = F.body(OVERALL)
    n = 0
    for ecu, sid, ts, ext in itertools.product(("Some", "None"), ("Some", "None"), ("Some", "None"), (True, False)):
        eng = Engine(F)
        eng.merge_returns = True
        st = State()
        args = eng.symbolic_args(b, names=["self"])
        a0 = eng.M.force(st, args[0])
        ok = isinstance(a0, Ref) and lib_wire.restrict(eng, st, a0.loc, ["ecu_id"], ecu) and lib_wire.restrict(eng, st, a0.loc, ["session_id"], sid) and lib_wire.restrict(eng, st, a0.loc, ["timestamp"], ts) and lib_wire.restrict(eng, st, a0.loc, ["has_extended_header"], ext)
        if not ok:
            R.violation("LEN", OVERALL + "|shape", "cannot construct a StandardHeader input of a given presence pattern", function=OVERALL, kind="UNRECOGNISED-SHAPE")
            return
        outs = eng.call_path(OVERALL, [a0], st=st)
        hl = 4 + (4 if ecu == "Some" else 0) + (4 if sid == "Some" else 0) + (4 if ts == "Some" else 0) + (10 if ext else 0)
        want = Lin.sym("*self.payload_length").add(Lin.const(hl))
        pat = "ecu=%s sid=%s ts=%s ext=%s" % (ecu, sid, ts, ext)
        vals = {repr(rv.lin) if isinstance(rv, Int) else "?" for _, rv in outs}
        n += 1
        if outs and all(isinstance(rv, Int) and (rv.lin == want or (s2.holds(rv.lin.sub(want), eng) and s2.holds(want.sub(rv.lin), eng))) for s2, rv in outs):
            R.obligation("LEN", "%s|%s" % (OVERALL, pat), "discharged", "overall_length = %s" % want)
        else:
            R.violation("LEN", "%s|value|%s" % (OVERALL, pat.replace(" ", ",")), "overall_length() = %s for a header with %s; the header lengths give %s" % (sorted(vals), pat, want), function=OVERALL, file=b["span"]["f"], line=b["span"]["l"])
    R.instance("LEN", "%d presence patterns of overall_length()" % n)
    # byte_len forwards to header.overall_length()
    seen = []
    e2 = Engine(F)

    def on_call(eng_, st, fr, f, args, site):
        if (f["resolved"] or f["path"]) == OVERALL:
            seen.append(args[0])
            return [(st, eng_.named_int("LEN(self.header)", 16, False))]
        return None

    e2.on_call = on_call
    outs = e2.call_path(BYTE_LEN, e2.symbolic_args(F.body(BYTE_LEN), names=["self"]))
    i_hdr = fidx(F, "dlt::Message", "header")
    ok = len(outs) == 1 and isinstance(outs[0][1], Int) and outs[0][1].lin == Lin.sym("LEN(self.header)") and len(seen) == 1 and isinstance(seen[0], Ref) and seen[0].loc == "obj:self" and seen[0].path == (("f", i_hdr),)
    if ok:
        R.obligation("LEN", BYTE_LEN + "|forwards", "discharged", "byte_len() = self.header.overall_length()")
        R.instance("LEN", "byte_len() = self.header.overall_length()")
    else:
        R.violation("LEN", BYTE_LEN + "|forwards", "byte_len() is not header.overall_length() of the message's own header", function=BYTE_LEN)


def _same_as_arg(v, name, fields=None):
    """v is the argument `name` itself: the symbolic value, or a struct whose every field is the same field of it
    (a field-by-field copy); a value merely *computed from* the argument (arithmetic, a constructor call) is not."""
    if isinstance(v, Top):
        return v.name == name
    if isinstance(v, Struct):
        return fields is not None and len(fields) == len(v.fields) and all(isinstance(f, Top) and f.name == "%s.%s" % (name, fields[i]) for i, f in enumerate(v.fields))
    return False


def storage(ctx):
    F, R = ctx.facts, ctx.report
    eng = Engine(F)
    eng.merge_returns = True
    eng.key_adts = set()
    eng.keep_key = lambda x, fr: x[0] == "variant" and x[1] in ("time_stamp", "self.header.ecu_id")
    b = F.body(ADD_SH)
    outs = eng.call_path(ADD_SH, eng.symbolic_args(b, names=["self", "time_stamp"]))
    i_sh, i_hdr, i_ext, i_pl = (fidx(F, "dlt::Message", n) for n in ("storage_header", "header", "extended_header", "payload"))
    i_ts, i_ecu = fidx(F, "dlt::StorageHeader", "timestamp"), fidx(F, "dlt::StorageHeader", "ecu_id")
    ts_fields = {fidx(F, "dlt::DltTimeStamp", nm): nm for nm in ("seconds", "microseconds")}
    n = 0
    for st, rv in outs:
        kd = lib_wire.key_dict(st)
        if not isinstance(rv, Struct):
            R.violation("STORAGE", ADD_SH + "|shape", "add_storage_header exit is not a Message", function=ADD_SH, kind="UNRECOGNISED-SHAPE")
            continue
        n += 1
        sh = rv.fields[i_sh]
        names = {eng.T.variant_name(sh.ty, v) for v, _ in sh.variants} if isinstance(sh, Enum) else set()
        bad = []
        if names != {"Some"}:
            bad.append("storage_header may be %s" % sorted(names))
        else:
            s = sh.variants[0][1][0]
            if isinstance(s, Top):
                s = eng.M.force(st, s)
            ts = s.fields[i_ts]
            tsk = kd.get("time_stamp")
            if tsk == "Some":
                if not _same_as_arg(ts, "time_stamp.Some.0", ts_fields):
                    bad.append("timestamp is not the one passed in (%r)" % (ts,))
            ecu = s.fields[i_ecu]
            ek = kd.get("self.header.ecu_id")
            rep = repr(ecu)
            if ek == "Some" and "self.header.ecu_id.Some.0" not in rep:
                bad.append("ECU id is not a copy of header.ecu_id (%s)" % rep[:120])
            if ek == "None" and "dlt::DEFAULT_ECU_ID" not in rep and "const:" not in rep:
                bad.append("ECU id is not the default constant when the header has none (%s)" % rep[:120])
        # other fields unchanged: same symbolic values as the argument's
        for nm, i in (("header", i_hdr), ("extended_header", i_ext), ("payload", i_pl)):
            v = rv.fields[i]
            if not (isinstance(v, Top) and v.name == "self." + nm) and ("self.%s" % nm) not in repr(v)[:400]:
                bad.append("field %s is not carried over unchanged" % nm)
        if bad:
            R.violation("STORAGE", "%s|%s" % (ADD_SH, ";".join(x.split(" (")[0] for x in bad)), "add_storage_header: " + "; ".join(bad), function=ADD_SH, file=b["span"]["f"], line=b["span"]["l"])
        else:
            R.obligation("STORAGE", "%s|%s" % (ADD_SH, sorted(kd.items())), "discharged", "storage header = (timestamp arg | from_ms(now), header ECU id | default); other fields unchanged")
    R.instance("STORAGE", "%d exit partitions of add_storage_header" % n)
    c = F.consts.get("dlt::DEFAULT_ECU_ID")
    if c is None or bytes(c.get("bytes") or c.get("str", "").encode() if isinstance(c.get("str"), str) else c.get("bytes") or b"") not in (b"ECU",):
        val = c and (c.get("bytes") or c.get("str"))
        if val is not None and (val == "ECU" or bytes(val) == b"ECU" if not isinstance(val, str) else val == "ECU"):
            R.instance("STORAGE", "DEFAULT_ECU_ID = 'ECU'")
        else:
            R.violation("STORAGE", "const|DEFAULT_ECU_ID", "DEFAULT_ECU_ID is %r, the default storage-header ECU id is 'ECU'" % (val,), function="dlt::DEFAULT_ECU_ID")
    else:
        R.instance("STORAGE", "DEFAULT_ECU_ID = 'ECU'")
    if n < 2:
        R.violation("STORAGE", "FLOOR|exits", "add_storage_header: %d exits analysed (floor 2)" % n, kind="ANCHOR-MISSING")


def valid(ctx):
    F, R = ctx.facts, ctx.report
    eng = lib_wire.mk_engine(F)
    b = F.body(VALID)
    outs = eng.call_path(VALID, eng.symbolic_args(b, names=["self"]))
    n = 0
    need = {("Bool", None): {"Bool"}, ("Float", "Width32"): {"F32"}, ("Float", "Width64"): {"F64"}}
    covered = set()
    for st, rv in outs:
        kd = lib_wire.key_dict(st)
        kind = kd.get("*self.type_info.kind")
        w = kd.get("*self.type_info.kind.Float.0") if kind == "Float" else None
        vals = set((kd.get("*self.value") or "").split("|")) - {""}
        res = eng.simplify_cond(st, rv.cond) if isinstance(rv, Bool) else None
        key = (kind, w)
        if key in need and vals:
            n += 1
            covered.add(key)
            should = vals <= need[key]
            mixed = bool(vals & need[key]) and not should
            if mixed:
                R.violation("VALID", "%s|partition|%s" % (VALID, kind), "valid() does not distinguish the value variants %s for kind %s" % (sorted(vals), kind), function=VALID, kind="UNRECOGNISED-SHAPE")
            elif res == ("const", should):
                R.obligation("VALID", "%s|%s|%s|%s" % (VALID, kind, w, "|".join(sorted(vals))), "discharged", "valid() = %s" % should)
            else:
                R.violation("VALID", "%s|%s|%s|expects-%s" % (VALID, kind, w, should), "valid() returns %s for an argument typed %s%s carrying a value in %s; it must be %s" % (res[1] if res and res[0] == "const" else res, kind, "(%s)" % w if w else "", sorted(vals)[:4], should), function=VALID, file=b["span"]["f"], line=b["span"]["l"])
    R.instance("VALID", "%d (kind, value) rows of the validity table" % n)
    if covered != set(need):
        R.violation("VALID", VALID + "|rows", "validity table rows covered: %s" % sorted(map(str, covered)), function=VALID, kind="UNRECOGNISED-SHAPE")
