"""C13 — structural rules of construct_arguments beyond PANIC / ORD-1 (DESIGN §4/C13).

LOOP-A   the argument loop is driven by the iterator over the signal types; every header-to-latch path pushes exactly
         one Argument; the only way out of the loop that reaches the Ok return is the iterator's exhaustion (no `break`
         that returns fewer arguments than types); every other exit returns an error.
UTF8     every Value::StringVal constructed here carries the Ok result of String::from_utf8 on the payload bytes
         (a string that is not valid UTF-8 is refused).
ARG      the pushed Argument has name = None, unit = None and its type_info is a clone of the current signal type.
"""
import re

from engine import cfg
from engine.interp import Engine
from engine.values import Cont, Enum, Struct, Top
from rules import lib_loop
from rules.common import loc_of

FN = "parse::construct_arguments"


def first_result_assignment(body, start):
    """Kinds of the first assignment to the return place on the paths from block `start`: subset of
    {'Ok', 'Err', '?', 'ret-without-assignment'} (unreachable blocks contribute nothing)."""
    seen = set()
    work = [start]
    kinds = set()
    while work:
        b = work.pop()
        if b in seen:
            continue
        seen.add(b)
        blk = body["blocks"][b]
        found = None
        for st_ in blk["stmts"]:
            if st_["k"] == "assign" and st_["p"]["l"] == 0 and not st_["p"]["p"]:
                rv = st_["rv"]
                if rv["k"] == "agg" and rv.get("ak") == "adt" and rv.get("adt", "").endswith("result::Result"):
                    found = "Ok" if rv.get("variant") == 0 else "Err"
                else:
                    found = "?"
                break
        t = blk["term"]
        if found is None and t["k"] == "call" and t["dest"]["l"] == 0 and not t["dest"]["p"]:
            f = cfg.callee_of(t)
            found = "Err" if f and f["path"].endswith("from_residual") else "?"
        if found is not None:
            kinds.add(found)
            continue
        if t["k"] == "ret":
            kinds.add("ret-without-assignment")
            continue
        for nx in cfg.term_succs(t):
            work.append(nx)
    return kinds


def worker(F):
    """The function that holds the argument loop: construct_arguments itself, or — when that is a loop-free dispatcher
    whose result is on every path the result of one local function (say, one instantiation per byte order) — that
    function, followed through up to three such forwarding steps."""
    cur = FN
    for _ in range(3):
        b = F.body(cur)
        if b is None or cfg.natural_loops(b):
            return cur
        targets = set()
        for blk in b["blocks"]:
            if blk["cleanup"]:
                continue
            f = cfg.callee_of(blk["term"])
            if f is None:
                continue
            lp = f.get("resolved") if f.get("resolved") in F.bodies else f["path"] if f["path"] in F.bodies else None
            if lp is not None and "{closure" not in lp and not F.body(lp).get("derived"):
                targets.add((lp, blk["term"]["dest"]["l"] == 0 and not blk["term"]["dest"]["p"]))
        if len({t[0] for t in targets}) != 1 or not all(t[1] for t in targets):
            return cur
        cur = next(iter(targets))[0]
    return cur


def check(ctx):
    F, R = ctx.facts, ctx.report
    if F.body(FN) is None:
        R.violation("ANCHOR", "missing|" + FN, "anchor function %s not found" % FN, kind="ANCHOR-MISSING")
        return
    WK = worker(F)
    b = F.body(WK)
    if WK != FN:
        R.instance("LOOP-A", "construct_arguments forwards to %s, which holds the argument loop" % WK)
    fl0, ln0 = b["span"]["f"], b["span"]["l"]
    loops = [lp for lp in cfg.natural_loops(b)]
    # the argument loop: the one whose body calls Iterator::next on the slice iterator over TypeInfo
    arg_loops = []
    for lp in loops:
        for bi in lp["blocks"]:
            f = cfg.callee_of(b["blocks"][bi]["term"])
            if f and f["path"].endswith("Iterator::next") and "TypeInfo" in (F.ty_s(f["self_ty"]) if f.get("self_ty") is not None else ""):
                arg_loops.append((lp, bi))
    if not arg_loops:
        # iterator form: `signal_types.iter().map(|t| ..one argument or an error..).collect::<Result<Vec<_>, _>>()`
        calls = [cfg.callee_of(blk["term"]) for blk in b["blocks"] if not blk["cleanup"] and cfg.callee_of(blk["term"])]
        last = lambda f: re.sub(r"::<[^<>]*>$", "", f["path"]).split("::")[-1]
        names = [last(f) for f in calls]
        src = any(("TypeInfo" in " ".join(F.ty_s(a) for a in f.get("args", []) if isinstance(a, int))) and last(f) in ("iter", "into_iter") for f in calls)
        rt = F.ty_s(b["locals"][0]["ty"])
        deny = {"filter", "filter_map", "flat_map", "flatten", "skip", "skip_while", "take", "take_while", "step_by", "zip", "chain", "dedup", "rev"} & set(names)
        if "map" in names and "collect" in names and src and "Result<" in rt and not deny:
            R.obligation("LOOP-A", FN + "|map-collect", "discharged", "one mapped element per signal type, collected into Result<Vec<_>, _> (stops at the first error)")
            R.instance("LOOP-A", "iterator form: iter().map(..).collect::<Result<Vec<_>, _>>() over the signal types, no dropping adaptor")
            return
    if len(arg_loops) != 1:
        R.violation("LOOP-A", FN + "|loop", "expected exactly one loop over the signal types, found %d" % len(arg_loops), function=FN, kind="UNRECOGNISED-SHAPE")
        return
    lp, next_block = arg_loops[0]
    fl, ln = loc_of(b["blocks"][lp["header"]])
    # exactly one push per iteration
    mm = lib_loop.path_call_counts(b, lp, lambda f: re.search(r"Vec::<.*>::push$", f["path"]) is not None)
    R.instance("LOOP-A", "pushes per iteration: min=%s max=%s" % (mm[0] if mm else None, mm[1] if mm else None))
    if mm is None or mm != (1, 1):
        R.violation("LOOP-A", FN + "|push-count", "an iteration of the argument loop pushes %s..%s arguments (must be exactly one per signal type)" % (mm[0] if mm else "?", mm[1] if mm else "?"), function=FN, file=fl, line=ln)
    else:
        R.obligation("LOOP-A", FN + "|push-count", "discharged", "every header-to-latch path pushes exactly one Argument")
    # exits of the loop
    sc = cfg.succs(b)
    # the exhaustion edge: the switch on the discriminant of the value returned by next()
    nb = b["blocks"][next_block]["term"].get("t")
    exh_targets = set()
    if nb is not None and b["blocks"][nb]["term"]["k"] == "switch":
        for t in cfg.term_succs(b["blocks"][nb]["term"]):
            if t not in lp["blocks"]:
                exh_targets.add(t)
    else:
        # discriminant read then switch in the following block(s)
        cur = nb
        for _ in range(3):
            if cur is None:
                break
            t = b["blocks"][cur]["term"]
            if t["k"] == "switch":
                for x in cfg.term_succs(t):
                    if x not in lp["blocks"]:
                        exh_targets.add(x)
                break
            ss = cfg.term_succs(t)
            cur = ss[0] if len(ss) == 1 else None
    n_err = 0
    for u in sorted(lp["blocks"]):
        if b["blocks"][u]["cleanup"]:
            continue
        for v in sc[u]:
            if v in lp["blocks"] or b["blocks"][v]["cleanup"]:
                continue
            if b["blocks"][v]["term"]["k"] == "unreachable" and not b["blocks"][v]["stmts"]:
                continue  # the impossible arm of an exhaustive match
            kinds = first_result_assignment(b, v)
            if v in exh_targets:
                if kinds == {"Ok"}:
                    R.obligation("LOOP-A", FN + "|exhaustion-exit", "discharged", "iterator exhaustion leads to Ok(arguments)")
                    R.instance("LOOP-A", "exit on iterator exhaustion -> Ok")
                else:
                    R.violation("LOOP-A", FN + "|exhaustion-exit", "after the last signal type the function does not return Ok(arguments) (%s)" % sorted(kinds), function=FN, file=fl, line=ln)
            elif kinds <= {"Err"} and kinds:
                n_err += 1
            else:
                f2, l2 = loc_of(b["blocks"][u])
                R.violation("LOOP-A", FN + "|early-exit|%s" % "+".join(sorted(kinds)), "the argument loop can be left before the signal types are exhausted on a path that does not return an error (reaches %s): fewer arguments than types would be returned" % sorted(kinds), function=FN, file=f2, line=l2)
    R.instance("LOOP-A", "%d error exits of the loop (short data / invalid UTF-8 / decode error)" % n_err)
    if not exh_targets:
        R.violation("LOOP-A", FN + "|exhaustion-edge", "cannot identify the exhaustion edge of the argument loop", function=FN, kind="UNRECOGNISED-SHAPE")
    if n_err < 1:
        # anti-vacuity only: the per-kind guards may sit in a helper the loop calls (their `?` is then one exit here)
        R.violation("LOOP-A", FN + "|error-exits", "no error exit leaves the argument loop (a short payload must be refused)", function=FN, kind="ANCHOR-MISSING")
    # UTF8 + ARG via the engine's aggregate hook (constructions anywhere in the functions the loop reaches count: the
    # per-kind decoding may sit in a private helper)
    reach_fn = {p_ for p_ in ctx.cg.local_reachable([FN]) if F.body(p_) is not None and not F.body(p_)["derived"]}
    eng = Engine(F, budget=3000000)
    strs = []
    args = []

    def on_agg(eng_, st, fr, rv, ops):
        if not (fr.path.startswith(FN) or fr.path.startswith(WK) or fr.path in reach_fn):
            return
        if rv["adt"] == "dlt::Value":
            a = F.adts["dlt::Value"]["variants"][rv["variant"]]["name"]
            if a == "StringVal":
                strs.append(ops[0])
        if rv["adt"] == "dlt::Argument":
            args.append(ops)

    def on_call(eng_, st, fr, f, args, site):
        p = f["path"]
        if (fr.path in (FN, WK) or fr.path in reach_fn) and f.get("name") == "clone" and f.get("self_ty") is not None and eng_.T.t(f["self_ty"]).get("path") == "dlt::TypeInfo":
            from engine.contracts import ret_ty
            from rules.C09 import name_of
            return [(st, Top(ret_ty(eng_, site), "clone(%s)" % name_of(eng_, st, args[0])))]
        return None

    eng.on_agg = on_agg
    eng.on_call = on_call
    eng.call_path(FN, eng.symbolic_args(b))
    if not strs:
        R.violation("UTF8", FN + "|no-string", "no construction of Value::StringVal seen in construct_arguments", function=FN, kind="UNRECOGNISED-SHAPE")
    for v in strs:
        if isinstance(v, Cont) and str(v.id).startswith("utf8("):
            R.obligation("UTF8", FN + "|string-from-utf8", "discharged", "StringVal payload is the Ok result of String::from_utf8")
            R.instance("UTF8", "Value::StringVal(%s)" % v.id)
        else:
            R.violation("UTF8", FN + "|string-not-validated", "a Value::StringVal is built from %s, not from the Ok result of String::from_utf8: invalid UTF-8 in the payload would not be refused" % (repr(v)[:120],), function=FN, file=fl0, line=ln0)
    names = [f["name"] for f in F.adts["dlt::Argument"]["variants"][0]["fields"]]
    i_n, i_u, i_t = names.index("name"), names.index("unit"), names.index("type_info")
    for ops in args:
        bad = []
        for i, nm in ((i_n, "name"), (i_u, "unit")):
            v = ops[i]
            if not (isinstance(v, Enum) and [eng.T.variant_name(v.ty, x) for x, _ in v.variants] == ["None"]):
                bad.append("%s is not None" % nm)
        rep = repr(ops[i_t])
        if "clone(" not in rep or not ("pdu_signal_types" in rep or "it_elem" in rep):
            bad.append("type_info is not a copy of the current signal type (%s)" % rep[:100])
        if bad:
            R.violation("ARG", FN + "|argument|" + ";".join(x.split(" (")[0] for x in bad), "constructed Argument: " + "; ".join(bad), function=FN, file=fl0, line=ln0)
        else:
            R.obligation("ARG", FN + "|argument", "discharged", "name = None, unit = None, type_info cloned from the signal type")
            R.instance("ARG", "Argument { type_info: signal_type.clone(), name: None, unit: None, .. }")
    if not args:
        R.violation("ARG", FN + "|none", "no construction of an Argument seen", function=FN, kind="UNRECOGNISED-SHAPE")


def check_decoders(ctx, rule="DEC-V"):
    """DEC-V: the numeric field decoders reachable from construct_arguments (functions / closures returning
    IResult<&[u8], Value>) return, on every accepting exit, exactly the bytes they were given: `Value::X(rd[i@0:w])` — the
    w-byte number at offset 0 in the message byte order, unsigned / signed / float as X says, every bit pattern as it is
    (NaN and infinities included: no clamping, masking or normalisation between the read and the value) — and the
    remainder `i[w..]`."""
    from engine.lin import Lin
    from engine.values import Flt, Int, Slice
    from rules.lib_wire import INT_W
    F, R, cg = ctx.facts, ctx.report, ctx.cg
    reach = sorted(p for p in cg.local_reachable([FN]) if F.body(p) is not None and not F.body(p)["derived"])
    n = 0
    for p in reach:
        b = F.body(p)
        rt = F.ty_s(b["locals"][0]["ty"])
        if not re.search(r"Result<\(&\[u8\], dlt::Value\)", rt):
            continue
        nargs = b["arg_count"]
        if b["kind"] == "closure":
            if nargs != 2:
                continue
            names = ["env", "i"]
        else:
            if nargs != 1:
                continue
            names = ["i"]
        eng = Engine(F)
        try:
            outs = eng.call_path(p, eng.symbolic_args(b, names=names))
        except Exception as ex:
            R.notes.append("%s: %s could not be analysed (%r) (not decided)" % (rule, p, ex))
            continue
        fl, ln = b["span"]["f"], b["span"]["l"]
        ok_seen = 0
        for st, rv in outs:
            if not isinstance(rv, Enum):
                continue
            for vi, fs in rv.variants:
                if eng.T.variant_name(rv.ty, vi) != "Ok" or not fs:
                    continue
                tup = fs[0]
                if isinstance(tup, Top):
                    tup = eng.M.force(st, tup)
                if not isinstance(tup, Struct) or len(tup.fields) != 2:
                    continue
                rest, val = tup.fields
                if isinstance(val, Top):
                    val = eng.M.force(st, val)
                if not isinstance(val, Enum) or len(val.variants) != 1:
                    R.notes.append("%s: %s returns a value whose variant is not decided on an accepting exit (not decided)" % (rule, p))
                    continue
                vname = eng.T.variant_name(val.ty, val.variants[0][0])
                w = INT_W.get(vname)
                if w is None or not val.variants[0][1]:
                    continue
                ok_seen += 1
                x = val.variants[0][1][0]
                pre = "rds" if vname.startswith("I") else "rd"
                wants = {"%s[i@0:%d:%s]" % (pre, w, o) for o in (("1",) if w == 1 else ("T", "BE", "LE"))}
                got = None
                if isinstance(x, Int):
                    got = x.lin.single_sym() if x.lin == Lin.sym(x.lin.single_sym() or "?") else repr(x.lin)
                elif isinstance(x, Flt):
                    got = x.term[1] if x.term[0] == "sym" else repr(x.term)
                why = []
                if got not in wants:
                    why.append("the value is %s, not the %d-byte %s read at offset 0 of its input" % (got if got is not None else repr(x)[:80], w, "float" if vname.startswith("F") else "signed" if vname.startswith("I") else "unsigned"))
                if not (isinstance(rest, Slice) and rest.base == "i" and rest.off == Lin.const(w)):
                    why.append("the remainder is %s, not input[%d..]" % (getattr(rest, "off", rest), w))
                key = "%s|%s" % (p, vname)
                if why:
                    R.violation(rule, key, "decoder %s (Value::%s): %s — every bit pattern of a long-enough field must be decoded as it is" % (p, vname, "; ".join(why)), function=p, file=fl, line=ln)
                else:
                    n += 1
                    R.obligation(rule, key, "discharged", "Value::%s(%s), remainder input[%d..]" % (vname, got, w))
                    R.instance(rule, "%s: Value::%s = %s" % (p, vname, got))
    R.floor(rule, 6)
    return n
