"""Helpers shared by the rule modules."""
import re

from engine import cfg
from engine.report import span_loc


def place_ty(facts, body, place):
    """Type id of a place (None if it cannot be followed)."""
    ti = body["locals"][place["l"]]["ty"]
    for e in place["p"]:
        if e == "*":
            t = facts.ty(ti)
            if t["k"] in ("ref", "ptr"):
                ti = t["to"]
            elif t["k"] == "adt" and t["path"].endswith("Box") and t["args"]:
                ti = t["args"][0]
            else:
                return None
        elif isinstance(e, dict):
            if "f" in e:
                ti = e["ty"]
            elif "d" in e:
                pass
            elif "i" in e or "ci" in e:
                t = facts.ty(ti)
                if t["k"] in ("array", "slice"):
                    ti = t["of"]
                else:
                    return None
            elif "ss" in e:
                pass
            elif "oc" in e:
                ti = e["oc"]
            else:
                return None
        else:
            return None
    return ti


def op_place(o):
    return o.get("c") or o.get("m")


def op_local(o):
    """Local index if the operand is a bare local copy/move."""
    p = op_place(o)
    if p is not None and not p["p"]:
        return p["l"]
    return None


def adt_variant_index(facts, adt_path, vname):
    a = facts.adts.get(adt_path)
    if not a or "variants" not in a:
        return None
    for i, v in enumerate(a["variants"]):
        if v["name"] == vname:
            return i, int(v["discr"])
    return None


# ---- panicking deny-list (contract class 2 of DESIGN §2.2): any reachable call is an
# undischargeable obligation.
DENY_PATTERNS = [
    (r"^(std|core)::option::Option::<T>::(unwrap|expect|unwrap_unchecked)$", "Option::unwrap/expect"),
    (r"^(std|core)::result::Result::<T, E>::(unwrap|expect|unwrap_err|expect_err|unwrap_unchecked)$", "Result::unwrap/expect"),
    (r"^(std|core)::panicking::", "explicit panic"),
    (r"^std::rt::(begin_panic|panic_fmt)", "explicit panic"),
    (r"^(std|core)::cell::RefCell::<T>::(borrow|borrow_mut)$", "RefCell borrow"),
    (r"^(std|alloc)::vec::Vec::<T(, A)?>::(remove|swap_remove|drain|insert|split_off|truncate_front)$", "Vec op with index precondition"),
    (r"^(std|core)::slice::<impl \[T\]>::(copy_from_slice|clone_from_slice|split_at_mut|swap|chunks|chunks_exact|windows|rotate_left|rotate_right|select_nth_unstable)$", "slice op with length precondition"),
    (r"^(std|core)::str::<impl str>::(split_at|split_at_mut)$", "str split_at"),
    (r"^(std|alloc)::string::String::(remove|insert|insert_str|truncate|split_off|drain|replace_range)$", "String op with index precondition"),
    (r"^(std|core)::num::<impl [iu](8|16|32|64|128|size)>::(pow|abs|div_euclid|rem_euclid|ilog2|ilog10|next_power_of_two|strict_)", "integer op that can overflow/panic"),
    (r"^(std|core)::intrinsics::(unreachable|abort)", "unreachable/abort"),
    (r"^std::process::(exit|abort)$", "process exit"),
    (r"^(std|core)::hint::unreachable_unchecked$", "unreachable_unchecked"),
    (r"^bytes::(Buf|buf::Buf)::(get_|advance|copy_to_)", "bytes::Buf getter (panics when short)"),
    (r"^bytes::BytesMut::(split_to|split_off|advance|set_len)$", "BytesMut op with length precondition"),
]

# ---- contract class 1 with a precondition: every reachable call is a proof obligation
PRECOND_PATTERNS = [
    (r"^(std|core)::ops::Index(Mut)?::index(_mut)?$", "index"),
    (r"^(std|core)::slice::<impl \[T\]>::split_at$", "split_at"),
    (r"^byteorder::ByteOrder::(read_|write_)", "byteorder"),
]
_PRECOND_RE = [(re.compile(p), d) for p, d in PRECOND_PATTERNS]


def precond_class(path):
    for r, d in _PRECOND_RE:
        if r.search(path):
            return d
    return None

_DENY_RE = [(re.compile(p), d) for p, d in DENY_PATTERNS]


def deny_class(path):
    for r, d in _DENY_RE:
        if r.search(path):
            return d
    return None


_SIZE_ARG = re.compile(r"^(std|core)::slice::<impl \[T\]>::(chunks|chunks_exact|windows|rchunks|chunks_mut|chunks_exact_mut)$")


def deny_exempt(f, term):
    """A deny-listed callee whose only precondition is `size != 0` (`windows(n)`, `chunks(n)`) is harmless when the size
    operand is a non-zero literal."""
    if not _SIZE_ARG.search(f["path"]) and not _SIZE_ARG.search(str(f.get("resolved") or "")):
        return False
    try:
        k = term["args"][1].get("k")
        return bool(k) and "int" in k and int(k["int"]) != 0
    except Exception:
        return False


def is_panic_call(path):
    return bool(re.search(r"^(std|core)::panicking::|^std::rt::(begin_panic|panic_fmt)", path))


def loc_of(blk_or_sp):
    sp = blk_or_sp.get("sp", blk_or_sp) if isinstance(blk_or_sp, dict) else None
    return span_loc(sp)


def from_macro(sp, names):
    """Was this span produced by expansion of one of the named macros (outermost or innermost)?"""
    if not sp:
        return False
    for key in ("x", "xo"):
        v = sp.get(key)
        if v:
            vv = v.split("::")[-1]
            if vv in names or v in names:
                return True
    return False


LOG_MACROS = {"trace", "debug", "info", "warn", "error", "log", "__log", "log_enabled", "$crate::__log", "$crate::log"}


def local_callsites(facts, body):
    """Yield (block index, callee fn dict, terminator, block) for every call terminator of non-cleanup blocks."""
    for bi, blk in enumerate(body["blocks"]):
        if blk["cleanup"]:
            continue
        t = blk["term"]
        f = cfg.callee_of(t)
        if f is not None:
            yield bi, f, t, blk
