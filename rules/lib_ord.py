"""ORD-1 — byte-order discipline of every multi-byte numeric wire primitive.

Every *reference* (call or fn-item value) to a numeric wire primitive is classified
by a table into (order class, width).  The function it occurs in has a context
class: 'T' (generic over ByteOrder/NomByteOrder), 'BE'/'LE' (fixed by the spec for
that header), 'impl:BE'/'impl:LE' (the NomByteOrder impls) or 'paired' (dispatch
sites: the reference must be control dependent on `endianness == Big` with the
matching polarity).
"""
import re

from engine import cfg
from rules.common import loc_of, op_local, place_ty

NUM = r"(u8|i8|u16|i16|u24|i24|u32|i32|u48|i48|u64|i64|u128|i128|f32|f64|uint|int|uint128|int128)"
WIDTH = {"u8": 1, "i8": 1, "u16": 2, "i16": 2, "u24": 3, "i24": 3, "u32": 4, "i32": 4, "u48": 6, "i48": 6, "u64": 8, "i64": 8, "u128": 16, "i128": 16, "f32": 4, "f64": 8, "uint": 0, "int": 0, "uint128": 0, "int128": 0}

ORDER_TYPES = {"byteorder::BigEndian": "BE", "byteorder::LittleEndian": "LE", "byteorder::NetworkEndian": "BE", "byteorder::NativeEndian": "NE"}


def self_order(facts, f):
    st = f.get("self_ty")
    if st is None:
        return None
    t = facts.ty(st)
    if t["k"] == "param":
        return "T"
    if t["k"] == "adt":
        return ORDER_TYPES.get(t["path"], "?" + t["path"])
    return "?" + t["s"]


def classify_primitive(facts, f):
    """Return (order class, width bytes, description) or None if f is not a numeric wire primitive."""
    path = f["path"]
    m = re.match(r"^byteorder::ByteOrder::(read|write)_" + NUM + r"(_into)?$", path)
    if m:
        return self_order(facts, f), WIDTH[m.group(2)], "ByteOrder::%s_%s" % (m.group(1), m.group(2))
    m = re.match(r"^parse::NomByteOrder::parse_" + NUM + r"$", path)
    if m:
        return self_order(facts, f), WIDTH[m.group(1)], "NomByteOrder::parse_" + m.group(1)
    m = re.match(r"^nom::number::(streaming|complete)::(be|le|ne)_" + NUM + r"$", path)
    if m:
        w = WIDTH[m.group(3)]
        return ("1" if w == 1 else m.group(2).upper()), w, "nom::%s_%s" % (m.group(2), m.group(3))
    m = re.match(r"^nom::number::(streaming|complete)::" + NUM + r"$", path)  # u16(endianness) style
    if m:
        return "DYN", WIDTH[m.group(2)], "nom::" + m.group(2)
    m = re.match(r"^bytes::(buf::)?(BufMut|Buf)::(put|get)_" + NUM + r"(_le|_ne)?$", path)
    if m:
        w = WIDTH[m.group(4)]
        sfx = m.group(5)
        oc = "1" if w == 1 else ("LE" if sfx == "_le" else "NE" if sfx == "_ne" else "BE")
        return oc, w, "bytes::%s_%s%s" % (m.group(3), m.group(4), sfx or "")
    m = re.match(r"^(std|core)::num::<impl " + NUM + r">::(to|from)_(be|le|ne)(_bytes)?$", path)
    if m:
        w = WIDTH[m.group(2)]
        return ("1" if w == 1 else m.group(4).upper()), w, "%s::%s_%s" % (m.group(2), m.group(3), m.group(4))
    m = re.match(r"^(std|core)::num::<impl " + NUM + r">::swap_bytes$", path)
    if m and WIDTH[m.group(2)] > 1:
        return "SWAP", WIDTH[m.group(2)], "swap_bytes"
    m = re.match(r"^(std|core)::f(32|64)::<impl f(32|64)>::(to|from)_(be|le|ne)_bytes$", path)
    if m:
        return m.group(5).upper(), int(m.group(2)) // 8, "f%s::%s_%s_bytes" % (m.group(2), m.group(4), m.group(5))
    return None


def generic_order_args(facts, f):
    """Order classes of generic args of a *local* callee that is generic over the byte order
    (e.g. dlt_payload::<BigEndian>)."""
    out = []
    for a in f.get("args", []):
        if isinstance(a, int):
            t = facts.ty(a)
            if t["k"] == "adt" and t["path"] in ORDER_TYPES:
                out.append(ORDER_TYPES[t["path"]])
    return out


def body_context(body):
    """'T' if the body's generics are bounded by ByteOrder/NomByteOrder."""
    for p in body.get("preds", []):
        if re.search(r": (byteorder::ByteOrder|parse::NomByteOrder)\b", p):
            return "T"
    return None


def promoted_enum_variant(body, n):
    pb = body["promoted"][n]
    for blk in pb["blocks"]:
        for s in blk["stmts"]:
            if s["k"] == "assign" and s["rv"]["k"] == "agg" and s["rv"]["ak"] == "adt":
                return s["rv"]["adt"], s["rv"]["vname"]
    return None


def local_defs(body):
    d = {}
    for bi, blk in enumerate(body["blocks"]):
        for s in blk["stmts"]:
            if s["k"] == "assign" and not s["p"]["p"]:
                d.setdefault(s["p"]["l"], []).append((bi, s["rv"]))
        t = blk["term"]
        if t["k"] == "call" and not t["dest"]["p"]:
            d.setdefault(t["dest"]["l"], []).append((bi, {"k": "call", "t": t}))
    return d


def resolve_enum_const(facts, body, defs, o, depth=0):
    """Operand -> (adt, variant) if it is (a reference to) a constant enum value."""
    if depth > 6:
        return None
    k = o.get("k")
    if k:
        if "promoted" in k:
            return promoted_enum_variant(body, k["promoted"])
        return None
    l = op_local(o)
    pl = o.get("c") or o.get("m")
    if l is None and pl is not None and pl["p"] == ["*"]:
        l = pl["l"]
    if l is None:
        return None
    ds = defs.get(l, [])
    if len(ds) != 1:
        return None
    rv = ds[0][1]
    if rv["k"] == "use":
        return resolve_enum_const(facts, body, defs, rv["a"], depth + 1)
    if rv["k"] == "ref":
        p = rv["p"]
        if p["p"] == ["*"] or not p["p"]:
            return resolve_enum_const(facts, body, defs, {"c": {"l": p["l"], "p": []}}, depth + 1)
    if rv["k"] == "agg" and rv["ak"] == "adt" and not rv["ops"]:
        return rv["adt"], rv["vname"]
    return None


def endianness_dispatches(facts, body):
    """Find switches deciding on an Endianness value.  Returns list of
    dict(block, big_target, little_target)."""
    defs = local_defs(body)
    out = []
    for bi, blk in enumerate(body["blocks"]):
        t = blk["term"]
        if t["k"] != "switch":
            continue
        dl = op_local(t["d"])
        if dl is None:
            continue
        for (_b, rv) in defs.get(dl, []):
            # (a) bool from <Endianness as PartialEq>::eq / ne (x, const)
            if rv["k"] == "call":
                ct = rv["t"]
                f = cfg.callee_of(ct)
                if not f or f.get("trait") != "std::cmp::PartialEq" or f.get("name") not in ("eq", "ne"):
                    continue
                st = f.get("self_ty")
                if st is None or facts.ty(st).get("path") != "dlt::Endianness":
                    continue
                cv = None
                for a in ct["args"]:
                    r = resolve_enum_const(facts, body, defs, a)
                    if r and r[0] == "dlt::Endianness":
                        cv = r[1]
                if cv is None:
                    continue
                true_t = t["otherwise"]
                false_t = None
                for v, tg in zip(t["vals"], t["tgts"]):
                    if int(v) == 0:
                        false_t = tg
                if f["name"] == "ne":
                    true_t, false_t = false_t, true_t
                other = "Little" if cv == "Big" else "Big"
                m = {cv: true_t, other: false_t}
                out.append({"block": bi, "Big": m.get("Big"), "Little": m.get("Little")})
            # (b) match on the discriminant
            elif rv["k"] == "discr":
                pt = place_ty(facts, body, rv["p"])
                if pt is None or facts.ty(pt).get("path") != "dlt::Endianness":
                    continue
                a = facts.adts["dlt::Endianness"]
                m = {}
                for v in a["variants"]:
                    tgt = t["otherwise"]
                    for val, tg in zip(t["vals"], t["tgts"]):
                        if int(val) == int(v["discr"]):
                            tgt = tg
                    m[v["name"]] = tgt
                out.append({"block": bi, "Big": m.get("Big"), "Little": m.get("Little")})
    return out


def branch_order(body, dispatches, bi, dom):
    """Which order does control dependence give block bi?  'BE'/'LE'/None/'CONFLICT'."""
    res = set()
    for d in dispatches:
        big, little = d["Big"], d["Little"]
        in_big = big is not None and big in dom.get(bi, ())
        in_little = little is not None and little in dom.get(bi, ())
        # the two targets must be distinct blocks for the dominance argument
        if big == little:
            continue
        if in_big and not in_little:
            res.add("BE")
        elif in_little and not in_big:
            res.add("LE")
    if not res:
        return None
    if len(res) > 1:
        return "CONFLICT"
    return res.pop()


def type_selected_order(F, X):
    """Byte order a marker type X stands for when values of X (or references to it) come into being only on one side
    of an endianness dispatch: every block — outside X's own impls — that assigns a local whose type is X / &X (the
    construction, the promoted constant, the coercion to a trait object) is control dependent on the same polarity.
    Returns 'BE' / 'LE', or None (no such site, mixed polarity, or a site under no dispatch)."""
    res = set()
    n = 0
    for p, b in F.bodies.items():
        if b.get("derived") or b.get("impl_self") == X:
            continue
        locs = set()
        for i, l in enumerate(b["locals"]):
            t = F.ty(l["ty"])
            while t["k"] in ("ref", "ptr"):
                t = F.ty(t["to"])
            if t["k"] == "adt" and t.get("path") == X and i > b["arg_count"]:
                locs.add(i)
        if not locs:
            continue
        dom = disp = None
        for bi, blk in enumerate(b["blocks"]):
            if blk["cleanup"]:
                continue
            hit = any(s["k"] == "assign" and s["p"]["l"] in locs for s in blk["stmts"])
            t = blk["term"]
            if t["k"] == "call" and t["dest"]["l"] in locs:
                hit = True
            if not hit:
                continue
            if dom is None:
                dom, _ = cfg.dominators(b)
                disp = endianness_dispatches(F, b)
            n += 1
            res.add(branch_order(b, disp, bi, dom))
    if n and len(res) == 1:
        r = res.pop()
        return r if r in ("BE", "LE") else None
    return None


def caller_context(F, p, depth=0, seen=None):
    """Byte-order context a private, non-generic helper inherits from its users: every reference to `p` (call or
    fn-item value) anywhere in the crate sits in a function whose own context is one fixed order — declared by the
    spec table below, or inherited the same way (bounded depth).  Returns 'BE' / 'LE', or None (no user, a public
    function, users of different orders, or a user without a context)."""
    seen = seen or set()
    b = F.body(p)
    if b is None or depth > 3 or p in seen or str(b.get("vis", "")).startswith("Public"):
        return None
    seen = seen | {p}
    res = set()
    n = 0
    for q, qb in F.bodies.items():
        if qb.get("derived") or q == p or "::tests::" in q:
            continue
        hit = False
        for blk in qb["blocks"]:
            if blk["cleanup"]:
                continue
            for o in list(cfg.term_operands(blk["term"])) + [o for s_ in blk["stmts"] if s_["k"] == "assign" for o in cfg.rv_operands(s_["rv"])]:
                f = cfg.const_fn(o)
                if f and (f["path"] == p or f.get("resolved") == p):
                    hit = True
        if not hit:
            continue
        n += 1
        owner = q.split("::{closure")[0]
        c = FIXED_CONTEXT.get(q) or FIXED_CONTEXT.get(owner) or body_context(qb) or caller_context(F, owner, depth + 1, seen)
        res.add(c)
    if n and len(res) == 1:
        r = res.pop()
        return r if r in ("BE", "LE") else None
    return None


# spec: fixed-order contexts (standard + extended header are big endian [PRS_Dlt_00091];
# the storage header's timestamps are little endian by dlt-daemon convention)
FIXED_CONTEXT = {
    "dlt::StandardHeader::as_bytes": "BE",
    "dlt::ExtendedHeader::as_bytes": "BE",
    "parse::dlt_standard_header": "BE",
    "parse::dlt_extended_header": "BE",
    "parse::maybe_parse_u32::parse_u32_to_option": "BE",
    "parse::parse_length": "BE",
    "dlt::StorageHeader::as_bytes": "LE",
    "parse::dlt_storage_header": "LE",
}


# header records whose serialisation has one byte order by the spec (for impls of crate-local traits on them)
FIXED_SELF = {"dlt::StandardHeader": "BE", "dlt::ExtendedHeader": "BE", "dlt::StorageHeader": "LE"}


def const_bytes_of(facts, body, defs, o, depth=0):
    """If the operand is (a reference/unsizing of) a constant byte string, return it."""
    if depth > 8:
        return None
    k = o.get("k")
    if k:
        for key in ("bytes", "ptr_bytes", "indirect_bytes"):
            if key in k:
                return bytes(k[key]), k.get("item")
        if "promoted" in k:
            pb = body["promoted"][k["promoted"]]
            for blk in pb["blocks"]:
                for s in blk["stmts"]:
                    if s["k"] == "assign" and s["rv"]["k"] == "agg" and s["rv"]["ak"] == "array":
                        vals = []
                        for x in s["rv"]["ops"]:
                            kk = x.get("k")
                            if kk and "int" in kk:
                                vals.append(int(kk["int"]) & 0xFF)
                            else:
                                return None
                        return bytes(vals), None
        return None
    pl = o.get("c") or o.get("m")
    if pl is None:
        return None
    if pl["p"] not in ([], ["*"]):
        return None
    ds = defs.get(pl["l"], [])
    if len(ds) != 1:
        return None
    rv = ds[0][1]
    if rv["k"] in ("use", "cast"):
        return const_bytes_of(facts, body, defs, rv["a"], depth + 1)
    if rv["k"] == "ref" and rv["p"]["p"] in ([], ["*"]):
        return const_bytes_of(facts, body, defs, {"c": {"l": rv["p"]["l"], "p": []}}, depth + 1)
    if rv["k"] == "agg" and rv["ak"] == "array":
        vals = []
        for x in rv["ops"]:
            kk = x.get("k")
            if kk and "int" in kk:
                vals.append(int(kk["int"]) & 0xFF)
            else:
                return None
        return bytes(vals), None
    return None


APPENDERS = re.compile(r"^(bytes::BytesMut::extend_from_slice|bytes::(buf::)?BufMut::(put_slice|put)|(std|alloc)::vec::Vec::<T, A>::extend_from_slice|(std|alloc)::vec::Vec::<T>::extend_from_slice|std::io::Write::write_all|std::io::Write::write)$")


def check(ctx, bodies, rule="ORD-1", paired=()):
    """Run ORD-1 over the given body paths.  `paired`: paths whose order-specific
    references must be control dependent on an endianness dispatch."""
    F, R = ctx.facts, ctx.report
    n_refs = 0
    for p in bodies:
        b = F.body(p)
        if b is None:
            R.violation(rule, "missing|" + p, "anchor function %s not found" % p, kind="ANCHOR-MISSING")
            continue
        R.fn(p)
        ctxc = body_context(b)
        if ctxc is None:
            ctxc = FIXED_CONTEXT.get(p)
        if ctxc is None and b.get("impl_self") in FIXED_SELF and b.get("impl_trait") and not str(b.get("impl_trait")).startswith(("std::", "core::")):
            # a method of a crate-local trait implemented for one of the header records: the record's byte order
            ctxc = FIXED_SELF[b["impl_self"]]
        impl_order = None
        if b.get("impl_trait") == "parse::NomByteOrder":
            impl_order = ORDER_TYPES.get(b.get("impl_self"))
        is_paired = p in paired
        dom = None
        disp = None
        defs = None
        for bi, blk in enumerate(b["blocks"]):
            if blk["cleanup"]:
                continue
            sites = []
            for si, s in enumerate(blk["stmts"]):
                if s["k"] == "assign":
                    for o in cfg.rv_operands(s["rv"]):
                        f = cfg.const_fn(o)
                        if f:
                            sites.append((f, s["sp"], "value"))
            t = blk["term"]
            cf = cfg.callee_of(t)
            for o in cfg.term_operands(t):
                f = cfg.const_fn(o)
                if f:
                    sites.append((f, blk["sp"], "call" if f is cf else "value"))
            for f, sp, how in sites:
                cls = classify_primitive(F, f)
                orders = []
                desc = None
                if cls:
                    oc, w, desc = cls
                    if oc != "1":
                        orders.append(oc)
                    else:
                        n_refs += 1
                        R.instance(rule, "%s: %s [1-byte] ok" % (p, desc))
                        continue
                elif f.get("local") or f["path"] in F.bodies:
                    go = generic_order_args(F, f)
                    if go:
                        orders.extend(go)
                        desc = f["s"]
                if not orders:
                    continue
                fl, ln = loc_of({"sp": sp})
                for oc in orders:
                    n_refs += 1
                    key = "%s|%s" % (p, desc)
                    if impl_order:
                        # impl NomByteOrder for X: parse_N forwards to x_N of the same N
                        want_fn = "nom::%s_%s" % (impl_order.lower(), b.get("name", "").replace("parse_", ""))
                        mname = b.get("name", "").replace("parse_", "")
                        same_num = cls is not None and oc == impl_order and cls[1] == WIDTH.get(mname, -1) and re.search(r"(^|[:_ ])%s(::|$|_)" % re.escape(mname), desc.replace("nom::%s_" % impl_order.lower(), "nom::x_")) is not None
                        if (oc == impl_order and desc == want_fn) or same_num:
                            R.instance(rule, "%s -> %s ok" % (p, desc))
                        else:
                            R.violation(rule, key, "impl NomByteOrder for %s: %s must forward to %s but references %s" % (b.get("impl_self"), b.get("name"), want_fn, desc), file=fl, line=ln, function=p)
                        continue
                    if ctxc == "T":
                        if oc == "T":
                            R.instance(rule, "%s: %s [T] ok" % (p, desc))
                        else:
                            R.violation(rule, key, "fixed-order primitive %s (%s) inside a function generic over the message byte order" % (desc, oc), file=fl, line=ln, function=p)
                        continue
                    if ctxc in ("BE", "LE") and not is_paired:
                        if oc == ctxc:
                            R.instance(rule, "%s: %s [%s per spec] ok" % (p, desc, ctxc))
                        else:
                            R.violation(rule, key, "%s uses %s order, the DLT layout prescribes %s here" % (desc, oc, ctxc), file=fl, line=ln, function=p)
                        continue
                    if is_paired:
                        if dom is None:
                            dom, _ = cfg.dominators(b)
                            disp = endianness_dispatches(F, b)
                        bo = branch_order(b, disp, bi, dom)
                        if oc in ("BE", "LE") and bo == oc:
                            R.instance(rule, "%s: %s paired with endianness==%s ok" % (p, desc, "Big" if oc == "BE" else "Little"))
                        else:
                            R.violation(rule, key + "|" + str(bo), "%s (%s) is not selected by the matching `endianness == Big` branch (control dependence gives %s)" % (desc, oc, bo), file=fl, line=ln, function=p)
                        continue
                    if oc in ("BE", "LE") and not is_paired:
                        # a dispatch site that is not in the caller's list: the reference is fine when it is control
                        # dependent on the matching side of an endianness test in this very function
                        if dom is None:
                            dom, _ = cfg.dominators(b)
                            disp = endianness_dispatches(F, b)
                        if disp and branch_order(b, disp, bi, dom) == oc:
                            R.instance(rule, "%s: %s paired with endianness==%s ok" % (p, desc, "Big" if oc == "BE" else "Little"))
                            continue
                    if oc in ("BE", "LE") and caller_context(F, p) == oc:
                        R.instance(rule, "%s: %s [%s inherited from every user of this private helper] ok" % (p, desc, oc))
                        continue
                    isf = b.get("impl_self")
                    if isf and oc in ("BE", "LE"):
                        # order chosen by type: an impl for the byte-order marker itself, or for a local marker type
                        # whose values only come into being under the matching endianness branch
                        if ORDER_TYPES.get(isf) == oc:
                            R.instance(rule, "%s: %s in an impl for %s ok" % (p, desc, isf))
                            continue
                        if isf in F.adts and type_selected_order(F, isf) == oc:
                            R.instance(rule, "%s: %s in an impl for %s, which is only selected under endianness == %s ok" % (p, desc, isf, "Big" if oc == "BE" else "Little"))
                            continue
                    # any other handwritten function: order-specific numeric primitive outside a declared context
                    R.violation(rule, key, "%s (%s) in a function with no declared byte-order context" % (desc, oc), file=fl, line=ln, function=p, kind="UNCLASSIFIED-CONTEXT")
            # multi-byte order-dependent constants appended to a buffer in a T context
            if ctxc == "T" and cf is not None and APPENDERS.search(cf["path"]):
                if defs is None:
                    defs = local_defs(b)
                for a in t["args"][1:]:
                    cb = const_bytes_of(F, b, defs, a)
                    if cb is not None:
                        data, item = cb
                        n_refs += 1
                        if len(data) >= 2 and data != data[::-1]:
                            fl, ln = loc_of(blk)
                            R.violation(rule, "%s|const-bytes|%s" % (p, item or data.hex()), "order-dependent constant byte string %s appended inside a function generic over the message byte order (the same bytes are written for both orders)" % data.hex(), file=fl, line=ln, function=p)
                        else:
                            R.instance(rule, "%s: constant %s is order independent" % (p, data.hex()))
    return n_refs
