"""WIRE rules — the byte layout an Argument is serialised to, per input shape, against the spec layout
(DESIGN §4 C01/C02/C15/C16).

The engine runs `Argument::as_bytes::<T>` (T abstract, so both byte orders at once) partitioned on the argument's
shape (kind, width, variable-info flag, name/unit/fixed-point presence, offset variant, value variant) and returns the
output buffer as an ordered sequence of segments: numbers (width, byte-order class, value term), byte strings (source
object, length), constants.  The rule compares that sequence with the layout the DLT PRS prescribes for the shape
(rules/spec): field order, widths, byte-order class, which field each segment comes from, and the length-prefix
arithmetic (prefix value = bytes emitted for the field, including the NUL for names/units/strings, without it for raw).

WIRE-L: `Argument::len()` analysed under the same partitioning equals the sum of the segment lengths.
"""
import re

from engine.interp import Budget, Engine
from engine.lin import Lin
from engine.values import Bool, Cont, Enum, Flt, Int, Slice, Struct, Top

ARG_AS_BYTES = "dlt::Argument::as_bytes"
ARG_LEN = "dlt::Argument::len"
KEY_ADTS = {"dlt::TypeInfoKind", "dlt::Value", "dlt::FixedPointValue", "dlt::TypeLength", "dlt::FloatWidth"}
INT_W = {"I8": 1, "I16": 2, "I32": 4, "I64": 8, "I128": 16, "U8": 1, "U16": 2, "U32": 4, "U64": 8, "U128": 16, "F32": 4, "F64": 8, "Bool": 1}
KIND_VALUES = {
    "Bool": {"Bool"},
    "Signed": {"I8", "I16", "I32", "I64", "I128"},
    "Unsigned": {"U8", "U16", "U32", "U64", "U128"},
    "Float": {"F32", "F64"},
    "SignedFixedPoint": {"I32", "I64"},
    "UnsignedFixedPoint": {"U32", "U64"},
    "StringType": {"StringVal"},
    "Raw": {"Raw"},
}
WIDTH_NAME = {"BitLength8": 1, "BitLength16": 2, "BitLength32": 4, "BitLength64": 8, "BitLength128": 16, "Width32": 4, "Width64": 8}
NUMERIC = {"Signed", "Unsigned", "Float", "SignedFixedPoint", "UnsignedFixedPoint"}


def mk_engine(F):
    eng = Engine(F, budget=8000000, partition_budget=32768)
    eng.merge_returns = True
    eng.len_max = 65534  # I(Message): every string/raw length fits its 16-bit prefix (C01's well-formedness bound)
    eng.key_adts = set(KEY_ADTS)
    eng.keep_key = lambda x, fr: x[0] in ("variant", "sym") and relevant(x[1])
    eng.partition_filter = lambda fr, b, kind, detail: relevant(detail if isinstance(detail, str) else (detail[1] if isinstance(detail, tuple) and len(detail) > 1 else ""))
    return eng


SHAPE_PATHS = re.compile(r"^\*self\.(type_info\.kind(\.\w+\.0)?|type_info\.has_variable_info|name|unit|fixed_point|fixed_point\.Some\.0\.offset|value)$")


def relevant(name):
    """Partition predicates of the WIRE rules: the components of an argument's shape (nothing else is keyed)."""
    return isinstance(name, str) and bool(SHAPE_PATHS.match(name))


def key_dict(st):
    d = {}
    for k in st.key:
        if k[0] == "variant":
            d[k[1]] = k[2]
        elif k[0] == "sym":
            d[k[1]] = k[2]
    return d


def shape_of(kd):
    """Shape facts of a partition from its key: dict with kind, width (bytes, of the declared kind or None), vari, name,
    unit, fp, offset, value (set of possible variants)."""
    g = lambda s: kd.get("*self." + s)
    kind = g("type_info.kind")
    sh = {"kind": kind, "vari": g("type_info.has_variable_info"), "name": g("name"), "unit": g("unit"), "fp": g("fixed_point"),
          "offset": g("fixed_point.Some.0.offset"), "value": set(g("value").split("|")) if g("value") else None, "width": None}
    if kind:
        w = g("type_info.kind.%s.0" % kind)
        if w:
            sh["width"] = WIDTH_NAME.get(w)
    return sh


def well_formed(sh):
    """Is the partition compatible with C01's well-formedness (value variant and fixed-point data match the type info,
    name/unit presence matches the variable-info flag)?  Unknown (None) components are compatible."""
    kind = sh["kind"]
    if kind is None or "|" in kind:
        return False
    vals = sh["value"]
    if vals is not None:
        ok = vals & KIND_VALUES[kind]
        if not ok:
            return False
        if len(vals) > 1:
            return False  # the catch-all arm of a match on the value: only ill-typed values end up there
        if sh["width"] is not None and INT_W[next(iter(vals))] != sh["width"] and kind not in ("StringType", "Raw", "Bool"):
            return False
    vari = sh["vari"]
    name = sh["name"]
    if vari is not None and name is not None and (name == "Some") != bool(vari):
        return False
    if kind in NUMERIC:
        unit = sh["unit"]
        if vari is not None and unit is not None and (unit == "Some") != bool(vari):
            return False
        if name is not None and unit is not None and name != unit:
            return False
    else:
        if sh["unit"] == "Some":
            return False
    fp = sh["fp"]
    if fp is not None and (fp == "Some") != (kind in ("SignedFixedPoint", "UnsignedFixedPoint")):
        return False
    return True


def tokens(cont):
    """Normalised token list of a buffer's segment sequence."""
    out = []
    if cont.segs is None:
        return None
    for seg in cont.segs:
        k = seg[0]
        if k == "num":
            _, w, order, val, desc = seg
            if isinstance(val, Int):
                v = repr(val.lin)
            elif isinstance(val, Flt):
                v = val.term[1] if val.term[0] == "sym" else repr(val.term)
            elif isinstance(val, Bool):
                v = repr(val.cond)
            else:
                v = "?"
            out.append(("NUM", w, order if w > 1 else "1", v))
        elif k == "bytes":
            _, base, off, ln = seg
            out.append(("BYTES", base if isinstance(base, str) else "tmp", repr(off), repr(ln)))
        elif k == "const":
            out.append(("CONST", bytes(seg[1]).hex()))
        elif k == "fill":
            _, val, cnt = seg
            out.append(("FILL", repr(val.lin) if isinstance(val, Int) else "?", repr(cnt)))
        elif k == "rep":
            class _C:
                segs = seg[1]
            out.append(("REP", tuple(tokens(_C))))
        else:
            out.append((k.upper(),) + tuple(repr(x) for x in seg[1:]))
    return out


def spec_tokens(sh):
    """The layout the DLT PRS prescribes for a well-formed argument of this shape (after the 4-byte type info)."""
    kind = sh["kind"]
    vari = sh["vari"] if sh["vari"] is not None else (sh["name"] == "Some")
    nm, un = "*self.name.Some.0", "*self.unit.Some.0"
    t = []

    def prefix(obj, plus):
        l = Lin.sym("len(%s)" % obj).add(Lin.const(plus))
        return ("NUM", 2, "T", repr(l))

    def text(obj, nul=True):
        r = [("BYTES", obj, "0", "len(%s)" % obj)]
        if nul:
            r.append(("NUM", 1, "1", "0"))
        return r

    val = next(iter(sh["value"])) if sh["value"] and len(sh["value"]) == 1 else None
    if kind == "Bool":
        if vari:
            t.append(prefix(nm, 1))
            t += text(nm)
        t.append(("NUM", 1, "1", "*self.value.Bool.0"))
    elif kind in NUMERIC:
        if vari:
            t.append(prefix(nm, 1))
            t.append(prefix(un, 1))
            t += text(nm)
            t += text(un)
        if kind in ("SignedFixedPoint", "UnsignedFixedPoint"):
            t.append(("NUM", 4, "T", "*self.fixed_point.Some.0.quantization"))
            off = sh["offset"]
            t.append(("NUM", 4 if off == "I32" else 8, "T", "*self.fixed_point.Some.0.offset.%s.0" % off))
        t.append(("NUM", INT_W[val], "T" if INT_W[val] > 1 else "1", "*self.value.%s.0" % val))
    elif kind == "StringType":
        s = "*self.value.StringVal.0"
        t.append(prefix(s, 1))
        if vari:
            t.append(prefix(nm, 1))
            t += text(nm)
        t += text(s)
    elif kind == "Raw":
        s = "*self.value.Raw.0"
        t.append(prefix(s, 0))
        if vari:
            t.append(prefix(nm, 1))
            t += text(nm)
        t += text(s, nul=False)
    return t


def describe(tok):
    if tok[0] == "NUM":
        return "%d-byte number [%s] = %s" % (tok[1], {"T": "message order", "BE": "big-endian", "LE": "little-endian", "1": "byte"}.get(tok[2], tok[2]), tok[3])
    if tok[0] == "BYTES":
        return "bytes of %s (%s)" % (tok[1], tok[3])
    return repr(tok)


_cache = {}


def writer_layouts(ctx):
    F = ctx.facts
    k = ("w", id(F))
    if k not in _cache:
        eng = mk_engine(F)
        b = F.body(ARG_AS_BYTES)
        outs = eng.call_path(ARG_AS_BYTES, eng.symbolic_args(b, names=["self"])) if b else None
        _cache[k] = (eng, outs)
    return _cache[k]


def len_rows(ctx):
    F = ctx.facts
    k = ("l", id(F))
    if k not in _cache:
        eng = mk_engine(F)
        b = F.body(ARG_LEN)
        outs = eng.call_path(ARG_LEN, eng.symbolic_args(b, names=["self"])) if b else None
        _cache[k] = (eng, outs)
    return _cache[k]


def check_writer(ctx, rule="WIRE-W"):
    """Writer layout of every well-formed argument shape equals the spec layout."""
    F, R = ctx.facts, ctx.report
    eng, outs = writer_layouts(ctx)
    b = F.body(ARG_AS_BYTES)
    if outs is None:
        R.violation("ANCHOR", "missing|" + ARG_AS_BYTES, "anchor function %s not found" % ARG_AS_BYTES, kind="ANCHOR-MISSING")
        return None
    fl, ln = b["span"]["f"], b["span"]["l"]
    n_wf = n_ill = 0
    kinds = set()
    rows = []
    for st, rv in outs:
        kd = key_dict(st)
        sh = shape_of(kd)
        if not well_formed(sh):
            n_ill += 1
            continue
        if not isinstance(rv, Cont) or rv.segs is None:
            R.violation(rule, "%s|shape|%s" % (ARG_AS_BYTES, sh["kind"]), "the serialised bytes of a well-formed %s argument are not tracked as a segment sequence" % sh["kind"], function=ARG_AS_BYTES, kind="UNRECOGNISED-SHAPE")
            continue
        vals = sh["value"]
        if vals is None or len(vals) != 1:
            R.violation(rule, "%s|value-unresolved|%s" % (ARG_AS_BYTES, sh["kind"]), "writer does not distinguish the value variant for kind %s" % sh["kind"], function=ARG_AS_BYTES, kind="UNRECOGNISED-SHAPE")
            continue
        if sh["kind"] in ("SignedFixedPoint", "UnsignedFixedPoint") and sh["offset"] is None:
            if sh["fp"] != "Some":
                continue
        got = tokens(rv)
        n_wf += 1
        kinds.add(sh["kind"])
        part = "kind=%s value=%s vari=%s name=%s unit=%s fixed_point=%s offset=%s" % (sh["kind"], next(iter(vals)), sh["vari"], sh["name"], sh["unit"], sh["fp"], sh["offset"])
        rows.append((st, rv, sh, part))
        # type info: first segment(s) covering 4 bytes that do not come from a field of the argument
        if not got or not ((got[0][0] == "NUM" and got[0][1] == 4 and got[0][2] == "T") or (got[0][0] == "BYTES" and got[0][3] == "4" and not got[0][1].startswith("*self"))):
            R.violation(rule, "%s|type-info-first|%s" % (ARG_AS_BYTES, sh["kind"]), "the serialisation of a %s argument does not start with the 4-byte type-info word in message order (first segment: %s) [%s]" % (sh["kind"], describe(got[0]) if got else "nothing", part), function=ARG_AS_BYTES, file=fl, line=ln)
            continue
        body = got[1:]
        want = spec_tokens(sh)
        if body == want:
            R.obligation(rule, "%s|layout|%s" % (ARG_AS_BYTES, part), "discharged", "%d segments equal the spec layout" % len(want))
        else:
            i = 0
            while i < len(body) and i < len(want) and body[i] == want[i]:
                i += 1
            g = describe(body[i]) if i < len(body) else "end of buffer"
            w = describe(want[i]) if i < len(want) else "end of argument"
            slot = want[i] if i < len(want) else ("END",)
            R.violation(rule, "%s|layout|%s|vari=%s|fp=%s|field%d:%s" % (ARG_AS_BYTES, sh["kind"], bool(sh["vari"]) if sh["vari"] is not None else sh["name"], sh["fp"], i, slot[0] + (":" + str(slot[1]) if len(slot) > 1 else "")),
                        "serialised layout of a well-formed %s argument differs from the DLT layout at field %d after the type info: writes %s, the format prescribes %s [%s]" % (sh["kind"], i, g, w, part),
                        function=ARG_AS_BYTES, file=fl, line=ln, partition=part, got=[describe(x) for x in body], want=[describe(x) for x in want])
    R.instance(rule, "%d well-formed shape partitions compared with the spec layout, %d ill-formed partitions ignored; kinds %s" % (n_wf, n_ill, sorted(kinds)))
    for _ in range(n_wf):
        R.instance(rule + ".shape", "wf")
    missing = set(KIND_VALUES) - kinds
    if missing:
        R.violation(rule, "%s|kinds-missing|%s" % (ARG_AS_BYTES, ",".join(sorted(missing))), "no well-formed partition seen for kinds %s" % sorted(missing), function=ARG_AS_BYTES, kind="UNRECOGNISED-SHAPE")
    return rows


def check_len(ctx, rows, rule="WIRE-L"):
    """Argument::len() equals the number of bytes as_bytes emits, for every pair of compatible well-formed partitions."""
    F, R = ctx.facts, ctx.report
    eng, outs = len_rows(ctx)
    b = F.body(ARG_LEN)
    if outs is None:
        R.violation("ANCHOR", "missing|" + ARG_LEN, "anchor function %s not found" % ARG_LEN, kind="ANCHOR-MISSING")
        return
    lens = []
    for st, rv in outs:
        kd = key_dict(st)
        if isinstance(rv, Int):
            lens.append((kd, rv.lin))
    n = 0
    for st, cont, sh, part in rows or []:
        kdw = key_dict(st)
        for kd, l in lens:
            if any(k in kdw and not _compatible(kdw[k], v) for k, v in kd.items()):
                continue
            shl = shape_of(dict(kdw, **kd))
            if not well_formed(shl):
                continue
            n += 1
            if l == cont.len:
                R.obligation(rule, "%s|%s" % (ARG_LEN, part), "discharged", "len() = %s = bytes emitted" % l)
            else:
                R.violation(rule, "%s|%s|vari=%s" % (ARG_LEN, sh["kind"], sh["vari"]), "Argument::len() returns %s for a well-formed %s argument but as_bytes emits %s bytes [%s]" % (l, sh["kind"], cont.len, part), function=ARG_LEN, file=b["span"]["f"], line=b["span"]["l"])
    R.instance(rule, "%d (writer partition, len partition) pairs compared" % n)
    for _ in range(n):
        R.instance(rule + ".pair", "pair")


def _compatible(a, b):
    if isinstance(a, bool) or isinstance(b, bool):
        return a == b
    return bool(set(str(a).split("|")) & set(str(b).split("|")))


# ====================================================================== headers, payload, message assembly

STORAGE_AS_BYTES = "dlt::StorageHeader::as_bytes"
STD_AS_BYTES = "dlt::StandardHeader::as_bytes"
EXT_AS_BYTES = "dlt::ExtendedHeader::as_bytes"
PAYLOAD_AS_BYTES = "dlt::PayloadContent::as_bytes"
MSG_AS_BYTES = "dlt::Message::as_bytes"
ID_HELPER = "<bytes::BytesMut as dlt::BytesMutExt>::put_zero_terminated_string"
NUL_REP = ("REP", (("NUM", 1, "1", "0"),))


def plain_engine(F, names=None):
    eng = Engine(F, budget=3000000)
    eng.merge_returns = True
    eng.len_max = 65534
    named = names or {}

    def on_call(eng_, st, fr, f, args, site):
        lp = f["resolved"] or f["path"]
        if lp in named:
            w = named[lp][1]
            return [(st, eng_.named_int(named[lp][0], w, False))]
        return None

    if named:
        eng.on_call = on_call
    return eng


def merge_consts(toks):
    """Adjacent constant bytes (CONST, one-byte NUM with a constant value) are one constant byte string."""
    out = []
    for t in toks:
        b = None
        if t[0] == "CONST":
            b = bytes.fromhex(t[1])
        elif t[0] == "NUM" and t[1] == 1 and re.match(r"^\d+$", t[3]):
            b = bytes([int(t[3]) & 0xFF])
        if b is not None and out and out[-1][0] == "CONSTB":
            out[-1] = ("CONSTB", out[-1][1] + b)
        elif b is not None and t[0] == "CONST":
            out.append(("CONSTB", b))
        elif b is not None and out and out[-1][0] == "CONSTB":
            out[-1] = ("CONSTB", out[-1][1] + b)
        else:
            out.append(t)
    return out


def idfield(obj):
    return [("BYTES", obj, "0", "len(%s)" % obj), NUL_REP]


def norm_pad(toks):
    """Zero padding of an id field, however it is produced (a loop of NUL bytes or a resize with 0)."""
    out = []
    for t in toks:
        if t == NUL_REP or (t[0] == "FILL" and t[1] == "0"):
            out.append(("ZPAD",))
        else:
            out.append(t)
    return out


def compare(ctx, rule, fn, part, got, want, what):
    R = ctx.report
    got, want = norm_pad(got), norm_pad(want)
    b = ctx.facts.body(fn)
    if got == want:
        R.obligation(rule, "%s|layout|%s" % (fn, part), "discharged", "%d segments equal the spec layout of the %s" % (len(want), what))
        R.instance(rule, "%s [%s]: %s" % (what, part, " ; ".join(describe(t) for t in want)))
        return True
    i = 0
    while i < len(got) and i < len(want) and got[i] == want[i]:
        i += 1
    g = describe(got[i]) if i < len(got) else "end of buffer"
    w = describe(want[i]) if i < len(want) else "end of " + what
    slot = want[i] if i < len(want) else ("END",)
    R.violation(rule, "%s|layout|%s|field%d:%s" % (fn, part, i, ":".join(str(x) for x in slot[:3])),
                "layout of the %s differs from the DLT layout at field %d: writes %s, the format prescribes %s [%s]" % (what, i, g, w, part),
                function=fn, file=b["span"]["f"], line=b["span"]["l"], got=[describe(x) for x in got], want=[describe(x) for x in want])
    return False


def check_headers(ctx, rule="WIRE-H"):
    F, R = ctx.facts, ctx.report
    for p in (STORAGE_AS_BYTES, STD_AS_BYTES, EXT_AS_BYTES, ID_HELPER):
        if F.body(p) is None:
            R.violation("ANCHOR", "missing|" + p, "anchor function %s not found" % p, kind="ANCHOR-MISSING")
            return
    # --- storage header: 'DLT\x01', seconds LE, microseconds LE, ECU id (4, NUL padded)
    eng = plain_engine(F)
    outs = eng.call_path(STORAGE_AS_BYTES, eng.symbolic_args(F.body(STORAGE_AS_BYTES), names=["self"]))
    for st, rv in outs:
        got = merge_consts(tokens(rv) or [("?",)]) if isinstance(rv, Cont) else [("?",)]
        want = [("CONSTB", b"DLT\x01"), ("NUM", 4, "LE", "*self.timestamp.seconds"), ("NUM", 4, "LE", "*self.timestamp.microseconds")] + idfield("*self.ecu_id")
        compare(ctx, rule, STORAGE_AS_BYTES, "storage", got, want, "storage header")
    # --- standard header: HTYP, MCNT, LEN (BE), [ECU id], [session id BE], [timestamp BE]
    names = {"dlt::StandardHeader::header_type_byte": ("HTYP(self)", 8), "dlt::StandardHeader::overall_length": ("LEN(self)", 16)}
    eng = plain_engine(F, names)
    eng.key_adts = set()
    outs = eng.call_path(STD_AS_BYTES, eng.symbolic_args(F.body(STD_AS_BYTES), names=["self"]))
    seen = set()
    for st, rv in outs:
        kd = key_dict(st)
        ecu, sid, ts = kd.get("*self.ecu_id"), kd.get("*self.session_id"), kd.get("*self.timestamp")
        if None in (ecu, sid, ts):
            R.violation(rule, STD_AS_BYTES + "|partition", "standard-header writer is not partitioned on the presence of ecu id / session id / timestamp", function=STD_AS_BYTES, kind="UNRECOGNISED-SHAPE")
            continue
        seen.add((ecu, sid, ts))
        want = [("NUM", 1, "1", "HTYP(self)"), ("NUM", 1, "1", "*self.message_counter"), ("NUM", 2, "BE", "LEN(self)")]
        if ecu == "Some":
            want += idfield("*self.ecu_id.Some.0")
        if sid == "Some":
            want.append(("NUM", 4, "BE", "*self.session_id.Some.0"))
        if ts == "Some":
            want.append(("NUM", 4, "BE", "*self.timestamp.Some.0"))
        got = tokens(rv) if isinstance(rv, Cont) and rv.segs is not None else [("?",)]
        compare(ctx, rule, STD_AS_BYTES, "ecu=%s sid=%s ts=%s" % (ecu, sid, ts), got, want, "standard header")
    if len(seen) != 8:
        R.violation(rule, STD_AS_BYTES + "|partitions", "expected 8 presence patterns of the optional standard-header fields, saw %d" % len(seen), function=STD_AS_BYTES, kind="UNRECOGNISED-SHAPE")
    # --- extended header: MSIN, NOAR, APID, CTID
    eng = plain_engine(F)
    outs = eng.call_path(EXT_AS_BYTES, eng.symbolic_args(F.body(EXT_AS_BYTES), names=["self"]))
    for st, rv in outs:
        got = tokens(rv) if isinstance(rv, Cont) and rv.segs is not None else [("?",)]
        msin = got[0] if got else ("?",)
        plain_fields = {"*self.argument_count", "*self.verbose"}
        if not (msin[0] == "NUM" and msin[1] == 1 and msin[3] not in plain_fields and not re.match(r"^\d+$", msin[3])):
            R.violation(rule, EXT_AS_BYTES + "|msin", "the first byte of the extended header is not the message-info byte composed from message type and verbose flag (%s)" % describe(msin), function=EXT_AS_BYTES)
            continue
        want = [msin, ("NUM", 1, "1", "*self.argument_count")] + idfield("*self.application_id") + idfield("*self.context_id")
        compare(ctx, rule, EXT_AS_BYTES, "ext", got, want, "extended header")
    check_id_helper(ctx, rule)


def check_id_helper(ctx, rule="WIRE-H"):
    """put_zero_terminated_string(s, max): the bytes of s, then max - len(s) NUL bytes when max > len(s);
    every caller passes max = 4."""
    F, R = ctx.facts, ctx.report
    b = F.body(ID_HELPER)
    eng = plain_engine(F)
    ranges = []

    def on_call(eng_, st, fr, f, args, site):
        p = f["path"]
        if p.endswith("IntoIterator>::into_iter") or p.endswith("IntoIterator::into_iter"):
            a = args[0]
            if isinstance(a, Struct) and len(a.fields) == 2 and all(isinstance(x, Int) for x in a.fields):
                ranges.append((a.fields[0].lin, a.fields[1].lin, st))
        return None

    eng.on_call = on_call
    from engine.state import State
    from engine.values import Ref
    from engine import cfg as _cfg
    # a generic `s` (e.g. `impl AsRef<str>`): analysed once per instantiation found at the call sites
    gens = [g for g in (b.get("generics") or []) if not g.startswith("const ") and not g.startswith("'")]
    subs = [{}]
    if gens:
        seen_i = {}
        for p_, body_ in F.bodies.items():
            if body_["derived"]:
                continue
            for blk_ in body_["blocks"]:
                f_ = _cfg.callee_of(blk_["term"])
                if f_ and (f_.get("resolved") == ID_HELPER or f_["path"].endswith("BytesMutExt::put_zero_terminated_string")):
                    ta = [a for a in f_.get("resolved_args") or f_.get("args") or [] if isinstance(a, int)]
                    if len(ta) >= len(gens):
                        ta = ta[-len(gens):]
                        seen_i[tuple(F.ty_s(a) for a in ta)] = dict(zip(gens, ta))
        subs = list(seen_i.values()) or [{}]
    outs = []
    for sub in subs:
        st0 = State()
        args = eng.symbolic_args(b, sub=sub, names=["self", "s", "max"])
        self_ty = eng.T.t(b["locals"][1]["ty"]).get("to")
        eng.declare("len(buf0)", 0, eng.len_max)
        st0.locs["obj:self"] = Cont("bytesmut", "buf0", Lin.sym("len(buf0)"), None, (), self_ty)
        args[0] = Ref("obj:self", (), True)
        outs += eng.call_path(ID_HELPER, args, st=st0, sub=sub)
    ok = len(outs) >= 1
    used_fill = False
    mx, ls = Lin.sym("max"), Lin.sym("len(s)")
    for st, rv in outs:
        obj = st.locs.get("obj:self")
        got = tokens(obj) if isinstance(obj, Cont) and obj.segs is not None else None
        if got is None:
            ok = False
            continue
        # the buffer's previous content is unknown: look at what was appended
        sb = "*s" if any(t[0] == "BYTES" and t[1] == "*s" for t in got) else "s"   # `s: &String` is read through one more deref
        ls = Lin.sym("len(%s)" % sb)
        whole = ("BYTES", sb, "0", "len(%s)" % sb)
        app = [t for t in got if t[0] != "BYTES" or t[1] == sb]
        fill_ok = False
        if len(app) == 2 and app[0] == whole and app[1][0] == "FILL" and app[1][1] == "0":
            # resize form: the count must be max - len(s), saturating at 0
            cnt = app[1][2]
            term = eng.sym_terms.get(cnt)
            if cnt == repr(mx.sub(ls)) or (term is not None and term[0] == "sat" and term[1] == "Sub" and term[2] == mx and term[3] == ls):
                fill_ok = True
                used_fill = True
        if not fill_ok and app not in ([whole], [whole, NUL_REP]):
            ok = False
    good_range = (len(ranges) >= 1 and all(lo == Lin.const(0) and hi == mx.sub(ls) and s.holds(mx.sub(ls).sub(Lin.const(1)), eng) for lo, hi, s in ranges)) or (used_fill and not ranges)
    if ok and good_range:
        R.obligation(rule, ID_HELPER + "|pad", "discharged", "appends s, then one NUL per element of 0..(max - len(s)), reached only when max > len(s)")
        R.instance(rule, "id helper: bytes of s followed by max - len(s) NUL bytes")
    else:
        R.violation(rule, ID_HELPER + "|pad", "put_zero_terminated_string does not append `s` followed by exactly max - len(s) NUL bytes (appended: %s; padding ranges: %s)" % ([tokens(st.locs.get("obj:self")) for st, _ in outs][:2], [(repr(a), repr(c)) for a, c, _ in ranges]), function=ID_HELPER, file=b["span"]["f"], line=b["span"]["l"])
    # every caller passes the constant 4
    from engine import cfg
    n = 0
    for p, body in F.bodies.items():
        if body["derived"]:
            continue
        for bi, blk in enumerate(body["blocks"]):
            f = cfg.callee_of(blk["term"])
            if f and (f.get("resolved") == ID_HELPER or f["path"].endswith("BytesMutExt::put_zero_terminated_string")):
                a = blk["term"]["args"][2]
                k = a.get("k")
                n += 1
                if not (k and "int" in k and int(k["int"]) == 4):
                    R.violation(rule, "%s|id-width" % p, "%s writes an id field with width %s; DLT ids are 4 bytes" % (p, k.get("int") if k else "non-constant"), function=p)
    R.instance(rule, "%d id-field writes with width 4" % n)
    if n < 2:
        R.violation(rule, "FLOOR|id-writes", "only %d id-field writes found (floor 2)" % n, kind="ANCHOR-MISSING")


def check_payload(ctx, rule="WIRE-P"):
    F, R = ctx.facts, ctx.report
    b = F.body(PAYLOAD_AS_BYTES)
    if b is None:
        R.violation("ANCHOR", "missing|" + PAYLOAD_AS_BYTES, "anchor function %s not found" % PAYLOAD_AS_BYTES, kind="ANCHOR-MISSING")
        return
    names = {"dlt::ControlType::value": ("CTRL_ID(self)", 8)}
    eng = plain_engine(F, names)
    sub = []

    def on_call(eng_, st, fr, f, args, site, _old=eng.on_call):
        lp = f["resolved"] or f["path"]
        if lp == ARG_AS_BYTES:
            from engine.contracts_coll import new_cont
            order = "?"
            if f["args"]:
                t = eng_.T.t(f["args"][0]) if isinstance(f["args"][0], int) else None
                order = "T" if t and t["k"] == "param" else (t.get("path") if t else "?")
            sub.append(order)
            from engine.contracts import ret_ty
            ln = eng_.fresh_int("arglen", 64, False, 0, eng_.len_max)
            return [(st, new_cont(eng_, "vec", ln.lin, None, (("sub", "Argument::as_bytes", order),), ret_ty(eng_, site), hint="argbytes"))]
        return _old(eng_, st, fr, f, args, site) if _old else None

    eng.on_call = on_call
    outs = eng.call_path(PAYLOAD_AS_BYTES, eng.symbolic_args(b, names=["self"]))
    seen = set()
    for st, rv in outs:
        kd = key_dict(st)
        v = kd.get("*self")
        got = tokens(rv) if isinstance(rv, Cont) and rv.segs is not None else [("?",)]
        seen.add(v)
        if v == "NonVerbose":
            want = [("NUM", 4, "T", "*self.NonVerbose.0"), ("BYTES", "*self.NonVerbose.1", "0", "len(*self.NonVerbose.1)")]
        elif v == "ControlMsg":
            want = [("NUM", 1, "1", "CTRL_ID(self)"), ("BYTES", "*self.ControlMsg.1", "0", "len(*self.ControlMsg.1)")]
        elif v == "Verbose":
            want = [("REP", (("SUB", "'Argument::as_bytes'", "'T'"),))]
            if untracked(got) and all(o == "T" for o in sub):
                # the arguments are concatenated through an iterator adaptor chain the engine does not follow: the
                # layout is not tracked; what is decided is that every argument is serialised in the payload's order T
                R.instance(rule, "Verbose payload: concatenation not tracked (iterator chain); every Argument::as_bytes call uses the payload's byte order")
                R.obligation(rule, PAYLOAD_AS_BYTES + "|layout|Verbose|order-only", "discharged", "arguments serialised with the payload's byte order parameter")
                continue
        elif v == "NetworkTrace":
            ok = len(got) == 1 and got[0][0] == "REP" and len(got[0][1]) == 3
            if ok:
                a, c, d = got[0][1]
                ok = a[:3] == ("NUM", 4, "T") and a[3] == str(1 << 10) and c[:3] == ("NUM", 2, "T") and c[3].startswith("len") and d[0] == "BYTES"
            if ok:
                R.obligation(rule, PAYLOAD_AS_BYTES + "|layout|NetworkTrace", "discharged", "per slice: raw type-info word, u16 length and the bytes, all in message order")
                R.instance(rule, "network trace payload: per slice NUM4[T]=RAWD flag, NUM2[T]=len, bytes")
            elif untracked(got):
                R.instance(rule, "network trace payload: layout not tracked by the engine (not decided here; byte order by ORD-1)")
            else:
                R.violation(rule, PAYLOAD_AS_BYTES + "|layout|NetworkTrace", "network-trace payload is not written as (raw type-info word, u16 length, bytes) per slice in message order: %s" % (got,), function=PAYLOAD_AS_BYTES, file=b["span"]["f"], line=b["span"]["l"])
            continue
        else:
            R.violation(rule, PAYLOAD_AS_BYTES + "|partition", "payload writer exit not partitioned by payload kind", function=PAYLOAD_AS_BYTES, kind="UNRECOGNISED-SHAPE")
            continue
        compare(ctx, rule, PAYLOAD_AS_BYTES, v, got, want, "%s payload" % v)
    if seen != {"Verbose", "NonVerbose", "ControlMsg", "NetworkTrace"}:
        R.violation(rule, PAYLOAD_AS_BYTES + "|kinds", "payload kinds seen: %s" % sorted(map(str, seen)), function=PAYLOAD_AS_BYTES, kind="UNRECOGNISED-SHAPE")


def untracked(toks):
    """The engine lost the segment structure (buffer filled through code it does not model): nothing to compare."""
    return toks == [("?",)] or (len(toks) == 1 and toks[0][0] == "BYTES" and (str(toks[0][1]).startswith(("join(", "buf#", "ret#", "tmp", "hv", "copy(hv", "copy(join")))) or any(t[0] == "?" for t in toks)


def check_message(ctx, rule="WIRE-M"):
    """Message::as_bytes = [storage header] ++ standard header ++ [extended header] ++ payload in the order selected by
    header.endianness."""
    F, R = ctx.facts, ctx.report
    b = F.body(MSG_AS_BYTES)
    if b is None:
        R.violation("ANCHOR", "missing|" + MSG_AS_BYTES, "anchor function %s not found" % MSG_AS_BYTES, kind="ANCHOR-MISSING")
        return
    eng = plain_engine(F)
    eng.key_adts = {"dlt::Endianness"}

    def on_call(eng_, st, fr, f, args, site):
        lp = f["resolved"] or f["path"]
        tag = {STORAGE_AS_BYTES: "storage", STD_AS_BYTES: "standard", EXT_AS_BYTES: "extended", PAYLOAD_AS_BYTES: "payload"}.get(lp)
        if lp == "dlt::StandardHeader::overall_length":
            return [(st, eng_.named_int("LEN(self)", 16, False))]
        if tag is None:
            return None
        from engine.contracts import ret_ty
        from engine.contracts_coll import new_cont
        order = ""
        if tag == "payload" and f["args"] and isinstance(f["args"][0], int):
            order = eng_.T.t(f["args"][0]).get("path", "?").split("::")[-1]
        src = args[0]
        srcname = "?"
        if isinstance(src, Ref):
            # which field of the message is being serialised
            fields = [x["name"] for x in F.adts["dlt::Message"]["variants"][0]["fields"]]
            if src.loc == "obj:self" and src.path and src.path[0][0] == "f" and src.path[0][1] < len(fields):
                srcname = "self." + fields[src.path[0][1]]
            else:
                srcname = "%s:%s" % (src.loc, src.path)
        ln = eng_.fresh_int("sublen", 64, False, 0, eng_.len_max)
        return [(st, new_cont(eng_, "vec", ln.lin, None, (("sub", tag, order, srcname),), ret_ty(eng_, site), hint=tag))]

    from engine.values import Ref
    from engine.state import State
    import itertools
    eng.on_call = on_call
    eng.merge_returns = True
    seen = set()
    # the rule constructs a message of each of the 8 shapes (storage header x extended header x endianness), so the
    # verdict does not depend on how (or in which helper, or through which dispatch mechanism) the writer branches
    for sh, eh, en in itertools.product(("Some", "None"), ("Some", "None"), ("Big", "Little")):
        st0 = State()
        args = eng.symbolic_args(b, names=["self"])
        a0 = eng.M.force(st0, args[0])
        ok = isinstance(a0, Ref) and restrict(eng, st0, a0.loc, ["storage_header"], sh) and restrict(eng, st0, a0.loc, ["extended_header"], eh) and restrict(eng, st0, a0.loc, ["header", "endianness"], en)
        if not ok:
            R.violation(rule, MSG_AS_BYTES + "|partition", "cannot construct a Message input with storage_header=%s extended_header=%s endianness=%s" % (sh, eh, en), function=MSG_AS_BYTES, kind="UNRECOGNISED-SHAPE")
            continue
        outs = eng.call_path(MSG_AS_BYTES, [a0], st=st0)
        if not outs:
            R.violation(rule, MSG_AS_BYTES + "|partition", "no exit of the message writer for storage_header=%s extended_header=%s endianness=%s" % (sh, eh, en), function=MSG_AS_BYTES, kind="UNRECOGNISED-SHAPE")
            continue
        seen.add((sh, eh, en))
        want = []
        if sh == "Some":
            want.append(("SUB", "'storage'", "''", "'self.storage_header'"))
        want.append(("SUB", "'standard'", "''", "'self.header'"))
        if eh == "Some":
            want.append(("SUB", "'extended'", "''", "'self.extended_header'"))
        want.append(("SUB", "'payload'", "'%s'" % ("BigEndian" if en == "Big" else "LittleEndian"), "'self.payload'"))
        for st, rv in outs:
            got = tokens(rv) if isinstance(rv, Cont) and rv.segs is not None else [("?",)]
            g2 = [t[:4] for t in got]
            compare(ctx, rule, MSG_AS_BYTES, "storage=%s ext=%s endianness=%s" % (sh, eh, en), g2, want, "message")
    if len(seen) != 8:
        R.violation(rule, MSG_AS_BYTES + "|partitions", "expected 8 message shapes (storage x extended x endianness), saw %d" % len(seen), function=MSG_AS_BYTES, kind="UNRECOGNISED-SHAPE")


# ====================================================================== shape-driven inputs
def restrict(eng, st, loc, fields, choice):
    """Restrict the value reached from location `loc` through the named struct fields to one enum variant (choice =
    variant name) or one boolean value (choice = bool).  Lets a rule drive the partition itself - it constructs an
    input of each shape - instead of depending on which conditions the code happens to branch on."""
    F = eng.F
    path = ()
    v = st.locs.get(loc)
    if isinstance(v, Top):
        v = eng.M.force(st, v)
        st.locs[loc] = v
    cur = v
    for fn in fields:
        if isinstance(cur, Top):
            cur = eng.M.force(st, cur)
            eng.M.write_path(st, loc, path, cur)
        if not isinstance(cur, Struct) or not isinstance(cur.ty, int):
            return False
        a = eng.T.adt(cur.ty)
        names = [f["name"] for f in a["variants"][0]["fields"]]
        if fn not in names:
            return False
        i = names.index(fn)
        path = path + (("f", i),)
        cur = cur.fields[i]
    if isinstance(cur, Top):
        cur = eng.M.force(st, cur)
    if isinstance(choice, bool):
        eng.M.write_path(st, loc, path, Bool(("const", choice)))
        return True
    if isinstance(cur, Enum):
        keep = [(vi, fs) for vi, fs in cur.variants if eng.T.variant_name(cur.ty, vi) == choice]
        if not keep:
            return False
        eng.M.write_path(st, loc, path, Enum(cur.ty, tuple(keep), cur.name))
        return True
    return False
