"""C04 — a successful parse consumes exactly the declared message and makes progress (DESIGN §4/C04).

CONS   on every Ok exit of dlt_message_intern (per partition: storage mode x find outcome x HTYP flag bits x
       verbose bit x payload branch) the remainder is input[A+L..] where A is the offset of the standard header
       (0, or position of the first pattern + 16) and L the big-endian u16 length field at A+2 — a linear identity
       computed from the nom contracts; FilteredOut(n): n = L - (4 + 4*WEID + 4*WSID + 4*WTMS + 10*UEH);
       progress: A + L >= 4.  dlt_consume_msg: remainder = input[16+L..], consumed = 16 + L.
FLOW   the filter argument of dlt_message_intern reaches only `filtered_out`.
"""
from engine import cfg
from engine.lin import Lin
from engine.values import Enum, Int, Slice, Struct, Top
from rules import lib_parse
from rules.common import loc_of
from rules.spec import dlt_spec

LEVEL = "proof"
FN = lib_parse.INTERN
CONSUME = "parse::dlt_consume_msg"


def spec_header_len(bits):
    hb = dlt_spec.HTYP_BITS
    need = [hb["UEH"], hb["WEID"], hb["WSID"], hb["WTMS"]]
    if any(b not in bits for b in need):
        return None
    return 4 + 10 * bits[hb["UEH"]] + 4 * bits[hb["WEID"]] + 4 * bits[hb["WSID"]] + 4 * bits[hb["WTMS"]]


def spec_header_len_min(bits):
    """Lower bound of the header length over every completion of the header-type bits not tested on this path."""
    hb = dlt_spec.HTYP_BITS
    return 4 + 10 * bits.get(hb["UEH"], 0) + 4 * bits.get(hb["WEID"], 0) + 4 * bits.get(hb["WSID"], 0) + 4 * bits.get(hb["WTMS"], 0)


def run(ctx):
    F, R = ctx.facts, ctx.report
    R.explanation = ("CONS: every Ok exit of dlt_message_intern returns input[A+L..] (A = start of the standard header after skipped junk and the 16-byte storage header, "
                     "L = declared length), FilteredOut carries L - header length, A+L >= 4 (strict suffix); dlt_consume_msg returns input[16+L..] and reports 16+L; "
                     "FLOW: the filter configuration reaches only filtered_out.")
    R.not_decided = ["library parsers are trusted to honour the nom contract (remainder = input minus consumed)"]
    run_cons(ctx)


def run_cons(ctx):
    F, R = ctx.facts, ctx.report
    b = F.body(FN)
    if b is None or F.body(CONSUME) is None:
        R.violation("ANCHOR", "missing|" + FN, "anchor function %s / %s not found" % (FN, CONSUME), kind="ANCHOR-MISSING")
        return
    eng, outs = lib_parse.level1(ctx)
    ilen = Lin.sym("len(input)")
    fl, ln = b["span"]["f"], b["span"]["l"]
    n_ok = 0
    kinds = {}
    for st, rv in outs:
        if not isinstance(rv, Enum):
            R.violation("CONS", FN + "|shape", "exit value is not an IResult", function=FN, kind="UNRECOGNISED-SHAPE")
            continue
        for vi, fs in rv.variants:
            if vi != 0:
                continue
            st = lib_parse.ok_state(eng, st, rv) or st
            tup = fs[0]
            rest, pm = tup.fields
            wsh = lib_parse.key_flag(st, "with_storage_header")
            A, Lname, hsym = lib_parse.header_layout(eng, st)
            pmv = sorted(eng.T.variant_name(pm.ty, v) for v, _ in pm.variants) if isinstance(pm, Enum) else ["?"]
            bits = lib_parse.htyp_bits(st, hsym) if hsym else {}
            verbose = None
            for k in st.key:
                if k[0] == "bit" and k[1] != hsym and k[2] == 0:
                    verbose = k[3]
            part = "storage=%s htyp=%s verbose=%s result=%s" % (wsh, "".join(str(bits.get(i, "?")) for i in range(5)), verbose, "|".join(pmv))
            if A is None or Lname is None:
                # no header was read on this path: only the 'no further storage header' exit may do that
                none_exit = isinstance(rest, Slice) and rest.len == Lin.const(0) and any(k == ("find", "none") for k in st.key)
                if none_exit:
                    R.instance("CONS.nohdr", "no storage-header pattern in the input: Ok((empty, %s))" % pmv)
                    continue
                R.violation("CONS", FN + "|no-length-read|" + "|".join(pmv), "an Ok exit (%s) is reached without reading the length field" % part, function=FN, file=fl, line=ln, kind="UNRECOGNISED-SHAPE")
                continue
            n_ok += 1
            L = Lin.sym(Lname)
            for v in pmv:
                kinds[v] = kinds.get(v, 0) + 1
            # A is 0 (no storage header) or found + 16
            if wsh is False:
                okA = A == Lin.const(0)
            else:
                s = A.sub(Lin.const(16)).single_sym()
                okA = s is not None and s.startswith("found#") and A == Lin.sym(s).add(Lin.const(16))
            if not okA:
                R.violation("CONS", FN + "|header-start|" + part, "the standard header is parsed at offset %s of the input (expected 0 without storage header, first pattern + 16 with one) [%s]" % (A, part), function=FN, file=fl, line=ln)
                continue
            want_off = A.add(L)
            good = isinstance(rest, Slice) and rest.base == "input" and rest.off == want_off and rest.len == ilen.sub(want_off)
            if good:
                R.obligation("CONS", "%s|remainder|%s" % (FN, part), "discharged", "off(rest) = %s = header start + declared length" % want_off)
            else:
                got = "input[%s..]" % rest.off if isinstance(rest, Slice) else repr(rest)[:80]
                desc = "data dependent" if isinstance(rest, Slice) and any(s.startswith(("phi(", "cnt_total", "cut_consumed")) for s in rest.off.syms()) else "different"
                R.violation("CONS", "%s|remainder|%s|%s" % (FN, "|".join(pmv), "verbose=%s" % verbose),
                            "an Ok(%s) exit returns the remainder %s, which is %s from input[%s..] = the end of the message according to its own length field [%s]" % ("|".join(pmv), got, desc, want_off, part),
                            function=FN, file=fl, line=ln, partition=part)
            # progress
            if st.holds(want_off.sub(Lin.const(4)), eng):
                R.obligation("CONS", "%s|progress|%s" % (FN, part), "discharged", "A + L >= 4: the remainder is a strict suffix")
            else:
                R.violation("CONS", "%s|progress|%s" % (FN, "|".join(pmv)), "an Ok exit may consume fewer than 4 bytes (A + L >= 4 not entailed) [%s]" % part, function=FN, file=fl, line=ln)
            # FilteredOut(n)
            if pmv == ["FilteredOut"]:
                n = pm.variants[0][1][0]
                H = spec_header_len(bits)
                if H is None:
                    R.violation("CONS", "%s|filtered-count|unresolved" % FN, "cannot resolve the header flags on a FilteredOut exit [%s]" % part, function=FN, kind="UNRECOGNISED-SHAPE")
                elif isinstance(n, Int) and n.lin == L.sub(Lin.const(H)):
                    R.obligation("CONS", "%s|filtered-count|%s" % (FN, part), "discharged", "FilteredOut(%s) = L - %d" % (n.lin, H))
                else:
                    R.violation("CONS", "%s|filtered-count" % FN, "FilteredOut carries %s instead of the payload length L - %d [%s]" % (getattr(n, "lin", n), H, part), function=FN, file=fl, line=ln)
    for _ in range(n_ok):
        R.instance("CONS", "ok exit")
    for k, v in sorted(kinds.items()):
        R.instance("CONS.kinds", "%s: %d exit partition(s)" % (k, v))
    R.floor("CONS", 64)
    if "Item" not in kinds or "FilteredOut" not in kinds:
        R.violation("CONS", FN + "|kinds", "expected Item and FilteredOut exits, found %s" % sorted(kinds), function=FN, kind="UNRECOGNISED-SHAPE")
    # ---- dlt_consume_msg
    e2, outs2 = lib_parse.standalone(ctx, CONSUME)
    b2 = F.body(CONSUME)
    n2 = 0
    for st, rv in outs2:
        if not isinstance(rv, Enum):
            continue
        for vi, fs in rv.variants:
            if vi != 0:
                continue
            tup = fs[0]
            rest, cnt = tup.fields
            if isinstance(cnt, Top):
                cnt = e2.M.force(st, cnt)
            names = sorted(e2.T.variant_name(cnt.ty, v) for v, _ in cnt.variants) if isinstance(cnt, Enum) else ["?"]
            if names == ["None"]:
                if st.holds(Lin.sym("len(input)").neg(), e2) and isinstance(rest, Slice) and rest.off == Lin.const(0):
                    R.instance("CONS.consume", "empty input: Ok((input, None))")
                else:
                    R.violation("CONS", CONSUME + "|none", "dlt_consume_msg reports 'no message' on a non-empty input", function=CONSUME, file=b2["span"]["f"], line=b2["span"]["l"])
                continue
            A, Lname, hsym = lib_parse.header_layout(e2, st)
            if Lname is None or A != Lin.const(16):
                R.violation("CONS", CONSUME + "|header-start", "dlt_consume_msg reads the standard header at offset %s (expected 16)" % A, function=CONSUME, file=b2["span"]["f"], line=b2["span"]["l"])
                continue
            n2 += 1
            L = Lin.sym(Lname)
            want = Lin.const(16).add(L)
            c = cnt.variants[0][1][0] if isinstance(cnt, Enum) else None
            good = isinstance(rest, Slice) and rest.base == "input" and rest.off == want and rest.len == ilen.sub(want) and isinstance(c, Int) and c.lin == want
            if good:
                R.obligation("CONS", CONSUME + "|skip|%d" % n2, "discharged", "remainder = input[16+L..], consumed = 16+L")
                R.instance("CONS.consume", "Ok((input[16+L..], Some(16+L)))")
            else:
                R.violation("CONS", CONSUME + "|skip", "dlt_consume_msg returns input[%s..] and reports %s; expected input[16+L..] and 16+L" % (getattr(rest, "off", "?"), getattr(c, "lin", c)), function=CONSUME, file=b2["span"]["f"], line=b2["span"]["l"])
    R.floor("CONS.consume", 2)
    flow_filter(ctx, b)


def flow_filter(ctx, b):
    """FLOW: local _2 (filter_config_opt) and its copies are used only as arguments of parse::filtered_out."""
    F, R = ctx.facts, ctx.report
    tracked = {2}
    changed = True
    uses = []
    while changed:
        changed = False
        uses = []
        for bi, blk in enumerate(b["blocks"]):
            if blk["cleanup"]:
                continue
            for s in blk["stmts"]:
                if s["k"] != "assign":
                    continue
                for o in cfg.rv_operands(s["rv"]):
                    p = o.get("c") or o.get("m")
                    if p is not None and p["l"] in tracked:
                        if s["rv"]["k"] == "use" and not s["p"]["p"]:
                            if s["p"]["l"] not in tracked:
                                tracked.add(s["p"]["l"])
                                changed = True
                        else:
                            uses.append(("stmt", bi, s["sp"]))
                if s["rv"]["k"] in ("ref", "rawptr", "discr", "copyderef") and s["rv"]["p"]["l"] in tracked:
                    uses.append(("stmt", bi, s["sp"]))
            t = blk["term"]
            for o in cfg.term_operands(t):
                p = o.get("c") or o.get("m")
                if p is not None and p["l"] in tracked:
                    f = cfg.callee_of(t)
                    if t["k"] == "call" and f and f["path"] == "parse::filtered_out":
                        uses.append(("filtered_out", bi, blk["sp"]))
                    else:
                        uses.append(("term", bi, blk["sp"]))
    n = 0
    for kind, bi, sp in uses:
        if kind == "filtered_out":
            n += 1
            R.instance("FLOW", "filter_config_opt passed to filtered_out (bb%d)" % bi)
        else:
            fl, ln = loc_of({"sp": sp})
            R.violation("FLOW", FN + "|filter-use|bb-other", "the filter configuration is used outside the call of filtered_out: the presence of a filter could influence parsing or the position of the next message", function=FN, file=fl, line=ln)
    R.floor("FLOW", 1)
