"""C03 — no byte sequence can crash the slice parsers or the use of what they return (DESIGN §4/C03).

PANIC   every panic-capable site (Assert terminators, range indexing, split_at, byteorder reads, debug_assert,
        deny-listed callees) reachable from the slice-level entry points is discharged for unconstrained inputs:
        dlt_message (both storage modes, filter present/absent) analysed in context through dlt_message_intern,
        the argument parser dlt_argument analysed stand-alone (it is called on arbitrary sub-slices), dlt_consume_msg,
        skip_storage_header, forward_to_next_storage_header, dlt_zero_terminated_string, construct_arguments.
NOMC    assume/guarantee for the modular cut: dlt_argument returns a suffix of its input on Ok.
WRITER  Message::{as_bytes, byte_len}, Argument::{len, valid, as_bytes} discharged under the interface invariant
        I(Message): every name/unit/string/raw length <= 65534 and overall_length() fits 16 bits.
IMSG    guarantee side of I(Message) for parser results: every container inside an Argument returned by
        dlt_argument is no longer than its input minus the 4-byte type info, dlt_argument is only applied to
        sub-slices of the declared payload (<= 65531 bytes), and overall_length() of the returned header was itself
        discharged in context (validated_payload_length).
"""
import os

from engine import cfg
from engine.interp import Budget, Engine
from engine.lin import Lin
from engine.values import Arr, Cont, Enum, Int, Ref, Slice, Struct, Top
from rules import lib_panic, lib_parse
from rules.common import deny_class, local_callsites, loc_of

LEVEL = "proof"
ENTRIES = ["parse::dlt_message", "parse::dlt_consume_msg", "parse::skip_storage_header", "parse::forward_to_next_storage_header", "parse::dlt_zero_terminated_string", "parse::construct_arguments"]
WRITER = ["dlt::Message::as_bytes", "dlt::Message::byte_len", "dlt::Argument::len", "dlt::Argument::valid", "dlt::Argument::as_bytes", "dlt::Argument::is_empty"]
I_MAX_STR = 65534


def conts(eng, st, v, path="", depth=0, out=None):
    """All owned containers (String / Vec / BytesMut) inside an abstract value, with their access path."""
    if out is None:
        out = []
    if depth > 8:
        return out
    if isinstance(v, Top):
        v = eng.M.force(st, v)
    if isinstance(v, Cont):
        out.append((path, v))
        if v.elem is not None:
            conts(eng, st, v.elem, path + "[]", depth + 1, out)
    elif isinstance(v, Struct):
        for i, f in enumerate(v.fields):
            conts(eng, st, f, "%s.%d" % (path, i), depth + 1, out)
    elif isinstance(v, Enum):
        for vi, fs in v.variants:
            for i, f in enumerate(fs):
                conts(eng, st, f, "%s@%s.%d" % (path, vi, i), depth + 1, out)
    elif isinstance(v, Arr):
        for i, f in enumerate(v.elems):
            conts(eng, st, f, "%s[%d]" % (path, i), depth + 1, out)
    return out


def run(ctx):
    F, R, cg = ctx.facts, ctx.report, ctx.cg
    R.explanation = ("PANIC over everything reachable from the slice-level entry points with unconstrained inputs (in-context analysis of dlt_message_intern, "
                     "modular analysis of dlt_argument under the nom suffix contract, which is verified on its own exits); writer-side entry points under the interface invariant I(Message), "
                     "whose guarantee side is verified on the parser's results.")
    R.not_decided = ["panics inside dependencies (nom, memchr, bytes, log, format!) — trusted total", "allocation failure, stack depth (no recursion in the reachable set)"]
    for e in ENTRIES + WRITER + [lib_parse.INTERN] + list(lib_parse.CUTS):
        if F.body(e) is None:
            R.violation("ANCHOR", "missing|" + e, "anchor function %s not found" % e, kind="ANCHOR-MISSING")
            return
    # ---- deny-listed callees over the whole reachable set (parser + writer)
    reach = sorted(p for p in cg.local_reachable(ENTRIES + WRITER) if not F.body(p)["derived"])
    n_calls = 0
    for p in reach:
        R.fn(p)
        for bi, f, t, blk in local_callsites(F, F.body(p)):
            n_calls += 1
            d = deny_class(cfg.fn_target(f)) or deny_class(f["path"])
            if d:
                from rules.common import from_macro, deny_exempt
                if deny_exempt(f, t):
                    continue
                if from_macro(blk["sp"], {"debug_assert", "debug_assert_eq", "debug_assert_ne", "assert", "assert_eq", "unreachable", "panic"}):
                    continue  # enumerated as a PANIC obligation by the engine
                fl, ln = loc_of(blk)
                R.violation("CALL-DENY", "%s|%s" % (p, f["path"]), "reachable call of panicking callee %s (%s)" % (f.get("s", f["path"]), d), file=fl, line=ln, function=p, call_path=cg.path_to(ENTRIES + WRITER, p))
    R.instance("CALL-DENY", "%d call sites in %d reachable functions scanned against the deny-list" % (n_calls, len(reach)))
    cycles = []
    try:
        from rules import lib_loop
        cycles = lib_loop.recursion(cg, set(reach))
    except Exception:
        pass
    for c in cycles:
        R.violation("REC", "recursion|" + "|".join(sorted(c)), "recursive cycle among %s" % ", ".join(sorted(c)), function=sorted(c)[0])
    # ---- the independent analyses run in forked workers (the facts are shared copy-on-write)
    tasks = [("level1", None)] + [("entry", e) for e in ENTRIES] + [("cut", c) for c in lib_parse.CUTS] + [("writer", p) for p in WRITER]
    results = run_parallel(ctx, tasks)
    used = {}
    for (kind, arg), res in zip(tasks, results):
        if "error" in res:
            R.violation("PANIC", "%s|%s|error" % (kind, arg), "analysis failed: %s" % res["error"], function=arg or lib_parse.INTERN, kind="UNRECOGNISED-SHAPE")
            continue
        rule = "WRITER" if kind == "writer" else "PANIC"
        lib_panic.report_obs(ctx, res["obs"], res["analysed"], rule, entry=arg or lib_parse.INTERN)
        for k, v in res.get("cut_uses", {}).items():
            used[k] = used.get(k, 0) + v
        for v in res.get("violations", []):
            R.violation(*v["args"], **v["kw"])
        for o in res.get("obligations", []):
            R.obligation(*o)
        for inst in res.get("instances", []):
            R.instance(*inst)
    # ---- COVER: every handwritten function or closure reachable from the entry points was visited by one of the
    # analyses; what the in-context analyses did not reach (a closure handed to a library adaptor that is not evaluated,
    # a helper only used by such a closure) is analysed stand-alone with unconstrained arguments
    seen_fns = set()
    for res in results:
        seen_fns.update(res.get("analysed", []))
    unseen = [p for p in reach if p not in seen_fns and F.body(p) is not None]
    if unseen:
        # modular pass of lib_panic (handles fold accumulators by the counter axiom, rescues private helpers in context);
        # what is reachable from the writer-side entry points only is analysed under the same interface invariant
        # I(Message) as those entry points
        parser_side = set(cg.local_reachable(ENTRIES))
        un_p = [p for p in unseen if p in parser_side]
        un_w = [p for p in unseen if p not in parser_side]
        if un_p:
            lib_panic.check(ctx, [], un_p, rule="PANIC", modular=True, fold_scope=reach)
        if un_w:
            def setup(eng):
                w = writer_engine(F, R, "stand-alone writer-side closures / helpers")
                eng.len_max, eng.on_call, eng.merge_returns = w.len_max, w.on_call, True
            lib_panic.check(ctx, [], un_w, rule="WRITER", modular=True, fold_scope=reach, budget=3000000, engine_setup=setup)
    R.instance("COVER", "%d reachable handwritten functions / closures: %d visited in context, %d analysed stand-alone" % (len(reach), len(reach) - len(unseen), len(unseen)))
    for c in lib_parse.CUTS:
        R.instance("NOMC", "%s: weak parser contract assumed at %d call site evaluation(s)" % (c, used.get(c, 0)))
    R.assumptions.append("I(Message): every String/Vec inside the message has length <= %d; header.overall_length() does not overflow u16" % I_MAX_STR)
    R.floor("NOMC", 2)
    R.floor("PANIC", 40)
    R.floor("WRITER", 100)
    R.floor("IMSG", 4)


_CTX = None


def run_parallel(ctx, tasks):
    import multiprocessing as mp
    global _CTX
    _CTX = ctx
    n = min(len(tasks), max(1, (os.cpu_count() or 2) - 1))
    if os.environ.get("VERIF_SERIAL"):
        return [worker(t) for t in tasks]
    with mp.get_context("fork").Pool(n) as pool:
        return pool.map(worker, tasks, chunksize=1)


class Collect:
    """Stand-in for the report inside a worker: records what the rule code reports, picklable."""

    def __init__(self):
        self.out = {"violations": [], "obligations": [], "instances": []}

    def violation(self, *a, **kw):
        self.out["violations"].append({"args": a, "kw": kw})

    def obligation(self, *a, **kw):
        self.out["obligations"].append(a)

    def instance(self, *a):
        self.out["instances"].append(a)


def worker(task):
    kind, arg = task
    ctx = _CTX
    F = ctx.facts
    try:
        class Sub:
            pass

        sub = Sub()
        sub.facts, sub.prop, sub.cg = F, ctx.prop, None
        col = Collect()
        sub.report = col
        if kind == "level1":
            eng, outs = lib_parse.level1(sub)
            imsg_level1(sub, eng)
        elif kind == "entry":
            cuts = lib_parse.CUTS + ((lib_parse.INTERN,) if arg == "parse::dlt_message" else ())
            eng, outs = lib_parse.standalone(sub, arg, cuts=cuts, plain=(arg == "parse::construct_arguments"))
        elif kind == "cut":
            eng = lib_parse.check_weak_contract(sub, arg, "NOMC")
            imsg_argument(sub, eng, arg)
        else:
            eng = writer_engine(F, col, arg)
            eng.call_path(arg, eng.symbolic_args(F.body(arg)))
        res = dict(col.out)
        res["obs"] = lib_panic.export(eng)
        res["analysed"] = sorted(eng.analysed)
        res["cut_uses"] = dict(eng.cut_uses)
        return res
    except Budget as ex:
        return {"error": "analysis budget exceeded: %s" % ex}
    except Exception as ex:  # fail closed in the parent
        import traceback
        return {"error": "%r\n%s" % (ex, traceback.format_exc()[-1500:])}


def writer_engine(F, R, p):
    eng = Engine(F, budget=3000000)
    eng.merge_returns = True
    eng.len_max = I_MAX_STR
    seen = []

    def on_call(eng_, st, fr, f, args, site):
        lp = f["resolved"] or f["path"]
        if lp == "dlt::StandardHeader::overall_length":
            if not seen:
                seen.append(1)
                R.instance("WRITER.assume", "%s: StandardHeader::overall_length() assumed to fit 16 bits (I(Message), guaranteed for parser results by IMSG)" % p)
            return [(st, eng_.fresh_int("overall_length", 16, False))]
        return None

    eng.on_call = on_call
    return eng


def imsg_level1(ctx, eng1):
    """Guarantee side of I(Message), part (a) and (c), from the in-context analysis."""
    R = ctx.report
    obs = [o for k, o in eng1.obligations.items() if k.startswith("dlt::StandardHeader::overall_length|Overflow")]
    if obs and all(o.status == "discharged" for o in obs):
        R.obligation("IMSG", "header|overall_length-fits", "discharged", "%d overflow obligation(s) of overall_length() discharged on the parsed header in the context of validated_payload_length" % len(obs))
        R.instance("IMSG", "returned header: overall_length() fits 16 bits (checked in context)")
    else:
        R.violation("IMSG", "header|overall_length-fits", "overall_length() of the parsed header is not shown to fit 16 bits in the parser's context, so byte_len()/as_bytes() of a returned message may overflow", function="dlt::StandardHeader::overall_length")
    sites = eng1.cut_sites
    bad = [s for s in sites if not s[0]]
    R.instance("IMSG", "dlt_argument applied at %d evaluated call site(s) of the in-context analysis" % len(sites))
    if not sites:
        R.violation("IMSG", "argument-input|none", "dlt_argument is not reached from dlt_message_intern in the in-context analysis", kind="UNRECOGNISED-SHAPE")
    elif bad:
        R.violation("IMSG", "argument-input|unbounded", "dlt_argument is applied to a slice whose length (%s) is not bounded by the declared payload (<= 65531 bytes): a parsed name/string can reach 65535 bytes and `len as u16 + 1` panics when the message is re-serialised" % (bad[0][2],), function=bad[0][1])
    else:
        R.obligation("IMSG", "argument-input|bounded", "discharged", "every input slice of dlt_argument has length <= %d" % (I_MAX_STR + 4))


def imsg_argument(ctx, eng, c):
    """Guarantee side of I(Message), part (b): containers inside a returned Argument are bounded by the input."""
    F, R = ctx.facts, ctx.report
    if eng is None:
        return
    eng, outs = lib_parse.standalone(ctx, c)
    nm = lib_parse.first_arg_name(F, c)
    ilen = Lin.sym("len(%s)" % nm)
    b = F.body(c)
    n = 0
    for st, rv in outs:
        if not isinstance(rv, Enum):
            continue
        for vi, fs in rv.variants:
            if vi != 0:
                continue
            st = lib_parse.ok_state(eng, st, rv)
            if st is None:
                continue
            tup = fs[0]
            if isinstance(tup, Top):
                tup = eng.M.force(st, tup)
            arg = tup.fields[1]
            for path, cont in conts(eng, st, arg):
                n += 1
                if st.holds(ilen.sub(cont.len).sub(Lin.const(4)), eng):
                    R.obligation("IMSG", "%s|bounded|%s|%d" % (c, path, n), "discharged", "len(%s) <= len(input) - 4" % path)
                else:
                    R.violation("IMSG", "%s|unbounded|%s" % (c, cont.kind), "a %s inside the Argument returned by dlt_argument (path %s, length %s) is not bounded by the bytes of its input: re-serialising it (`len as u16 + 1`) can overflow" % (cont.kind, path, cont.len), function=c, file=b["span"]["f"], line=b["span"]["l"])
    for _ in range(min(n, 8)):
        R.instance("IMSG", "container bounded by input")
