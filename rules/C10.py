"""C10 — statistics count every message once per id and merge like a sum (DESIGN §4/C10)."""
import re

from engine import cfg
from rules import lib_loop
from rules.common import loc_of

LEVEL = "other"
FN = "statistics::collect_statistics"


def run(ctx):
    F, R = ctx.facts, ctx.report
    R.explanation = "LOOP-1: in collect_statistics every iteration calls next_message_slice exactly once and collect_statistic exactly once; table/flow clauses via the engine; CALL-R / ALG / DISP: the blocking reader the scan pulls from reads only through read_exact on its BufReader and delivers every complete message (shared with C07)."
    R.not_decided = ["FxHashMap semantics (trusted)", "order independence of merging (follows from commutativity of + and ||, argued not mechanised)"]
    b = F.body(FN)
    if b is None:
        R.violation("ANCHOR", "missing|" + FN, "anchor function %s not found" % FN, kind="ANCHOR-MISSING")
        return
    R.fn(FN)
    loops = cfg.natural_loops(b)
    if len(loops) != 1:
        R.violation("LOOP-1", FN + "|loops", "expected exactly one scan loop, found %d" % len(loops), function=FN, kind="UNRECOGNISED-SHAPE")
        return
    lp = loops[0]
    fl, ln = loc_of(b["blocks"][lp["header"]])
    for name, pred in (("next_message_slice", lambda f: f["path"].endswith("::next_message_slice")),
                       ("collect_statistic", lambda f: f.get("trait") == "statistics::StatisticCollector" and f.get("name") == "collect_statistic")):
        mm = lib_loop.path_call_counts(b, lp, pred)
        R.instance("LOOP-1", "per-iteration calls of %s: min=%s max=%s" % (name, mm[0] if mm else None, mm[1] if mm else None))
        if mm is None or mm[0] != 1 or mm[1] != 1:
            R.violation("LOOP-1", FN + "|" + name, "an iteration of the scan loop can call %s %s..%s times (must be exactly once per message)" % (name, mm[0] if mm else "?", mm[1] if mm else "?"), file=fl, line=ln, function=FN)
    # outside the loop neither may be called
    for bi, blk in enumerate(b["blocks"]):
        if blk["cleanup"] or bi in lp["blocks"]:
            continue
        f = cfg.callee_of(blk["term"])
        if f and (f["path"].endswith("::next_message_slice") or f.get("name") == "collect_statistic"):
            R.violation("LOOP-1", FN + "|outside|" + f["path"], "%s is called outside the scan loop" % f["s"], function=FN)
    R.floor("LOOP-1", 2)
    # LOOP-S: nothing but the reader and the collector carries a value from one message to the next
    stale = lib_loop.stale_uses(b, lp)
    names = {}
    for d in b.get("debug", []):
        if not d["p"]["p"]:
            names.setdefault(d["p"]["l"], d["name"])
    for l, bi, sp in stale:
        f2, l2 = loc_of({"sp": sp}) if sp else (fl, ln)
        R.violation("LOOP-S", "%s|stale|%s" % (FN, names.get(l, "_%d" % l)), "the scan loop reads `%s` before the current iteration assigned it: a value computed for the previous message (or before the loop) flows into the tally of this message" % names.get(l, "_%d" % l), function=FN, file=f2, line=l2)
    if not stale:
        R.obligation("LOOP-S", FN + "|no-carried-state", "discharged", "every local assigned in the scan loop is assigned in an iteration before it is read in that iteration")
    R.instance("LOOP-S", "scan loop: %d upward-exposed use(s) of loop-assigned locals" % len(stale))
    # the scan sees every message only if the reader it pulls from delivers every message: the blocking reader's
    # read discipline (read_exact on the BufReader only; shared with C07) and its two-phase algebra / dispatch
    from rules import lib_call
    funcs = sorted(p for p, bb in F.bodies.items() if p.startswith("read::") and not bb["derived"] and "::tests::" not in p)
    lib_call.check_read_exact(ctx, funcs, r"^std::io::Read$", r"^std::io::BufReader<")
    R.floor("CALL-R", 1)
    try:
        from rules import lib_reader
        lib_reader.check(ctx, "read")
    except ImportError:
        pass
    scan_record(ctx)
    # SCAN takes the header parsers' results as "the decoded headers": the fields the tally is keyed by must be decoded as
    # the layout says (ECU id present exactly when the WEID flag is set and a copy of its 4 bytes; extended-header flag;
    # application / context id; verbose flag and message type) — shared with C02 / C19
    from rules import lib_wirep
    lib_wirep.check_standard(ctx, "HDR-D", only={"ecu_id", "has_extended_header"})
    lib_wirep.check_extended(ctx, "HDR-D", only={"application_id", "context_id", "verbose", "message_type"})
    R.floor("HDR-D", 2)
    # the tally classifies by the decoded level: the message-info decoder must follow the DLT table (shared with C14)
    from rules import lib_codes
    lib_codes.check_msin(ctx)
    R.floor("TAB-MSIN.row", 20)
    try:
        from rules import lib_stats
        lib_stats.check(ctx)
    except ImportError:
        R.notes.append("TAB-C / FLOW / merge tables not built yet")


def scan_record(ctx, rule="SCAN"):
    """SCAN: the record the scan hands the collector describes the message it was cut from.  One iteration of the scan
    loop is analysed with the reader's slice and the three header parsers replaced by symbolic results; every `Statistic`
    built must carry the parsed standard header, the parsed extended header exactly when one was parsed, `is_verbose` =
    that header's verbose flag (false without extended header — whatever the message type), and `log_level` = the level
    of a Log message type (None for every other type and without extended header)."""
    from engine.contracts import ret_ty
    from engine.interp import Engine
    from engine.values import Bool, Enum, Struct, Top
    from rules.lib_fibexflow import once_body
    F, R = ctx.facts, ctx.report
    ADT = "statistics::Statistic"
    if ADT not in F.adts or F.body(FN) is None:
        R.notes.append("%s: %s / %s not found (not decided)" % (rule, ADT, FN))
        return
    b1 = once_body(F, FN)
    if b1 is None:
        R.notes.append("%s: no scan loop in %s (not decided)" % (rule, FN))
        return
    names = [f["name"] for f in F.adts[ADT]["variants"][0]["fields"]]
    need = {"log_level", "standard_header", "extended_header", "is_verbose"}
    if not need <= set(names):
        R.notes.append("%s: %s has fields %s (not decided)" % (rule, ADT, names))
        return
    hooked = {"parse::dlt_standard_header": "sh", "parse::dlt_storage_header": "sth", "parse::dlt_extended_header": "eh"}
    recs = []
    eng = Engine(F, budget=2000000)
    eng.key_all = True

    def on_call(eng_, st, fr, f, args, site):
        p = f.get("resolved") or f["path"]
        if p in hooked:
            return [(st, Top(ret_ty(eng_, site), hooked[p]))]
        if p.endswith("::next_message_slice"):
            return [(st, Top(ret_ty(eng_, site), "slice_res"))]
        if f.get("name") == "collect_statistic":
            return [(st, Top(ret_ty(eng_, site), "collected"))]
        return None

    def on_agg(eng_, st, fr, rv, ops):
        if rv["adt"] == ADT:
            recs.append((st, dict(zip(names, ops))))

    eng.on_call, eng.on_agg = on_call, on_agg
    fl, ln = F.body(FN)["span"]["f"], F.body(FN)["span"]["l"]
    try:
        eng.call_path(b1["path"], eng.symbolic_args(b1))
    except Exception as ex:
        R.notes.append("%s: %s could not be analysed (%r) (not decided)" % (rule, FN, ex))
        return
    if not recs:
        R.violation(rule, FN + "|no-record", "no construction of a Statistic record seen in the scan loop", function=FN, kind="UNRECOGNISED-SHAPE")
        return
    n = 0
    for st, rec in recs:
        why = []
        eh = rec["extended_header"]
        ehv = [eng.T.variant_name(eh.ty, vi) for vi, _ in eh.variants] if isinstance(eh, Enum) else None
        if "sh.Ok.0.1" not in repr(rec["standard_header"]):
            why.append("standard_header is not the header parsed from the slice (%s)" % repr(rec["standard_header"])[:80])
        if ehv is None or len(ehv) != 1:
            why.append("extended_header is not decided on this path")
        else:
            has = ehv[0] == "Some"
            if has and "eh.Ok.0.1" not in repr(eh):
                why.append("extended_header is not the header parsed from the slice")
            iv = rec["is_verbose"]
            c = eng.simplify_cond(st, iv.cond) if isinstance(iv, Bool) else None
            if has:
                if c != ("sym", "eh.Ok.0.1.verbose") and not (c is not None and c[0] == "const" and any(k[0] == "sym" and k[1] == "eh.Ok.0.1.verbose" and k[2] == c[1] for k in st.key)):
                    why.append("is_verbose is %s, not the extended header's verbose flag" % (c,))
            elif c != ("const", False):
                why.append("is_verbose is %s without an extended header (must be false)" % (c,))
            lv = rec["log_level"]
            lvv = [eng.T.variant_name(lv.ty, vi) for vi, _ in lv.variants] if isinstance(lv, Enum) else None
            mt = [k[2] for k in st.key if k[0] == "variant" and str(k[1]).endswith("eh.Ok.0.1.message_type")]
            if not has:
                if lvv != ["None"]:
                    why.append("log_level is %s without an extended header" % lvv)
            elif lvv == ["Some"]:
                if "eh.Ok.0.1.message_type.Log.0" not in repr(lv) or (mt and mt[-1] != "Log"):
                    why.append("log_level is Some(..) not taken from a Log message type (%s)" % repr(lv)[:80])
            elif lvv == ["None"]:
                if mt and mt[-1] == "Log":
                    why.append("log_level is None for a Log message")
            else:
                why.append("log_level is not decided on this path (%s)" % lvv)
        if why:
            R.violation(rule, "%s|record|%s" % (FN, why[0].split(" (")[0][:50]), "the Statistic record handed to the collector does not describe the message: %s" % "; ".join(why), function=FN, file=fl, line=ln)
        else:
            n += 1
            R.obligation(rule, "%s|record|%d" % (FN, n), "discharged", "standard / extended header, is_verbose and log_level taken from the parsed headers")
    R.instance(rule, "%d Statistic record construction(s) in one iteration of the scan" % len(recs))
