"""C10 — statistics count every message once per id and merge like a sum (DESIGN §4/C10)."""
import re

from engine import cfg
from rules import lib_loop
from rules.common import loc_of

LEVEL = "other"
FN = "statistics::collect_statistics"


def run(ctx):
    F, R = ctx.facts, ctx.report
    R.explanation = "LOOP-1: in collect_statistics every iteration calls next_message_slice exactly once and collect_statistic exactly once; table/flow clauses via the engine; CALL-R / ALG / DISP: the blocking reader the scan pulls from reads only through read_exact on its BufReader and delivers every complete message (shared with C07)."
    R.not_decided = ["FxHashMap semantics (trusted)", "order independence of merging (follows from commutativity of + and ||, argued not mechanised)"]
    b = F.body(FN)
    if b is None:
        R.violation("ANCHOR", "missing|" + FN, "anchor function %s not found" % FN, kind="ANCHOR-MISSING")
        return
    R.fn(FN)
    loops = cfg.natural_loops(b)
    if len(loops) != 1:
        R.violation("LOOP-1", FN + "|loops", "expected exactly one scan loop, found %d" % len(loops), function=FN, kind="UNRECOGNISED-SHAPE")
        return
    lp = loops[0]
    fl, ln = loc_of(b["blocks"][lp["header"]])
    for name, pred in (("next_message_slice", lambda f: f["path"].endswith("::next_message_slice")),
                       ("collect_statistic", lambda f: f.get("trait") == "statistics::StatisticCollector" and f.get("name") == "collect_statistic")):
        mm = lib_loop.path_call_counts(b, lp, pred)
        R.instance("LOOP-1", "per-iteration calls of %s: min=%s max=%s" % (name, mm[0] if mm else None, mm[1] if mm else None))
        if mm is None or mm[0] != 1 or mm[1] != 1:
            R.violation("LOOP-1", FN + "|" + name, "an iteration of the scan loop can call %s %s..%s times (must be exactly once per message)" % (name, mm[0] if mm else "?", mm[1] if mm else "?"), file=fl, line=ln, function=FN)
    # outside the loop neither may be called
    for bi, blk in enumerate(b["blocks"]):
        if blk["cleanup"] or bi in lp["blocks"]:
            continue
        f = cfg.callee_of(blk["term"])
        if f and (f["path"].endswith("::next_message_slice") or f.get("name") == "collect_statistic"):
            R.violation("LOOP-1", FN + "|outside|" + f["path"], "%s is called outside the scan loop" % f["s"], function=FN)
    R.floor("LOOP-1", 2)
    # LOOP-S: nothing but the reader and the collector carries a value from one message to the next
    stale = lib_loop.stale_uses(b, lp)
    names = {}
    for d in b.get("debug", []):
        if not d["p"]["p"]:
            names.setdefault(d["p"]["l"], d["name"])
    for l, bi, sp in stale:
        f2, l2 = loc_of({"sp": sp}) if sp else (fl, ln)
        R.violation("LOOP-S", "%s|stale|%s" % (FN, names.get(l, "_%d" % l)), "the scan loop reads `%s` before the current iteration assigned it: a value computed for the previous message (or before the loop) flows into the tally of this message" % names.get(l, "_%d" % l), function=FN, file=f2, line=l2)
    if not stale:
        R.obligation("LOOP-S", FN + "|no-carried-state", "discharged", "every local assigned in the scan loop is assigned in an iteration before it is read in that iteration")
    R.instance("LOOP-S", "scan loop: %d upward-exposed use(s) of loop-assigned locals" % len(stale))
    # the scan sees every message only if the reader it pulls from delivers every message: the blocking reader's
    # read discipline (read_exact on the BufReader only; shared with C07) and its two-phase algebra / dispatch
    from rules import lib_call
    funcs = sorted(p for p, bb in F.bodies.items() if p.startswith("read::") and not bb["derived"] and "::tests::" not in p)
    lib_call.check_read_exact(ctx, funcs, r"^std::io::Read$", r"^std::io::BufReader<")
    R.floor("CALL-R", 2)
    try:
        from rules import lib_reader
        lib_reader.check(ctx, "read")
    except ImportError:
        pass
    # the tally classifies by the decoded level: the message-info decoder must follow the DLT table (shared with C14)
    from rules import lib_codes
    lib_codes.check_msin(ctx)
    R.floor("TAB-MSIN.row", 20)
    try:
        from rules import lib_stats
        lib_stats.check(ctx)
    except ImportError:
        R.notes.append("TAB-C / FLOW / merge tables not built yet")
