"""Parser-side WIRE rules: what each field of a parsed header is read from, against the spec layout.

The engine analyses the three header parsers on a symbolic input slice.  Every numeric field of the result is then a
named read `rd[input@offset:width:order]` (or per-bit provenance of such a read), every text field a copy of
input[offset..], the remainder a slice with a linear offset.  The rule compares these with the DLT layout: offsets,
widths, byte order and the destination field.  Together with the writer-side WIRE rules this reports an error made
consistently on both sides (e.g. session id and timestamp swapped in writer and parser).
"""
import re

from engine.lin import Lin
from engine.values import Bool, Cont, Enum, Int, Slice, Struct, Top
from rules import lib_parse
from rules.spec import dlt_spec

STD = "parse::dlt_standard_header"
EXT = "parse::dlt_extended_header"
STO = "parse::dlt_storage_header"


def fidx(F, adt, name):
    for i, f in enumerate(F.adts[adt]["variants"][0]["fields"]):
        if f["name"] == name:
            return i
    return None


def rd(off, w, order):
    return Lin.sym("rd[input@%s:%d:%s]" % (off, w, order if w > 1 else "1"))


def is_copy_of(v, off):
    """Is v an owned copy of input[off .. off+len)?"""
    return isinstance(v, Cont) and v.segs is not None and len(v.segs) == 1 and v.segs[0][0] == "bytes" and v.segs[0][1] == "input" and v.segs[0][2] == off


def opt(eng, v):
    """('Some', payload) / ('None', None) / None for an Option value with one possible variant."""
    if isinstance(v, Enum) and len(v.variants) == 1:
        vi, fs = v.variants[0]
        n = eng.T.variant_name(v.ty, vi)
        return n, (fs[0] if fs else None)
    return None


def ok_exits(eng, outs):
    for st, rv in outs:
        if not isinstance(rv, Enum):
            continue
        for vi, fs in rv.variants:
            if vi != 0:
                continue
            s2 = lib_parse.ok_state(eng, st, rv, 0)
            if s2 is None:
                continue
            tup = fs[0]
            if isinstance(tup, Top):
                tup = eng.M.force(s2, tup)
            yield s2, tup.fields[0], tup.fields[1]


def check_standard(ctx, rule="WIRE-PH", only=None):
    F, R = ctx.facts, ctx.report
    b = F.body(STD)
    if b is None:
        R.violation("ANCHOR", "missing|" + STD, "anchor function %s not found" % STD, kind="ANCHOR-MISSING")
        return
    eng, outs = lib_parse.standalone(ctx, STD)
    fl, ln = b["span"]["f"], b["span"]["l"]
    ix = {n: fidx(F, "dlt::StandardHeader", n) for n in ("version", "endianness", "has_extended_header", "message_counter", "ecu_id", "session_id", "timestamp", "payload_length")}
    hb = dlt_spec.HTYP_BITS
    H = "rd[input@0:1:1]"
    seen = set()
    for st, rest, hdr in ok_exits(eng, outs):
        bits = lib_parse.htyp_bits(st, H)
        if any(i not in bits for i in range(5)):
            R.violation(rule, STD + "|partition", "a standard-header exit is not partitioned on the five flag bits of the header-type byte at offset 0 (%s)" % sorted(bits.items()), function=STD, kind="UNRECOGNISED-SHAPE")
            continue
        key = tuple(bits[i] for i in range(5))
        seen.add(key)
        part = "UEH=%d MSBF=%d WEID=%d WSID=%d WTMS=%d" % (bits[hb["UEH"]], bits[hb["MSBF"]], bits[hb["WEID"]], bits[hb["WSID"]], bits[hb["WTMS"]])
        if isinstance(hdr, Top):
            hdr = eng.M.force(st, hdr)
        f = lambda n: hdr.fields[ix[n]]
        bad = []
        v = f("version")
        if not (isinstance(v, Int) and v.bits is not None and tuple(v.bits[:3]) == (("b", H, 5), ("b", H, 6), ("b", H, 7)) and all(x == 0 for x in v.bits[3:])):
            bad.append(("version", "bits 5..7 of the header type", getattr(v, "bits", v)))
        e = f("endianness")
        en = eng.T.variant_name(e.ty, e.variants[0][0]) if isinstance(e, Enum) and len(e.variants) == 1 else None
        if en != ("Big" if bits[hb["MSBF"]] else "Little"):
            bad.append(("endianness", "Big iff MSBF (bit 1)", en))
        he = f("has_extended_header")
        hv = eng.simplify_cond(st, he.cond) if isinstance(he, Bool) else None
        if hv != ("const", bool(bits[hb["UEH"]])):
            bad.append(("has_extended_header", "UEH (bit 0)", hv))
        mc = f("message_counter")
        if not (isinstance(mc, Int) and mc.lin == rd(1, 1, "1")):
            bad.append(("message_counter", "byte at offset 1", getattr(mc, "lin", mc)))
        off = 4
        ecu = opt(eng, f("ecu_id"))
        if bits[hb["WEID"]]:
            if not (ecu and ecu[0] == "Some" and is_copy_of(ecu[1], Lin.const(off))):
                bad.append(("ecu_id", "4-byte id at offset %d" % off, ecu))
            off += 4
        elif not (ecu and ecu[0] == "None"):
            bad.append(("ecu_id", "absent without WEID", ecu))
        sid = opt(eng, f("session_id"))
        if bits[hb["WSID"]]:
            if not (sid and sid[0] == "Some" and isinstance(sid[1], Int) and sid[1].lin == rd(off, 4, "BE")):
                bad.append(("session_id", "big-endian u32 at offset %d" % off, sid and getattr(sid[1], "lin", sid[1])))
            off += 4
        elif not (sid and sid[0] == "None"):
            bad.append(("session_id", "absent without WSID", sid))
        ts = opt(eng, f("timestamp"))
        if bits[hb["WTMS"]]:
            if not (ts and ts[0] == "Some" and isinstance(ts[1], Int) and ts[1].lin == rd(off, 4, "BE")):
                bad.append(("timestamp", "big-endian u32 at offset %d" % off, ts and getattr(ts[1], "lin", ts[1])))
            off += 4
        elif not (ts and ts[0] == "None"):
            bad.append(("timestamp", "absent without WTMS", ts))
        hl = off + (10 if bits[hb["UEH"]] else 0)
        pl = f("payload_length")
        if not (isinstance(pl, Int) and pl.lin == rd(2, 2, "BE").sub(Lin.const(hl))):
            bad.append(("payload_length", "big-endian u16 at offset 2 minus %d header bytes" % hl, getattr(pl, "lin", pl)))
        if not (isinstance(rest, Slice) and rest.base == "input" and rest.off == Lin.const(off)):
            bad.append(("remainder", "input[%d..]" % off, getattr(rest, "off", rest)))
        if only is not None:
            bad = [x for x in bad if x[0] in only]
        if bad:
            for name, want, got in bad:
                R.violation(rule, "%s|%s|%s" % (STD, name, re.sub(r"#\d+", "#", str(got))[:80]), "standard-header parser: field `%s` must be %s, it is %s [%s]" % (name, want, str(got)[:200], part), function=STD, file=fl, line=ln, partition=part)
        else:
            R.obligation(rule, "%s|%s" % (STD, part), "discharged", "all 8 fields and the remainder read from the spec offsets")
    R.instance(rule, "standard-header parser: %d flag patterns, fields HTYP@0 MCNT@1 LEN@2(BE) [ECU@4] [SEID BE] [TMSP BE]" % len(seen))
    if len(seen) != 32:
        R.violation(rule, STD + "|patterns", "expected 32 flag patterns on Ok exits, saw %d" % len(seen), function=STD, kind="UNRECOGNISED-SHAPE")


def check_extended(ctx, rule="WIRE-PH", only=None):
    F, R = ctx.facts, ctx.report
    b = F.body(EXT)
    if b is None:
        R.violation("ANCHOR", "missing|" + EXT, "anchor function %s not found" % EXT, kind="ANCHOR-MISSING")
        return
    eng, outs = lib_parse.standalone(ctx, EXT)
    fl, ln = b["span"]["f"], b["span"]["l"]
    ix = {n: fidx(F, "dlt::ExtendedHeader", n) for n in ("verbose", "argument_count", "message_type", "application_id", "context_id")}
    n = 0
    M = "rd[input@0:1:1]"
    for st, rest, hdr in ok_exits(eng, outs):
        if isinstance(hdr, Top):
            hdr = eng.M.force(st, hdr)
        n += 1
        bad = []
        vb = hdr.fields[ix["verbose"]]
        vv = vb.cond if isinstance(vb, Bool) else None
        vbit = None
        for k in st.key:
            if k[0] == "bit" and k[1] == M and k[2] == 0:
                vbit = k[3]
        sv = eng.simplify_cond(st, vv) if vv else None
        if not (sv == ("bit", M, 0, True) or (vbit is not None and sv == ("const", bool(vbit)))):
            bad.append(("verbose", "bit 0 of the message-info byte at offset 0", sv))
        ac = hdr.fields[ix["argument_count"]]
        if not (isinstance(ac, Int) and ac.lin == rd(1, 1, "1")):
            bad.append(("argument_count", "byte at offset 1", getattr(ac, "lin", ac)))
        if not is_copy_of(hdr.fields[ix["application_id"]], Lin.const(2)):
            bad.append(("application_id", "4-byte id at offset 2", repr(hdr.fields[ix["application_id"]])[:120]))
        if not is_copy_of(hdr.fields[ix["context_id"]], Lin.const(6)):
            bad.append(("context_id", "4-byte id at offset 6", repr(hdr.fields[ix["context_id"]])[:120]))
        if not (isinstance(rest, Slice) and rest.base == "input" and rest.off == Lin.const(10)):
            bad.append(("remainder", "input[10..]", getattr(rest, "off", rest)))
        if only is not None:
            bad = [x for x in bad if x[0] in only]
        for name, want, got in bad:
            R.violation(rule, "%s|%s" % (EXT, name), "extended-header parser: field `%s` must be %s, it is %s" % (name, want, str(got)[:200]), function=EXT, file=fl, line=ln)
        if not bad:
            R.obligation(rule, "%s|fields|%d" % (EXT, n), "discharged", "MSIN@0 NOAR@1 APID@2 CTID@6, 10 bytes consumed")
    R.instance(rule, "extended-header parser: %d Ok exit partition(s): MSIN@0 NOAR@1 APID@2 CTID@6" % n)
    if n < 1:
        R.violation(rule, EXT + "|exits", "no Ok exit of the extended-header parser analysed", function=EXT, kind="UNRECOGNISED-SHAPE")


def check_storage(ctx, rule="WIRE-PH", only=None):
    """dlt_storage_header: pattern at `found`, seconds LE @found+4, microseconds LE @found+8, ECU id @found+12,
    remainder input[found+16..], reported shift = found (first occurrence of the pattern)."""
    F, R = ctx.facts, ctx.report
    b = F.body(STO)
    if b is None:
        R.violation("ANCHOR", "missing|" + STO, "anchor function %s not found" % STO, kind="ANCHOR-MISSING")
        return
    eng, outs = lib_parse.standalone(ctx, STO)
    fl, ln = b["span"]["f"], b["span"]["l"]
    i_ts, i_ecu = fidx(F, "dlt::StorageHeader", "timestamp"), fidx(F, "dlt::StorageHeader", "ecu_id")
    i_s, i_us = fidx(F, "dlt::DltTimeStamp", "seconds"), fidx(F, "dlt::DltTimeStamp", "microseconds")
    n_some = n_none = 0
    finds = [e for e in eng.events if e[0] == "find"]
    for e in finds:
        _, needle, hay, off, ln_, which, fn = e
        if not (hay == "input" and off == "0" and ln_ == "len(input)" and which == "first"):
            R.violation(rule, STO + "|haystack", "the storage-header parser searches the pattern in %s[%s..+%s] (%s occurrence) instead of the first occurrence in its whole input: a pattern further on is reported as absent" % (hay, off, ln_, which), function=STO, file=fl, line=ln)
    if not finds:
        R.violation(rule, STO + "|no-search", "the storage-header parser reaches its exits without the pattern search", function=STO, kind="UNRECOGNISED-SHAPE")
    for st, rest, res in ok_exits(eng, outs):
        o = opt(eng, res)
        if o is None:
            R.violation(rule, STO + "|shape", "storage-header parser exit does not decide whether a header was found", function=STO, kind="UNRECOGNISED-SHAPE")
            continue
        if o[0] == "None":
            n_none += 1
            if not any(k == ("find", "none") for k in st.key):
                R.violation(rule, STO + "|none-without-search-miss", "the parser reports 'no storage header' on a path where the pattern search did not fail", function=STO, file=fl, line=ln)
            continue
        n_some += 1
        tup = o[1]
        if isinstance(tup, Top):
            tup = eng.M.force(st, tup)
        sh, shift = tup.fields
        if isinstance(sh, Top):
            sh = eng.M.force(st, sh)
        fsyms = sorted({s for s in (rest.off.syms() if isinstance(rest, Slice) else []) if s.startswith("found#")})
        bad = []
        if len(fsyms) != 1:
            R.violation(rule, STO + "|found", "the remainder of the storage-header parser is not positioned relative to the pattern search result (%s)" % getattr(rest, "off", rest), function=STO, file=fl, line=ln)
            continue
        fo = Lin.sym(fsyms[0])
        tsv = sh.fields[i_ts]
        if isinstance(tsv, Top):
            tsv = eng.M.force(st, tsv)
        sec, us = tsv.fields[i_s], tsv.fields[i_us]
        if not (isinstance(sec, Int) and sec.lin == rd(fo.add(Lin.const(4)), 4, "LE")):
            bad.append(("timestamp.seconds", "little-endian u32 at pattern + 4", getattr(sec, "lin", sec)))
        if not (isinstance(us, Int) and us.lin == rd(fo.add(Lin.const(8)), 4, "LE")):
            bad.append(("timestamp.microseconds", "little-endian u32 at pattern + 8", getattr(us, "lin", us)))
        if not is_copy_of(sh.fields[i_ecu], fo.add(Lin.const(12))):
            bad.append(("ecu_id", "4-byte id at pattern + 12", repr(sh.fields[i_ecu])[:120]))
        if not (isinstance(rest, Slice) and rest.base == "input" and rest.off == fo.add(Lin.const(16))):
            bad.append(("remainder", "input[pattern + 16..]", getattr(rest, "off", rest)))
        if not (isinstance(shift, Int) and shift.lin == fo):
            bad.append(("shift", "the number of bytes in front of the pattern", getattr(shift, "lin", shift)))
        if only is not None:
            bad = [x for x in bad if x[0] in only]
        for name, want, got in bad:
            R.violation(rule, "%s|%s" % (STO, name), "storage-header parser: `%s` must be %s, it is %s" % (name, want, str(got)[:200]), function=STO, file=fl, line=ln)
        if not bad:
            R.obligation(rule, "%s|fields|%d" % (STO, n_some), "discharged", "seconds LE @p+4, microseconds LE @p+8, ECU id @p+12, remainder @p+16, shift = p")
    # refusals: once the pattern was found at p, the parser may only refuse while fewer than 16 bytes follow p
    n_err = 0
    ilen = Lin.sym("len(input)")
    for st, rv in outs:
        if not isinstance(rv, Enum):
            continue
        for vi, fs in rv.variants:
            if vi == 0:
                continue
            if not any(k[0] == "find" and k[1] == "some" for k in st.key):
                continue
            if any(k[0] == "tag" and k[1] == "mismatch" for k in st.key):
                continue  # re-checking the pattern at the position where it was just found cannot fail
            fsyms = sorted(sy for sy in eng.bounds if str(sy).startswith("found#") and (st.holds(Lin.sym(sy), eng)))
            short = [sy for sy in fsyms if st.holds(Lin.sym(sy).add(Lin.const(15)).sub(ilen), eng)]
            n_err += 1
            if short:
                # a header cut short is a matter of missing bytes: the refusal must be `Incomplete`, not a hard error
                ev = fs[0]
                if isinstance(ev, Top):
                    ev = eng.M.force(st, ev)
                kinds = sorted({eng.T.variant_name(ev.ty, i) for i, _ in ev.variants}) if isinstance(ev, Enum) else ["?"]
                if kinds != ["Incomplete"]:
                    R.violation(rule, STO + "|short-header-refused-as|" + ",".join(kinds), "with the pattern found but fewer than 16 bytes behind it the storage-header parser refuses with %s: a header cut short (e.g. inside its ECU id) must be reported as incomplete" % kinds, function=STO, file=fl, line=ln)
            if only is not None:
                continue
            if short:
                R.obligation(rule, "%s|refuse-only-short|%r" % (STO, st.key[-2:]), "discharged", "a refusal after the pattern was found implies fewer than 16 bytes from the pattern on")
            else:
                R.violation(rule, STO + "|refuse-with-whole-header", "the storage-header parser can refuse (Incomplete / error) although the pattern was found and 16 bytes follow it: a complete storage header is reported as missing bytes", function=STO, file=fl, line=ln)
    R.instance(rule, "storage-header parser: %d 'found' exit(s), %d 'not found' exit(s), %d refusal(s) after a found pattern" % (n_some, n_none, n_err))
    if n_some < 1 or n_none < 1:
        R.violation(rule, STO + "|exits", "expected a 'found' and a 'not found' exit (saw %d / %d)" % (n_some, n_none), function=STO, kind="UNRECOGNISED-SHAPE")


PAY = "parse::dlt_payload"
MSG_TYPES = ("Log", "ApplicationTrace", "NetworkTrace", "Control", "Unknown")


def check_payload_dispatch(ctx, rule="WIRE-PD"):
    """dlt_payload: which payload layout is decoded for which (VERB flag, message type), against the DLT layout:
    VERB=1 -> NOAR typed arguments (this crate reports a network trace's raw arguments as NetworkTrace slices);
    VERB=0 and MSTP=control -> service id byte + parameters; VERB=0 otherwise -> 32-bit message id in the message byte
    order + payload.  For the two non-verbose layouts also where the id and the rest are read from and where the
    remainder starts (the declared payload length)."""
    F, R = ctx.facts, ctx.report
    names = ["input", "verbose", "payload_length", "arg_cnt", "msg_type"]
    b = F.body(PAY)
    if b is None:
        R.violation("ANCHOR", "missing|" + PAY, "anchor function %s not found" % PAY, kind="ANCHOR-MISSING")
        return
    fl, ln = b["span"]["f"], b["span"]["l"]
    seen = {}
    undecided = 0
    from engine.state import State
    from engine.values import Bool as _Bool
    # the rule constructs the input of each (VERB, message type) row itself, so the verdict does not depend on where —
    # in dlt_payload or in a helper it dispatches to — the code branches on them
    for verb0 in (True, False):
        for mt0 in ("-",) + MSG_TYPES:
            eng = lib_parse.mk_engine(F, cuts=[c for c in lib_parse.CUTS if c != PAY])
            st0 = State()
            args = eng.symbolic_args(b, names=names)
            # the two selectors are found by type (the function is private: its parameter list may be reshaped)
            tys = [F.ty_s(b["locals"][i]["ty"]) for i in range(1, b["arg_count"] + 1)]
            i_verb = [i for i, t_ in enumerate(tys) if t_ == "bool"]
            i_mt = [i for i, t_ in enumerate(tys) if re.match(r"^(std|core)::option::Option<dlt::MessageType>$", t_)]
            if len(i_verb) != 1 or len(i_mt) != 1 or len(args) != 5:
                R.notes.append("%s: dlt_payload has parameters %s — the VERB flag / message type selectors are not a `bool` and an `Option<MessageType>` (not decided)" % (rule, tys))
                return 0
            args[i_verb[0]] = _Bool(("const", verb0))
            mv = eng.M.force(st0, args[i_mt[0]])
            ok_in = isinstance(mv, Enum)
            if ok_in:
                if mt0 == "-":
                    keep = tuple((vi, fs) for vi, fs in mv.variants if eng.T.variant_name(mv.ty, vi) == "None")
                else:
                    keep = []
                    for vi, fs in mv.variants:
                        if eng.T.variant_name(mv.ty, vi) != "Some" or not fs:
                            continue
                        inner = fs[0]
                        if isinstance(inner, Top):
                            inner = eng.M.force(st0, inner)
                        if isinstance(inner, Enum):
                            iv = tuple((j, jf) for j, jf in inner.variants if eng.T.variant_name(inner.ty, j) == mt0)
                            if iv:
                                keep.append((vi, (Enum(inner.ty, iv, inner.name),)))
                    keep = tuple(keep)
                ok_in = bool(keep)
                if ok_in:
                    args[i_mt[0]] = Enum(mv.ty, keep, mv.name)
            if not ok_in:
                R.violation(rule, "%s|input|verb=%d|type=%s" % (PAY, int(verb0), mt0), "cannot construct a dlt_payload input with VERB=%d and message type %s" % (verb0, mt0), function=PAY, kind="UNRECOGNISED-SHAPE")
                continue
            try:
                outs = eng.call_path(PAY, args, st=st0)
            except Exception as ex:
                R.notes.append("%s: dlt_payload could not be analysed for VERB=%d type=%s (%r) (not decided)" % (rule, verb0, mt0, ex))
                undecided += 1
                continue
            for st, rem, val in ok_exits(eng, outs):
                verb, mts = verb0, (mt0,)
                kinds = [eng.T.variant_name(val.ty, vi) for vi, _ in val.variants] if isinstance(val, Enum) else None
                if not kinds:
                    undecided += 1
                    continue
                for kname in kinds:
                    seen.setdefault((verb, mt0), set()).add(kname)
                if len(kinds) != 1:
                    continue
                kname = kinds[0]
                fs = val.variants[0][1]
                # layout of the two non-verbose payloads
                plen = Lin.sym("payload_length")
                if kname == "NonVerbose":
                    ok = isinstance(fs[0], Int) and fs[0].lin == rd(0, 4, "T") and is_copy_of(fs[1], Lin.const(4)) and fs[1].segs[0][3] == plen.sub(Lin.const(4)) \
                        and isinstance(rem, Slice) and rem.base == "input" and rem.off == plen
                    if ok:
                        R.obligation(rule, "%s|layout|NonVerbose|%s" % (PAY, "/".join(mts)), "discharged", "message id = u32 @0 in message byte order, payload = input[4..payload_length), remainder @payload_length")
                    else:
                        R.violation(rule, "%s|layout|NonVerbose" % PAY, "a non-verbose payload is decoded as id=%s payload=%s remainder=%s; the format prescribes a 32-bit message id at offset 0 in the message byte order, the payload behind it up to the declared payload length, and the next message there" % (
                            getattr(fs[0], "lin", fs[0]), getattr(fs[1], "segs", fs[1]), rem), function=PAY, file=fl, line=ln)
                elif kname == "ControlMsg":
                    idv = fs[0]
                    idsrc = repr(idv)
                    ok = ("rd[input@0:1:1]" in idsrc or (isinstance(idv, Enum) and all(not f for _, f in idv.variants))) and is_copy_of(fs[1], Lin.const(1)) and fs[1].segs[0][3] == plen.sub(Lin.const(1)) \
                        and isinstance(rem, Slice) and rem.base == "input" and rem.off == plen
                    if ok:
                        R.obligation(rule, "%s|layout|ControlMsg|%s" % (PAY, repr(st.key[-1])), "discharged", "service id = byte @0, parameters = input[1..payload_length), remainder @payload_length")
                    else:
                        R.violation(rule, "%s|layout|ControlMsg" % PAY, "a control payload is decoded as id=%s parameters=%s remainder=%s; the format prescribes the service id in the first byte, the parameters behind it up to the declared payload length" % (
                            idsrc[:120], getattr(fs[1], "segs", fs[1]), rem), function=PAY, file=fl, line=ln)
    n = 0
    for verb in (True, False):
        for mt in ("-",) + MSG_TYPES:
            got = seen.get((verb, mt), set())
            if verb:
                want = {"NetworkTrace"} if mt == "NetworkTrace" else {"Verbose"}
            else:
                want = {"ControlMsg"} if mt == "Control" else {"NonVerbose"}
            key = "%s|dispatch|verb=%s|type=%s" % (PAY, int(verb), mt)
            if not got and undecided:
                R.notes.append("%s: no accepting exit tracked for VERB=%d type=%s (not decided)" % (rule, verb, mt))
                continue
            if got == want:
                n += 1
                R.obligation(rule, key, "discharged", "VERB=%d, message type %s -> %s" % (verb, mt, "/".join(sorted(want))))
                R.instance(rule, "VERB=%d type=%s -> %s" % (verb, mt, "/".join(sorted(want))))
            else:
                R.violation(rule, key, "a message with VERB=%d and message type %s is decoded as %s; the DLT layout prescribes %s (the VERB bit alone selects the typed-argument layout; a control message without it carries service id + parameters, any other message id + payload)" % (
                    verb, "(no extended header)" if mt == "-" else mt, "/".join(sorted(got)) or "nothing (never accepted)", "/".join(sorted(want))), function=PAY, file=fl, line=ln)
    return n


def check_all(ctx, rule="WIRE-PH"):
    check_standard(ctx, rule)
    check_extended(ctx, rule)
    check_storage(ctx, rule)
    check_payload_dispatch(ctx)
