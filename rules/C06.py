"""C06 — storage-header resync skips exactly the bytes before the first pattern (DESIGN §4/C06)."""
from engine import cfg
from rules import lib_const, lib_call
from rules.common import loc_of

LEVEL = "proof"
FN = "parse::forward_to_next_storage_header"


def run(ctx):
    F, R = ctx.facts, ctx.report
    R.explanation = "CONST DLT_PATTERN; the finder is built from that constant and searched with memmem::Finder::find (first occurrence); WIRE-PH: the storage-header parser reads its fields relative to the found pattern, reports the bytes in front of it, and refuses only while fewer than 16 bytes follow the pattern."
    R.not_decided = ["memchr's search correctness (trusted)"]
    lib_const.check(ctx, names={"parse::DLT_PATTERN", "dlt::STORAGE_HEADER_LENGTH"}, rule="CONST", enums=False)
    b = F.body(FN)
    if b is None:
        R.violation("ANCHOR", "missing|" + FN, "anchor function %s not found" % FN, kind="ANCHOR-MISSING")
        return
    R.fn(FN)
    from rules.lib_ord import local_defs, const_bytes_of
    defs = local_defs(b)
    found_new = found_find = 0
    for bi, f, sp, how in lib_call.all_fn_refs(b):
        p = f["path"]
        fl, ln = loc_of({"sp": sp})
        if p.startswith("memchr::"):
            if p.endswith("Finder::<'n>::new") or p.endswith("Finder::new"):
                t = b["blocks"][bi]["term"]
                cb = const_bytes_of(F, b, defs, t["args"][0]) if t["k"] == "call" else None
                if cb and cb[0] == b"DLT\x01" :
                    found_new += 1
                    R.instance("FIND", "Finder::new(%r) from %s" % (cb[0], cb[1]))
                else:
                    R.violation("FIND", FN + "|needle", "the finder's needle is %r, not the 4-byte storage-header pattern" % (cb[0] if cb else None), file=fl, line=ln, function=FN)
            elif p.endswith("::find") and "Finder" in p and "Rev" not in p:
                found_find += 1
                R.instance("FIND", "search primitive %s (first occurrence)" % p)
            else:
                R.violation("FIND", FN + "|" + p, "search primitive %s is not memmem::Finder::find (first occurrence)" % p, file=fl, line=ln, function=FN)
    R.floor("FIND", 2)
    from rules import lib_wirep
    lib_wirep.check_storage(ctx, "WIRE-PH")
    try:
        from rules import lib_cons
        lib_cons.check_c06(ctx)
    except ImportError:
        R.notes.append("CONS (offset identity) not built yet")
