"""C06 — CONS / FLOW rules of the storage-header resynchronisation (DESIGN §4/C06)."""
from engine.lin import Lin
from engine.values import Enum, Int, Slice, Struct, Top
from rules import lib_parse, lib_wirep

FWD = "parse::forward_to_next_storage_header"


def check_c06(ctx):
    F, R = ctx.facts, ctx.report
    b = F.body(FWD)
    if b is None:
        R.violation("ANCHOR", "missing|" + FWD, "anchor function %s not found" % FWD, kind="ANCHOR-MISSING")
        return
    eng, outs = lib_parse.standalone(ctx, FWD)
    fl, ln = b["span"]["f"], b["span"]["l"]
    # the search runs over the whole input, with the pattern constant, first occurrence
    finds = [e for e in eng.events if e[0] == "find"]
    if len(finds) != 1:
        R.violation("CONS", FWD + "|searches", "expected exactly one pattern search in %s, saw %d" % (FWD, len(finds)), function=FWD, kind="UNRECOGNISED-SHAPE")
    for e in finds:
        _, needle, hay, off, ln_, which, fn = e
        ok = hay == "input" and off == "0" and ln_ == "len(input)" and which == "first"
        if ok:
            R.obligation("CONS", FWD + "|haystack", "discharged", "first occurrence searched in input[0..len(input))")
            R.instance("CONS", "search: first occurrence of %s in the whole input" % (needle,))
        else:
            R.violation("CONS", FWD + "|haystack", "the pattern is searched in %s[%s..+%s] (%s occurrence) instead of the first occurrence in the whole input: absence would be reported although the pattern occurs" % (hay, off, ln_, which), function=FWD, file=fl, line=ln)
    n_some = n_none = 0
    for st, rv in outs:
        if not isinstance(rv, Enum):
            R.violation("CONS", FWD + "|shape", "result is not an Option", function=FWD, kind="UNRECOGNISED-SHAPE")
            continue
        for vi, fs in rv.variants:
            s2 = lib_parse.ok_state(eng, st, rv, vi)
            name = eng.T.variant_name(rv.ty, vi)
            found = any(k == ("find", "some") for k in st.key)
            missed = any(k == ("find", "none") for k in st.key)
            if name == "None":
                n_none += 1
                if not missed or found:
                    R.violation("CONS", FWD + "|none", "absence is reported on a path where the search did not fail", function=FWD, file=fl, line=ln)
                else:
                    R.obligation("CONS", FWD + "|none", "discharged", "None exactly on the search-miss outcome")
                continue
            n_some += 1
            tup = fs[0]
            if isinstance(tup, Top):
                tup = eng.M.force(s2, tup)
            cnt, sl = tup.fields
            fsyms = sorted({s for s in (sl.off.syms() if isinstance(sl, Slice) else []) if s.startswith("found#")})
            good = found and not missed and len(fsyms) == 1 and isinstance(sl, Slice) and sl.base == "input" and sl.off == Lin.sym(fsyms[0]) and sl.len == Lin.sym("len(input)").sub(sl.off) and isinstance(cnt, Int) and cnt.lin == sl.off
            if good:
                R.obligation("CONS", FWD + "|some", "discharged", "Some((p, input[p..])) with p the search result")
                R.instance("CONS", "found: reported count = offset of the returned slice = search result")
            else:
                R.violation("CONS", FWD + "|some", "on a match the function returns the count %s and the slice input[%s..]; both must be the position of the first pattern occurrence" % (getattr(cnt, "lin", cnt), getattr(sl, "off", sl)), function=FWD, file=fl, line=ln)
    if n_some < 1 or n_none < 1:
        R.violation("CONS", FWD + "|exits", "expected a Some and a None exit (saw %d / %d)" % (n_some, n_none), function=FWD, kind="UNRECOGNISED-SHAPE")
    # the storage-header parser continues from the found position (fields, remainder, shift)
    lib_wirep.check_storage(ctx, "WIRE-PH")
    # the message parser positions the standard header at found + 16 and returns input[A+L..] (C04's CONS)
    from rules import C04
    C04.run_cons(ctx)
