"""C05 — every proper prefix is reported incomplete, with a safe hint (DESIGN §4/C05)."""
from rules import lib_call

LEVEL = "other"
ENTRIES = ["parse::dlt_message", "parse::dlt_consume_msg"]
ALLOW = {("parse::dlt_payload", "nom::number::complete::be_u8"): "control-message id byte: only evaluated after validated_payload_length proved the whole declared message is present and payload_length >= 1"}


def run(ctx):
    F, R = ctx.facts, ctx.report
    R.explanation = "CALL-S: every nom primitive reachable from the message parser/skipper is a streaming one (one allow-listed complete::be_u8 behind the length verdict)."
    R.not_decided = ["hints produced inside nom (trusted: streaming primitives report Needed::new(missing) or 1)"]
    for e in ENTRIES:
        if not F.body(e):
            R.violation("ANCHOR", "missing|" + e, "anchor function %s not found" % e, kind="ANCHOR-MISSING")
            return
    reach, n = lib_call.check_streaming(ctx, ENTRIES, ALLOW)
    R.floor("CALL-S", 40)
    try:
        from rules import lib_incomplete
        lib_incomplete.check(ctx)
    except ImportError:
        R.notes.append("TAB-E / order rule / HINT not built yet")
