"""C05 — every proper prefix is reported incomplete, with a safe hint (DESIGN §4/C05)."""
from rules import lib_call

LEVEL = "other"
ENTRIES = ["parse::dlt_message", "parse::dlt_consume_msg"]
ALLOW = {}  # no function-name allow-list: a complete primitive is accepted only where its short-input outcome is infeasible (COMPLETE rule)


def run(ctx):
    F, R = ctx.facts, ctx.report
    R.explanation = "CALL-S: every nom primitive reachable from the message parser/skipper is a streaming one (one allow-listed complete::be_u8 behind the length verdict)."
    R.not_decided = ["hints produced inside nom (trusted: streaming primitives report Needed::new(missing) or 1)"]
    for e in ENTRIES:
        if not F.body(e):
            R.violation("ANCHOR", "missing|" + e, "anchor function %s not found" % e, kind="ANCHOR-MISSING")
            return
    reach, n = lib_call.check_streaming(ctx, ENTRIES, ALLOW, defer_complete=True)
    R.floor("CALL-S", 8)  # anti-vacuity only: hand-written fixed-width reads may replace most nom primitives
    complete_prims(ctx)
    try:
        from rules import lib_incomplete
        lib_incomplete.check(ctx)
    except ImportError:
        R.notes.append("TAB-E / order rule / HINT not built yet")


def complete_prims(ctx):
    """COMPLETE: a complete (non-streaming) nom primitive reachable from the entry points is accepted only if, in the
    in-context analysis, its short-input outcome is infeasible at every application (the bytes it reads are known to be
    present: it sits behind the length verdict / inside the bounded payload)."""
    from rules import lib_parse
    R = ctx.report
    deferred = getattr(ctx, "deferred_complete", [])
    if not deferred:
        return
    eng, outs = lib_parse.level1(ctx)
    evs = [e for e in eng.events if e[0] == "complete_prim"]
    for c in lib_parse.CUTS:
        e2, _ = lib_parse.standalone(ctx, c)
        if e2 is not None:
            evs += [e for e in e2.events if e[0] == "complete_prim"]
    for (fn, path, fl, ln) in deferred:
        nm = path.split("::")[-1]
        mine = [e for e in evs if e[1] == nm]
        if mine and not any(e[2] for e in mine):
            R.obligation("COMPLETE", "%s|%s" % (fn, path), "discharged", "short-input outcome infeasible at all %d evaluated applications" % len(mine))
            R.instance("COMPLETE", "%s uses %s where its input is known to be present" % (fn, path))
        elif not mine:
            R.violation("COMPLETE", "%s|%s|unevaluated" % (fn, path), "complete (non-streaming) nom primitive %s is referenced by %s but never applied in the analysed contexts: cannot show that a truncated buffer does not reach it" % (path, fn), file=fl, line=ln, function=fn, kind="UNRECOGNISED-SHAPE")
        else:
            R.violation("COMPLETE", "%s|%s" % (fn, path), "complete (non-streaming) nom primitive %s in %s can be applied to an input that is too short: a truncated buffer yields a hard error instead of Incomplete" % (path, fn), file=fl, line=ln, function=fn)
