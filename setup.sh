#!/bin/sh
# Build the framework from files on disk only (offline).
set -e
cd "$(dirname "$0")"
export CARGO_NET_OFFLINE=true
( cd driver && cargo +nightly build --release --offline )
# warm the dependency target dir so that the first check is fast
python3 -m engine.build all
