// mirdump — rustc_private driver that dumps the type-checked program of the
// workspace crate (MIR before borrowck steals it, ADT tables, evaluated
// constants, impl tables) as one JSON "facts" document.
//
// Used as RUSTC_WORKSPACE_WRAPPER: argv[1] is the real rustc path (dropped).
// Output file: $MIRDUMP_OUT (required).  One write per process.
#![feature(rustc_private)]
#![allow(rustc::internal)]

extern crate rustc_abi;
extern crate rustc_driver;
extern crate rustc_hir;
extern crate rustc_interface;
extern crate rustc_middle;
extern crate rustc_session;
extern crate rustc_span;

use rustc_driver::Compilation;
use rustc_hir::def::DefKind;
use rustc_hir::def_id::DefId;
use rustc_middle::mir::{
    self, AggregateKind, AssertKind, Body, BorrowKind, CastKind, Const, ConstValue, Operand,
    Place, ProjectionElem, Rvalue, StatementKind, TerminatorKind, UnOp, UnwindAction,
};
use rustc_middle::ty::{self, GenericArgKind, GenericArgsRef, Instance, Ty, TyCtxt, TypingEnv};
use rustc_span::Span;
use std::collections::HashMap;
use std::fmt::Write as _;

mod json {
    pub fn esc(s: &str) -> String {
        let mut o = String::with_capacity(s.len() + 2);
        o.push('"');
        for c in s.chars() {
            match c {
                '"' => o.push_str("\\\""),
                '\\' => o.push_str("\\\\"),
                '\n' => o.push_str("\\n"),
                '\r' => o.push_str("\\r"),
                '\t' => o.push_str("\\t"),
                c if (c as u32) < 0x20 => o.push_str(&format!("\\u{:04x}", c as u32)),
                c => o.push(c),
            }
        }
        o.push('"');
        o
    }
    pub fn arr(items: &[String]) -> String {
        format!("[{}]", items.join(","))
    }
    pub fn obj(items: &[(&str, String)]) -> String {
        let mut o = String::from("{");
        let mut first = true;
        for (k, v) in items {
            if !first {
                o.push(',');
            }
            first = false;
            o.push_str(&esc(k));
            o.push(':');
            o.push_str(v);
        }
        o.push('}');
        o
    }
    pub fn b(v: bool) -> String {
        if v { "true".into() } else { "false".into() }
    }
    pub fn opt(v: Option<String>) -> String {
        v.unwrap_or_else(|| "null".into())
    }
}
use json::{arr, b, esc, obj, opt};

struct Dumper<'tcx> {
    tcx: TyCtxt<'tcx>,
    types: Vec<String>,
    ty_ids: HashMap<Ty<'tcx>, usize>,
    adts_seen: Vec<DefId>,
    adt_ids: HashMap<DefId, usize>,
}

impl<'tcx> Dumper<'tcx> {
    fn path(&self, did: DefId) -> String {
        self.tcx.def_path_str(did)
    }

    fn ty(&mut self, t: Ty<'tcx>) -> usize {
        if let Some(&i) = self.ty_ids.get(&t) {
            return i;
        }
        // reserve the slot first (recursive types through ADT args are finite, but be safe)
        let id = self.types.len();
        self.types.push(String::new());
        self.ty_ids.insert(t, id);
        let s = esc(&format!("{}", t));
        let js = match *t.kind() {
            ty::Bool => obj(&[("k", esc("bool")), ("s", s)]),
            ty::Char => obj(&[("k", esc("char")), ("s", s)]),
            ty::Int(it) => {
                let bits = it.bit_width().unwrap_or(64);
                obj(&[
                    ("k", esc("int")),
                    ("bits", bits.to_string()),
                    ("ptr", b(it.bit_width().is_none())),
                    ("s", s),
                ])
            }
            ty::Uint(ut) => {
                let bits = ut.bit_width().unwrap_or(64);
                obj(&[
                    ("k", esc("uint")),
                    ("bits", bits.to_string()),
                    ("ptr", b(ut.bit_width().is_none())),
                    ("s", s),
                ])
            }
            ty::Float(ft) => obj(&[("k", esc("float")), ("bits", ft.bit_width().to_string()), ("s", s)]),
            ty::Str => obj(&[("k", esc("str")), ("s", s)]),
            ty::Never => obj(&[("k", esc("never")), ("s", s)]),
            ty::Adt(adt, args) => {
                let did = adt.did();
                if !self.adt_ids.contains_key(&did) {
                    self.adt_ids.insert(did, self.adts_seen.len());
                    self.adts_seen.push(did);
                }
                let a = self.generic_args(args);
                obj(&[("k", esc("adt")), ("path", esc(&self.path(did))), ("args", a), ("s", s)])
            }
            ty::Ref(_, inner, m) => {
                let i = self.ty(inner);
                obj(&[("k", esc("ref")), ("mut", b(m.is_mut())), ("to", i.to_string()), ("s", s)])
            }
            ty::RawPtr(inner, m) => {
                let i = self.ty(inner);
                obj(&[("k", esc("ptr")), ("mut", b(m.is_mut())), ("to", i.to_string()), ("s", s)])
            }
            ty::Slice(inner) => {
                let i = self.ty(inner);
                obj(&[("k", esc("slice")), ("of", i.to_string()), ("s", s)])
            }
            ty::Array(inner, len) => {
                let i = self.ty(inner);
                let n = len.try_to_target_usize(self.tcx);
                obj(&[
                    ("k", esc("array")),
                    ("of", i.to_string()),
                    ("len", n.map(|n| n.to_string()).unwrap_or_else(|| "null".into())),
                    ("lenp", if n.is_none() { esc(&format!("{}", len)) } else { "null".into() }),
                    ("s", s),
                ])
            }
            ty::Tuple(tys) => {
                let v: Vec<String> = tys.iter().map(|t| self.ty(t).to_string()).collect();
                obj(&[("k", esc("tuple")), ("of", arr(&v)), ("s", s)])
            }
            ty::FnDef(did, args) => {
                let a = self.generic_args(args);
                obj(&[("k", esc("fndef")), ("path", esc(&self.path(did))), ("args", a), ("s", s)])
            }
            ty::Closure(did, args) => {
                let ups: Vec<String> =
                    args.as_closure().upvar_tys().iter().map(|t| self.ty(t).to_string()).collect();
                let parent = self.generic_args(args.as_closure().parent_args());
                obj(&[
                    ("k", esc("closure")),
                    ("path", esc(&self.path(did))),
                    ("upvars", arr(&ups)),
                    ("args", parent),
                    ("s", s),
                ])
            }
            ty::Coroutine(did, args) => {
                let ups: Vec<String> =
                    args.as_coroutine().upvar_tys().iter().map(|t| self.ty(t).to_string()).collect();
                obj(&[("k", esc("coroutine")), ("path", esc(&self.path(did))), ("upvars", arr(&ups)), ("s", s)])
            }
            ty::CoroutineClosure(did, _) => obj(&[("k", esc("coroutine_closure")), ("path", esc(&self.path(did))), ("s", s)]),
            ty::Param(p) => obj(&[("k", esc("param")), ("name", esc(p.name.as_str())), ("index", p.index.to_string()), ("s", s)]),
            ty::FnPtr(..) => obj(&[("k", esc("fnptr")), ("s", s)]),
            ty::Dynamic(..) => obj(&[("k", esc("dyn")), ("s", s)]),
            ty::Alias(..) => obj(&[("k", esc("alias")), ("s", s)]),
            ty::Foreign(..) => obj(&[("k", esc("foreign")), ("s", s)]),
            _ => obj(&[("k", esc("other")), ("s", s)]),
        };
        self.types[id] = js;
        id
    }

    fn generic_args(&mut self, args: &[ty::GenericArg<'tcx>]) -> String {
        let mut v = Vec::new();
        for a in args.iter() {
            match a.kind() {
                GenericArgKind::Type(t) => v.push(self.ty(t).to_string()),
                GenericArgKind::Const(c) => v.push(esc(&format!("{}", c))),
                GenericArgKind::Lifetime(_) => {}
            }
        }
        arr(&v)
    }

    fn span(&self, sp: Span) -> String {
        let sm = self.tcx.sess.source_map();
        let exp = sp.from_expansion();
        // location of the outermost call site (what the user wrote)
        let root = sp.source_callsite();
        let lo = sm.lookup_char_pos(root.lo());
        let hi = sm.lookup_char_pos(root.hi());
        let file = match &lo.file.name {
            rustc_span::FileName::Real(r) => r
                .local_path()
                .map(|p| p.to_string_lossy().to_string())
                .unwrap_or_else(|| format!("{:?}", lo.file.name)),
            other => format!("{:?}", other),
        };
        let mut items = vec![
            ("f", esc(&file)),
            ("l", lo.line.to_string()),
            ("c", (lo.col.0 + 1).to_string()),
            ("el", hi.line.to_string()),
            ("ec", (hi.col.0 + 1).to_string()),
        ];
        if exp {
            let ed = sp.ctxt().outer_expn_data();
            let mname = match ed.kind {
                rustc_span::ExpnKind::Macro(_, name) => name.to_string(),
                rustc_span::ExpnKind::Desugaring(d) => format!("desugar:{:?}", d),
                rustc_span::ExpnKind::AstPass(p) => format!("astpass:{:?}", p),
                rustc_span::ExpnKind::Root => "root".to_string(),
            };
            items.push(("x", esc(&mname)));
            // also the outermost macro name
            let mut cur = sp;
            let mut outer = String::new();
            let mut guard = 0;
            while cur.from_expansion() && guard < 64 {
                let d = cur.ctxt().outer_expn_data();
                if let rustc_span::ExpnKind::Macro(_, name) = d.kind {
                    outer = name.to_string();
                } else if let rustc_span::ExpnKind::Desugaring(dk) = d.kind {
                    outer = format!("desugar:{:?}", dk);
                }
                cur = d.call_site;
                guard += 1;
            }
            items.push(("xo", esc(&outer)));
        }
        obj(&items)
    }

    fn place(&mut self, p: &Place<'tcx>) -> String {
        let mut proj = Vec::new();
        for e in p.projection.iter() {
            let j = match e {
                ProjectionElem::Deref => esc("*"),
                ProjectionElem::Field(f, t) => {
                    let ti = self.ty(t);
                    obj(&[("f", f.as_usize().to_string()), ("ty", ti.to_string())])
                }
                ProjectionElem::Index(l) => obj(&[("i", l.as_usize().to_string())]),
                ProjectionElem::ConstantIndex { offset, min_length, from_end } => obj(&[
                    ("ci", offset.to_string()),
                    ("min", min_length.to_string()),
                    ("fe", b(from_end)),
                ]),
                ProjectionElem::Subslice { from, to, from_end } => {
                    obj(&[("ss", arr(&[from.to_string(), to.to_string()])), ("fe", b(from_end))])
                }
                ProjectionElem::Downcast(name, v) => obj(&[
                    ("d", v.as_usize().to_string()),
                    ("n", opt(name.map(|n| esc(n.as_str())))),
                ]),
                ProjectionElem::OpaqueCast(t) => {
                    let ti = self.ty(t);
                    obj(&[("oc", ti.to_string())])
                }
                ProjectionElem::UnwrapUnsafeBinder(_) => esc("unwrap_binder"),
            };
            proj.push(j);
        }
        obj(&[("l", p.local.as_usize().to_string()), ("p", arr(&proj))])
    }

    fn fn_ref(&mut self, did: DefId, args: GenericArgsRef<'tcx>, env: TypingEnv<'tcx>) -> String {
        let tcx = self.tcx;
        let mut items: Vec<(&str, String)> = vec![
            ("path", esc(&self.path(did))),
            ("args", self.generic_args(args)),
            ("s", esc(&tcx.def_path_str_with_args(did, args))),
            ("local", b(did.is_local())),
        ];
        let dk = tcx.def_kind(did);
        if let DefKind::Ctor(of, _) = dk {
            // tuple-struct / tuple-variant constructor used as a function
            let (adt_did, vname) = match of {
                rustc_hir::def::CtorOf::Variant => {
                    let v = tcx.parent(did);
                    (tcx.parent(v), tcx.item_name(v).to_string())
                }
                rustc_hir::def::CtorOf::Struct => {
                    let sdid = tcx.parent(did);
                    (sdid, tcx.item_name(sdid).to_string())
                }
            };
            items.push(("ctor_adt", esc(&self.path(adt_did))));
            items.push(("ctor_variant", esc(&vname)));
        }
        if matches!(dk, DefKind::AssocFn) {
            if let Some(tr) = tcx.trait_of_assoc(did) {
                items.push(("trait", esc(&self.path(tr))));
                items.push(("name", esc(tcx.item_name(did).as_str())));
                if args.len() > 0 {
                    if let Some(t0) = args.get(0).and_then(|a| a.as_type()) {
                        items.push(("self_ty", self.ty(t0).to_string()));
                    }
                }
            } else if let Some(imp) = tcx.impl_of_assoc(did) {
                items.push(("name", esc(tcx.item_name(did).as_str())));
                let st = tcx.type_of(imp).instantiate_identity().skip_norm_wip();
                items.push(("impl_self", esc(&format!("{}", st))));
                if let Some(tr) = tcx.impl_opt_trait_ref(imp) {
                    let tr = tr.instantiate_identity().skip_norm_wip();
                    items.push(("impl_trait", esc(&self.path(tr.def_id))));
                }
            }
        }
        if matches!(dk, DefKind::Fn | DefKind::AssocFn) {
            // try to resolve to the concrete instance
            let r = std::panic::catch_unwind(std::panic::AssertUnwindSafe(|| {
                Instance::try_resolve(tcx, env, did, args)
            }));
            if let Ok(Ok(Some(inst))) = r {
                let rd = inst.def_id();
                if rd != did {
                    items.push(("resolved", esc(&self.path(rd))));
                    items.push(("resolved_s", esc(&tcx.def_path_str_with_args(rd, inst.args))));
                    items.push(("resolved_args", self.generic_args(inst.args)));
                    items.push(("resolved_local", b(rd.is_local())));
                }
                let kind = match inst.def {
                    ty::InstanceKind::Item(_) => "item",
                    ty::InstanceKind::Intrinsic(_) => "intrinsic",
                    ty::InstanceKind::Virtual(..) => "virtual",
                    ty::InstanceKind::ClosureOnceShim { .. } => "closure_once_shim",
                    ty::InstanceKind::FnPtrShim(..) => "fnptr_shim",
                    ty::InstanceKind::CloneShim(..) => "clone_shim",
                    ty::InstanceKind::DropGlue(..) => "drop_glue",
                    _ => "other",
                };
                items.push(("inst", esc(kind)));
            }
        }
        obj(&items)
    }

    fn constant(&mut self, c: &Const<'tcx>, env: TypingEnv<'tcx>) -> String {
        let tcx = self.tcx;
        let t = c.ty();
        let mut items: Vec<(&str, String)> = vec![("ty", self.ty(t).to_string())];
        match *t.kind() {
            ty::FnDef(did, args) => {
                items.push(("fn", self.fn_ref(did, args, env)));
                return obj(&items);
            }
            ty::Closure(did, _) => {
                items.push(("closure", esc(&self.path(did))));
                return obj(&items);
            }
            _ => {}
        }
        if let Const::Unevaluated(uv, _) = c {
            if let Some(p) = uv.promoted {
                items.push(("promoted", p.as_usize().to_string()));
                return obj(&items);
            } else {
                items.push(("item", esc(&self.path(uv.def))));
            }
        }
        // evaluate
        let ev = std::panic::catch_unwind(std::panic::AssertUnwindSafe(|| c.eval(tcx, env, rustc_span::DUMMY_SP)));
        if let Ok(Ok(val)) = ev {
            self.const_value(&val, t, &mut items);
        } else {
            // a const item nested in a generic fn that does not use the parameters
            let mut done = false;
            if let Const::Unevaluated(uv, _) = c {
                let evaluable = !matches!(tcx.def_kind(uv.def), DefKind::AssocConst { .. }) || assoc_const_has_value(tcx, uv.def);
                if uv.promoted.is_none() && evaluable {
                    let did = uv.def;
                    let r = std::panic::catch_unwind(std::panic::AssertUnwindSafe(|| tcx.const_eval_poly(did)));
                    if let Ok(Ok(val)) = r {
                        self.const_value(&val, t, &mut items);
                        done = true;
                    }
                }
            }
            if !done {
                items.push(("uneval", esc(&format!("{}", c))));
            }
        }
        obj(&items)
    }

    /// Structured view of an aggregate constant (arrays / tuples / ADTs of scalars), independent of memory layout.
    fn const_tree(&mut self, val: &ConstValue, t: Ty<'tcx>, depth: usize) -> Option<String> {
        let tcx = self.tcx;
        if depth > 4 {
            return None;
        }
        match t.kind() {
            ty::Bool | ty::Char | ty::Int(_) | ty::Uint(_) => {
                if let ConstValue::Scalar(mir::interpret::Scalar::Int(i)) = val {
                    let size = i.size();
                    let bits = i.to_bits(size);
                    let v = if let ty::Int(_) = t.kind() { (size.sign_extend(bits) as i128).to_string() } else { bits.to_string() };
                    let tid = self.ty(t);
                    return Some(obj(&[("int", v), ("ty", tid.to_string())]));
                }
                None
            }
            ty::Ref(_, inner, _) if inner.is_str() || matches!(inner.kind(), ty::Slice(e) if matches!(e.kind(), ty::Uint(ty::UintTy::U8))) => {
                let bytes: Option<Vec<u8>> = match val {
                    ConstValue::Slice { .. } => val.try_get_slice_bytes_for_diagnostics(tcx).map(|b| b.to_vec()),
                    ConstValue::Indirect { alloc_id, offset } => {
                        if let Some(rustc_middle::mir::interpret::GlobalAlloc::Memory(a)) = tcx.try_get_global_alloc(*alloc_id) {
                            self.follow_fat_ptr(a.inner(), offset.bytes() as usize)
                        } else {
                            None
                        }
                    }
                    _ => None,
                };
                if bytes.is_none() && std::env::var("MIRDUMP_DEBUG").is_ok() {
                    eprintln!("const_tree: ref leaf not a readable slice: {:?}", val);
                }
                let bytes = bytes?;
                if bytes.len() > 4096 {
                    return None;
                }
                let v: Vec<String> = bytes.iter().map(|b| b.to_string()).collect();
                let tid = self.ty(t);
                Some(obj(&[("bytes", arr(&v)), ("ty", tid.to_string())]))
            }
            ty::FnPtr(..) => {
                // a function pointer in a constant table: the function item it points to
                if let ConstValue::Scalar(mir::interpret::Scalar::Ptr(ptr, _)) = val {
                    let aid = ptr.provenance.alloc_id();
                    if let Some(rustc_middle::mir::interpret::GlobalAlloc::Function { instance, .. }) = tcx.try_get_global_alloc(aid) {
                        let env = TypingEnv::fully_monomorphized();
                        let fr = self.fn_ref(instance.def_id(), instance.args, env);
                        let tid = self.ty(t);
                        return Some(obj(&[("fnptr", fr), ("ty", tid.to_string())]));
                    }
                }
                None
            }
            ty::Array(..) | ty::Tuple(..) | ty::Adt(..) => {
                if let ty::Adt(def, _) = t.kind() {
                    if !(def.is_struct() || def.is_enum()) {
                        return None;
                    }
                }
                let r = std::panic::catch_unwind(std::panic::AssertUnwindSafe(|| tcx.try_destructure_mir_constant_for_user_output(*val, t)));
                let d = match r {
                    Ok(Some(d)) => d,
                    _ => {
                        if std::env::var("MIRDUMP_DEBUG").is_ok() {
                            eprintln!("const_tree: destructure failed for {:?}", t);
                        }
                        return None;
                    }
                };
                if d.fields.len() > 512 {
                    return None;
                }
                let mut fs = Vec::new();
                for (fv, ft) in d.fields.iter() {
                    fs.push(self.const_tree(fv, *ft, depth + 1)?);
                }
                let tid = self.ty(t);
                let kind = match t.kind() {
                    ty::Array(..) => "array",
                    ty::Tuple(..) => "tuple",
                    _ => "adt",
                };
                let mut items = vec![("agg", esc(kind)), ("ty", tid.to_string()), ("fields", arr(&fs))];
                if let Some(v) = d.variant {
                    items.push(("variant", v.as_usize().to_string()));
                }
                Some(obj(&items))
            }
            _ => {
                if std::env::var("MIRDUMP_DEBUG").is_ok() {
                    eprintln!("const_tree: unsupported leaf type {:?}", t);
                }
                None
            }
        }
    }

    fn const_value(&mut self, val: &ConstValue, t: Ty<'tcx>, items: &mut Vec<(&'static str, String)>) {
        let tcx = self.tcx;
        if matches!(val, ConstValue::Indirect { .. }) && matches!(t.kind(), ty::Array(..) | ty::Tuple(..) | ty::Adt(..)) {
            let elem_is_byte = matches!(t.kind(), ty::Array(e, _) if matches!(e.kind(), ty::Uint(ty::UintTy::U8)));
            if !elem_is_byte {
                if let Some(tree) = self.const_tree(val, t, 0) {
                    items.push(("tree", tree));
                }
            }
        }
        match val {
            ConstValue::Scalar(mir::interpret::Scalar::Int(i)) => {
                let size = i.size();
                let bits = i.to_bits(size);
                items.push(("bits", bits.to_string()));
                items.push(("size", size.bytes().to_string()));
                if let ty::Int(_) = t.kind() {
                    let sv = size.sign_extend(bits) as i128;
                    items.push(("int", sv.to_string()));
                } else {
                    items.push(("int", bits.to_string()));
                }
            }
            ConstValue::Scalar(mir::interpret::Scalar::Ptr(ptr, _)) => {
                // pointer to an allocation: try to read bytes for &[u8; N] / &u8 etc.
                let (prov, off) = ptr.prov_and_relative_offset();
                let alloc_id = prov.alloc_id();
                if let Some(rustc_middle::mir::interpret::GlobalAlloc::Memory(a)) = tcx.try_get_global_alloc(alloc_id) {
                    let a = a.inner();
                    let n = a.len();
                    let start = off.bytes() as usize;
                    if start <= n && a.provenance().ptrs().is_empty() {
                        let bytes = a.inspect_with_uninit_and_ptr_outside_interpreter(start..n);
                        let v: Vec<String> = bytes.iter().map(|b| b.to_string()).collect();
                        items.push(("ptr_bytes", arr(&v)));
                    } else {
                        items.push(("ptr", esc("alloc")));
                    }
                } else {
                    items.push(("ptr", esc("other")));
                }
            }
            ConstValue::ZeroSized => {
                items.push(("zst", "true".into()));
            }
            ConstValue::Slice { .. } => {
                if let Some(bytes) = val.try_get_slice_bytes_for_diagnostics(tcx) {
                    let v: Vec<String> = bytes.iter().map(|b| b.to_string()).collect();
                    items.push(("bytes", arr(&v)));
                    if let Ok(s) = std::str::from_utf8(bytes) {
                        items.push(("str", esc(s)));
                    }
                } else {
                    items.push(("slice", esc("unreadable")));
                }
            }
            ConstValue::Indirect { alloc_id, offset } => {
                if let Some(rustc_middle::mir::interpret::GlobalAlloc::Memory(a)) = tcx.try_get_global_alloc(*alloc_id) {
                    let a = a.inner();
                    let n = a.len();
                    let start = offset.bytes() as usize;
                    if start <= n && a.provenance().ptrs().is_empty() {
                        let bytes = a.inspect_with_uninit_and_ptr_outside_interpreter(start..n);
                        let v: Vec<String> = bytes.iter().map(|b| b.to_string()).collect();
                        items.push(("indirect_bytes", arr(&v)));
                    } else if let Some(bytes) = self.follow_fat_ptr(a, start) {
                        let v: Vec<String> = bytes.iter().map(|b| b.to_string()).collect();
                        items.push(("bytes", arr(&v)));
                        if matches!(t.kind(), ty::Ref(_, inner, _) if inner.is_str()) {
                            if let Ok(s) = std::str::from_utf8(&bytes) {
                                items.push(("str", esc(s)));
                            }
                        }
                    } else {
                        items.push(("indirect", esc("ptrs")));
                    }
                }
            }
        }
    }

    /// `a` holds a fat pointer (data ptr, len) at `start`: return the pointed-to bytes.
    fn follow_fat_ptr(&self, a: &rustc_middle::mir::interpret::Allocation, start: usize) -> Option<Vec<u8>> {
        let tcx = self.tcx;
        if a.len() < start + 16 {
            return None;
        }
        let raw = a.inspect_with_uninit_and_ptr_outside_interpreter(start..start + 16);
        let mut off8 = [0u8; 8];
        off8.copy_from_slice(&raw[0..8]);
        let mut len8 = [0u8; 8];
        len8.copy_from_slice(&raw[8..16]);
        let off = u64::from_le_bytes(off8) as usize;
        let len = u64::from_le_bytes(len8) as usize;
        let mut target = None;
        for (o, prov) in a.provenance().ptrs().iter() {
            if o.bytes() as usize == start {
                target = Some(prov.alloc_id());
            }
        }
        let target = target?;
        if let Some(rustc_middle::mir::interpret::GlobalAlloc::Memory(b)) = tcx.try_get_global_alloc(target) {
            let b = b.inner();
            if off + len <= b.len() && len <= 4096 {
                return Some(b.inspect_with_uninit_and_ptr_outside_interpreter(off..off + len).to_vec());
            }
        }
        None
    }

    fn operand(&mut self, o: &Operand<'tcx>, env: TypingEnv<'tcx>) -> String {
        match o {
            Operand::Copy(p) => obj(&[("c", self.place(p))]),
            Operand::Move(p) => obj(&[("m", self.place(p))]),
            Operand::Constant(c) => obj(&[("k", self.constant(&c.const_, env))]),
            other => obj(&[("rt", esc(&format!("{:?}", other)))]),
        }
    }

    fn rvalue(&mut self, rv: &Rvalue<'tcx>, env: TypingEnv<'tcx>) -> String {
        match rv {
            Rvalue::Use(o, _) => obj(&[("k", esc("use")), ("a", self.operand(o, env))]),
            Rvalue::Repeat(o, n) => {
                let cnt = n.try_to_target_usize(self.tcx);
                obj(&[
                    ("k", esc("repeat")),
                    ("a", self.operand(o, env)),
                    ("n", cnt.map(|n| n.to_string()).unwrap_or_else(|| "null".into())),
                    ("np", if cnt.is_none() { esc(&format!("{}", n)) } else { "null".into() }),
                ])
            }
            Rvalue::Ref(_, bk, p) => obj(&[
                ("k", esc("ref")),
                ("mut", b(matches!(bk, BorrowKind::Mut { .. }))),
                ("fake", b(matches!(bk, BorrowKind::Fake(_)))),
                ("p", self.place(p)),
            ]),
            Rvalue::RawPtr(kind, p) => obj(&[
                ("k", esc("rawptr")),
                ("kind", esc(&format!("{:?}", kind))),
                ("p", self.place(p)),
            ]),
            Rvalue::Cast(ck, o, t) => {
                let cks = match ck {
                    CastKind::IntToInt => "IntToInt".to_string(),
                    CastKind::FloatToInt => "FloatToInt".to_string(),
                    CastKind::FloatToFloat => "FloatToFloat".to_string(),
                    CastKind::IntToFloat => "IntToFloat".to_string(),
                    CastKind::PtrToPtr => "PtrToPtr".to_string(),
                    CastKind::Transmute => "Transmute".to_string(),
                    CastKind::PointerCoercion(pc, _) => format!("PointerCoercion:{:?}", pc),
                    other => format!("{:?}", other),
                };
                obj(&[
                    ("k", esc("cast")),
                    ("ck", esc(&cks)),
                    ("a", self.operand(o, env)),
                    ("ty", self.ty(*t).to_string()),
                ])
            }
            Rvalue::BinaryOp(op, ab) => obj(&[
                ("k", esc("bin")),
                ("op", esc(&format!("{:?}", op))),
                ("a", self.operand(&ab.0, env)),
                ("b", self.operand(&ab.1, env)),
            ]),
            Rvalue::UnaryOp(op, a) => obj(&[
                ("k", esc("un")),
                ("op", esc(match op {
                    UnOp::Not => "Not",
                    UnOp::Neg => "Neg",
                    UnOp::PtrMetadata => "PtrMetadata",
                })),
                ("a", self.operand(a, env)),
            ]),
            Rvalue::Discriminant(p) => obj(&[("k", esc("discr")), ("p", self.place(p))]),
            Rvalue::Aggregate(ak, ops) => {
                let opsj: Vec<String> = ops.iter().map(|o| self.operand(o, env)).collect();
                let mut items: Vec<(&str, String)> = vec![("k", esc("agg"))];
                match &**ak {
                    AggregateKind::Array(t) => {
                        items.push(("ak", esc("array")));
                        items.push(("ty", self.ty(*t).to_string()));
                    }
                    AggregateKind::Tuple => items.push(("ak", esc("tuple"))),
                    AggregateKind::Adt(did, vi, args, _, active) => {
                        items.push(("ak", esc("adt")));
                        items.push(("adt", esc(&self.path(*did))));
                        if !self.adt_ids.contains_key(did) {
                            self.adt_ids.insert(*did, self.adts_seen.len());
                            self.adts_seen.push(*did);
                        }
                        items.push(("variant", vi.as_usize().to_string()));
                        let adt = self.tcx.adt_def(*did);
                        items.push(("vname", esc(adt.variant(*vi).name.as_str())));
                        items.push(("args", self.generic_args(args)));
                        if let Some(f) = active {
                            items.push(("active", f.as_usize().to_string()));
                        }
                    }
                    AggregateKind::Closure(did, args) => {
                        items.push(("ak", esc("closure")));
                        items.push(("def", esc(&self.path(*did))));
                        items.push(("args", self.generic_args(args.as_closure().parent_args())));
                    }
                    AggregateKind::Coroutine(did, _) => {
                        items.push(("ak", esc("coroutine")));
                        items.push(("def", esc(&self.path(*did))));
                    }
                    AggregateKind::CoroutineClosure(did, _) => {
                        items.push(("ak", esc("coroutine_closure")));
                        items.push(("def", esc(&self.path(*did))));
                    }
                    AggregateKind::RawPtr(..) => items.push(("ak", esc("rawptr"))),
                }
                items.push(("ops", arr(&opsj)));
                obj(&items)
            }
            Rvalue::CopyForDeref(p) => obj(&[("k", esc("copyderef")), ("p", self.place(p))]),
            other => obj(&[("k", esc("other")), ("s", esc(&format!("{:?}", other)))]),
        }
    }

    fn body(&mut self, body: &Body<'tcx>, env: TypingEnv<'tcx>) -> Vec<(&'static str, String)> {
        let tcx = self.tcx;
        let mut locals = Vec::new();
        for (_l, d) in body.local_decls.iter_enumerated() {
            locals.push(obj(&[
                ("ty", self.ty(d.ty).to_string()),
                ("mut", b(d.mutability.is_mut())),
                ("user", b(d.is_user_variable())),
            ]));
        }
        let mut dbg = Vec::new();
        for v in &body.var_debug_info {
            if let mir::VarDebugInfoContents::Place(p) = &v.value {
                dbg.push(obj(&[("name", esc(v.name.as_str())), ("p", self.place(p)), ("arg", opt(v.argument_index.map(|i| i.to_string())))]));
            }
        }
        let mut blocks = Vec::new();
        for (_bb, data) in body.basic_blocks.iter_enumerated() {
            let mut stmts = Vec::new();
            for st in &data.statements {
                match &st.kind {
                    StatementKind::Assign(bx) => {
                        let (p, rv) = &**bx;
                        stmts.push(obj(&[
                            ("k", esc("assign")),
                            ("p", self.place(p)),
                            ("rv", self.rvalue(rv, env)),
                            ("sp", self.span(st.source_info.span)),
                        ]));
                    }
                    StatementKind::SetDiscriminant { place, variant_index } => {
                        stmts.push(obj(&[
                            ("k", esc("setdiscr")),
                            ("p", self.place(place)),
                            ("v", variant_index.as_usize().to_string()),
                        ]));
                    }
                    StatementKind::Intrinsic(i) => {
                        stmts.push(obj(&[("k", esc("intrinsic")), ("s", esc(&format!("{:?}", i)))]));
                    }
                    _ => {}
                }
            }
            let term = data.terminator();
            let sp = self.span(term.source_info.span);
            let uw = |u: &UnwindAction| -> String {
                match u {
                    UnwindAction::Cleanup(bb) => bb.as_usize().to_string(),
                    _ => "null".into(),
                }
            };
            let t = match &term.kind {
                TerminatorKind::Goto { target } => obj(&[("k", esc("goto")), ("t", target.as_usize().to_string())]),
                TerminatorKind::SwitchInt { discr, targets } => {
                    let vals: Vec<String> = targets.iter().map(|(v, _)| v.to_string()).collect();
                    let tg: Vec<String> = targets.iter().map(|(_, t)| t.as_usize().to_string()).collect();
                    let dty = discr.ty(&body.local_decls, tcx);
                    obj(&[
                        ("k", esc("switch")),
                        ("d", self.operand(discr, env)),
                        ("dty", self.ty(dty).to_string()),
                        ("vals", arr(&vals)),
                        ("tgts", arr(&tg)),
                        ("otherwise", targets.otherwise().as_usize().to_string()),
                    ])
                }
                TerminatorKind::UnwindResume => obj(&[("k", esc("resume"))]),
                TerminatorKind::UnwindTerminate(_) => obj(&[("k", esc("terminate"))]),
                TerminatorKind::Return => obj(&[("k", esc("ret"))]),
                TerminatorKind::Unreachable => obj(&[("k", esc("unreachable"))]),
                TerminatorKind::Drop { place, target, unwind, .. } => obj(&[
                    ("k", esc("drop")),
                    ("p", self.place(place)),
                    ("t", target.as_usize().to_string()),
                    ("u", uw(unwind)),
                ]),
                TerminatorKind::Call { func, args, destination, target, unwind, fn_span, .. } => {
                    let a: Vec<String> = args.iter().map(|s| self.operand(&s.node, env)).collect();
                    obj(&[
                        ("k", esc("call")),
                        ("f", self.operand(func, env)),
                        ("args", arr(&a)),
                        ("dest", self.place(destination)),
                        ("t", target.map(|t| t.as_usize().to_string()).unwrap_or_else(|| "null".into())),
                        ("u", uw(unwind)),
                        ("fsp", self.span(*fn_span)),
                    ])
                }
                TerminatorKind::TailCall { func, args, .. } => {
                    let a: Vec<String> = args.iter().map(|s| self.operand(&s.node, env)).collect();
                    obj(&[("k", esc("tailcall")), ("f", self.operand(func, env)), ("args", arr(&a))])
                }
                TerminatorKind::Assert { cond, expected, msg, target, unwind } => {
                    let m = match &**msg {
                        AssertKind::BoundsCheck { len, index } => obj(&[
                            ("k", esc("BoundsCheck")),
                            ("len", self.operand(len, env)),
                            ("index", self.operand(index, env)),
                        ]),
                        AssertKind::Overflow(op, a, bb) => obj(&[
                            ("k", esc("Overflow")),
                            ("op", esc(&format!("{:?}", op))),
                            ("a", self.operand(a, env)),
                            ("b", self.operand(bb, env)),
                        ]),
                        AssertKind::OverflowNeg(a) => obj(&[("k", esc("OverflowNeg")), ("a", self.operand(a, env))]),
                        AssertKind::DivisionByZero(a) => obj(&[("k", esc("DivisionByZero")), ("a", self.operand(a, env))]),
                        AssertKind::RemainderByZero(a) => obj(&[("k", esc("RemainderByZero")), ("a", self.operand(a, env))]),
                        other => obj(&[("k", esc("Other")), ("s", esc(&format!("{:?}", other)))]),
                    };
                    obj(&[
                        ("k", esc("assert")),
                        ("cond", self.operand(cond, env)),
                        ("exp", b(*expected)),
                        ("msg", m),
                        ("t", target.as_usize().to_string()),
                        ("u", uw(unwind)),
                    ])
                }
                TerminatorKind::Yield { value, resume, resume_arg, drop } => obj(&[
                    ("k", esc("yield")),
                    ("v", self.operand(value, env)),
                    ("t", resume.as_usize().to_string()),
                    ("resume_arg", self.place(resume_arg)),
                    ("drop", drop.map(|d| d.as_usize().to_string()).unwrap_or_else(|| "null".into())),
                ]),
                TerminatorKind::CoroutineDrop => obj(&[("k", esc("codrop"))]),
                TerminatorKind::FalseEdge { real_target, imaginary_target } => obj(&[
                    ("k", esc("goto")),
                    ("t", real_target.as_usize().to_string()),
                    ("imag", imaginary_target.as_usize().to_string()),
                ]),
                TerminatorKind::FalseUnwind { real_target, .. } => obj(&[
                    ("k", esc("goto")),
                    ("t", real_target.as_usize().to_string()),
                    ("false_unwind", "true".into()),
                ]),
                TerminatorKind::InlineAsm { .. } => obj(&[("k", esc("asm"))]),
            };
            blocks.push(obj(&[
                ("cleanup", b(data.is_cleanup)),
                ("stmts", arr(&stmts)),
                ("term", t),
                ("sp", sp),
            ]));
        }
        vec![
            ("arg_count", body.arg_count.to_string()),
            ("locals", arr(&locals)),
            ("debug", arr(&dbg)),
            ("blocks", arr(&blocks)),
            ("coroutine", b(body.coroutine.is_some())),
            ("span", self.span(body.span)),
        ]
    }
}

struct Cb;

impl rustc_driver::Callbacks for Cb {
    fn after_expansion<'tcx>(&mut self, _c: &rustc_interface::interface::Compiler, tcx: TyCtxt<'tcx>) -> Compilation {
        let out = match std::env::var("MIRDUMP_OUT") {
            Ok(o) => o,
            Err(_) => return Compilation::Continue,
        };
        let crate_name = tcx.crate_name(rustc_hir::def_id::LOCAL_CRATE).to_string();
        if let Ok(want) = std::env::var("MIRDUMP_CRATE") {
            if want != crate_name {
                return Compilation::Continue;
            }
        }
        let mut d = Dumper { tcx, types: Vec::new(), ty_ids: HashMap::new(), adts_seen: Vec::new(), adt_ids: HashMap::new() };

        // ---------- bodies
        let mut bodies = Vec::new();
        for ldid in tcx.hir_body_owners() {
            let did = ldid.to_def_id();
            let dk = tcx.def_kind(did);
            let kind = match dk {
                DefKind::Fn => "fn",
                DefKind::AssocFn => "assoc_fn",
                DefKind::Closure => "closure",
                DefKind::SyntheticCoroutineBody => "coroutine_body",
                _ => continue,
            };
            let env = TypingEnv::post_analysis(tcx, did);
            let (bsteal, psteal) = tcx.mir_promoted(ldid);
            let body = bsteal.borrow().clone();
            let promoted = psteal.borrow().clone();
            let mut items: Vec<(&str, String)> = vec![("path", esc(&d.path(did))), ("kind", esc(kind))];
            let parent = tcx.opt_parent(did).map(|p| d.path(p));
            items.push(("parent", opt(parent.map(|p| esc(&p)))));
            // is the body inside #[cfg(test)] mod / #[test]? (not in a lib check, but record attrs)
            items.push(("derived", b(is_derived(tcx, did))));
            // generics + predicates (of the typeck root for closures)
            let root = tcx.typeck_root_def_id(did);
            let gens = tcx.generics_of(root);
            let mut gnames = Vec::new();
            collect_generics(tcx, gens, &mut gnames);
            items.push(("generics", arr(&gnames.iter().map(|s| esc(s)).collect::<Vec<_>>())));
            let preds = tcx.predicates_of(root).instantiate_identity(tcx);
            let ps: Vec<String> = preds.predicates.iter().map(|p| esc(&format!("{}", p.skip_norm_wip()))).collect();
            items.push(("preds", arr(&ps)));
            if matches!(dk, DefKind::AssocFn) {
                if let Some(imp) = tcx.impl_of_assoc(did) {
                    let st = tcx.type_of(imp).instantiate_identity().skip_norm_wip();
                    items.push(("impl_self", esc(&format!("{}", st))));
                    items.push(("impl_self_ty", d.ty(st).to_string()));
                    if let Some(tr) = tcx.impl_opt_trait_ref(imp) {
                        let tr = tr.instantiate_identity().skip_norm_wip();
                        items.push(("impl_trait", esc(&d.path(tr.def_id))));
                        items.push(("impl_trait_s", esc(&format!("{}", tr))));
                    }
                }
                items.push(("name", esc(tcx.item_name(did).as_str())));
            }
            if matches!(dk, DefKind::Fn | DefKind::AssocFn) {
                items.push(("vis", esc(&format!("{:?}", tcx.visibility(did)))));
                items.push(("is_async", b(tcx.asyncness(did).is_async())));
            }
            let ret_ty = body.return_ty();
            items.push(("ret_ty", d.ty(ret_ty).to_string()));
            let bi = d.body(&body, env);
            items.extend(bi);
            let mut pj = Vec::new();
            for p in promoted.iter() {
                let pi = d.body(p, env);
                pj.push(obj(&pi));
            }
            items.push(("promoted", arr(&pj)));
            bodies.push(obj(&items));
        }

        // ---------- consts, impls, local ADTs, traits
        let mut consts = Vec::new();
        let mut impls = Vec::new();
        let mut fns_sigs = Vec::new();
        for ldid in tcx.hir_crate_items(()).definitions() {
            let did = ldid.to_def_id();
            match tcx.def_kind(did) {
                DefKind::Const { .. } | DefKind::AssocConst { .. } | DefKind::Static { .. } => {
                    let t = tcx.type_of(did).instantiate_identity().skip_norm_wip();
                    let mut items: Vec<(&'static str, String)> =
                        vec![("path", esc(&d.path(did))), ("ty", d.ty(t).to_string()), ("sp", d.span(tcx.def_span(did)))];
                    let gens = tcx.generics_of(did);
                    let _ = gens;
                    // an associated const declared in a trait without a default has no body to evaluate
                    let has_value = if matches!(tcx.def_kind(did), DefKind::AssocConst { .. }) {
                        assoc_const_has_value(tcx, did)
                    } else {
                        true
                    };
                    if has_value && !matches!(tcx.def_kind(did), DefKind::Static { .. }) {
                        let r = std::panic::catch_unwind(std::panic::AssertUnwindSafe(|| tcx.const_eval_poly(did)));
                        if let Ok(Ok(val)) = r {
                            d.const_value(&val, t, &mut items);
                            // follow a reference to a slice/array for `&[u8]`-like consts
                        }
                    }
                    consts.push(obj(&items));
                }
                DefKind::Struct | DefKind::Enum | DefKind::Union => {
                    if !d.adt_ids.contains_key(&did) {
                        d.adt_ids.insert(did, d.adts_seen.len());
                        d.adts_seen.push(did);
                    }
                }
                DefKind::Impl { .. } => {
                    let st = tcx.type_of(did).instantiate_identity().skip_norm_wip();
                    let mut items: Vec<(&str, String)> = vec![
                        ("self", esc(&format!("{}", st))),
                        ("self_ty", d.ty(st).to_string()),
                        ("derived", b(tcx.is_automatically_derived(did))),
                        ("sp", d.span(tcx.def_span(did))),
                    ];
                    if let Some(tr) = tcx.impl_opt_trait_ref(did) {
                        let tr = tr.instantiate_identity().skip_norm_wip();
                        items.push(("trait", esc(&d.path(tr.def_id))));
                        items.push(("trait_s", esc(&format!("{}", tr))));
                        items.push(("trait_args", d.generic_args(tr.args)));
                    }
                    let mut its = Vec::new();
                    for it in tcx.associated_items(did).in_definition_order() {
                        its.push(obj(&[("name", esc(it.name().as_str())), ("path", esc(&d.path(it.def_id)))]));
                    }
                    items.push(("items", arr(&its)));
                    // the trait's associated consts as this impl sees them (overridden or defaulted), evaluated with
                    // Self = the impl's type: `<Impl as Trait>::NAME`
                    if let Some(tr) = tcx.impl_opt_trait_ref(did) {
                        let tr = tr.instantiate_identity().skip_norm_wip();
                        let generic_impl = tcx.generics_of(did).count() > 0;
                        if tr.def_id.is_local() && !generic_impl {
                            for it in tcx.associated_items(tr.def_id).in_definition_order() {
                                if !matches!(tcx.def_kind(it.def_id), DefKind::AssocConst { .. }) {
                                    continue;
                                }
                                let uv = rustc_middle::mir::UnevaluatedConst::new(it.def_id, tr.args);
                                let r = std::panic::catch_unwind(std::panic::AssertUnwindSafe(|| {
                                    tcx.const_eval_resolve(TypingEnv::fully_monomorphized(), uv, rustc_span::DUMMY_SP)
                                }));
                                if let Ok(Ok(val)) = r {
                                    let ct = tcx.type_of(it.def_id).instantiate(tcx, tr.args).skip_norm_wip();
                                    let mut ci: Vec<(&'static str, String)> = vec![
                                        ("path", esc(&format!("<{} as {}>::{}", st, d.path(tr.def_id), it.name().as_str()))),
                                        ("ty", d.ty(ct).to_string()),
                                        ("sp", d.span(tcx.def_span(it.def_id))),
                                        ("via_impl", b(true)),
                                    ];
                                    d.const_value(&val, ct, &mut ci);
                                    consts.push(obj(&ci));
                                }
                            }
                        }
                    }
                    impls.push(obj(&items));
                }
                DefKind::Fn | DefKind::AssocFn => {
                    let sig = tcx.fn_sig(did).instantiate_identity().skip_norm_wip();
                    fns_sigs.push(obj(&[("path", esc(&d.path(did))), ("sig", esc(&format!("{}", sig)))]));
                }
                _ => {}
            }
        }

        // ---------- ADT table (grows while dumping field types; iterate to fixpoint)
        let mut adts = Vec::new();
        let mut i = 0;
        while i < d.adts_seen.len() {
            let did = d.adts_seen[i];
            i += 1;
            let adt = tcx.adt_def(did);
            let local = did.is_local();
            let kind = if adt.is_enum() { "enum" } else if adt.is_union() { "union" } else { "struct" };
            let gens = tcx.generics_of(did);
            let mut gnames = Vec::new();
            collect_generics(tcx, gens, &mut gnames);
            let mut items: Vec<(&str, String)> = vec![
                ("path", esc(&d.path(did))),
                ("kind", esc(kind)),
                ("local", b(local)),
                ("generics", arr(&gnames.iter().map(|s| esc(s)).collect::<Vec<_>>())),
            ];
            // expand variants for local ADTs and for foreign enums; foreign structs stay opaque
            let expand = local || adt.is_enum();
            if expand {
                let mut vs = Vec::new();
                let discrs: Vec<(usize, u128)> = if adt.is_enum() {
                    adt.discriminants(tcx).map(|(vi, dv)| (vi.as_usize(), dv.val)).collect()
                } else {
                    vec![(0, 0)]
                };
                for (vi, v) in adt.variants().iter_enumerated() {
                    let dv = discrs.iter().find(|(i, _)| *i == vi.as_usize()).map(|x| x.1).unwrap_or(0);
                    let mut fs = Vec::new();
                    for f in v.fields.iter() {
                        let ft = tcx.type_of(f.did).instantiate_identity().skip_norm_wip();
                        // foreign enums: only expand field types structurally (may pull more ADTs: fine, bounded)
                        fs.push(obj(&[
                            ("name", esc(f.name.as_str())),
                            ("ty", d.ty(ft).to_string()),
                            ("pub", b(f.vis.is_public())),
                        ]));
                    }
                    vs.push(obj(&[
                        ("name", esc(v.name.as_str())),
                        ("discr", dv.to_string()),
                        ("fields", arr(&fs)),
                    ]));
                }
                items.push(("variants", arr(&vs)));
            }
            if local {
                items.push(("sp", d.span(tcx.def_span(did))));
            }
            adts.push(obj(&items));
            if d.adts_seen.len() > 5000 {
                break;
            }
        }

        // ---------- cfg / features
        let mut feats = Vec::new();
        for (name, val) in tcx.sess.config.iter() {
            if name.as_str() == "feature" {
                if let Some(v) = val {
                    feats.push(esc(v.as_str()));
                }
            }
        }
        feats.sort();
        let doc = obj(&[
            ("crate", esc(&crate_name)),
            ("rustc", esc(&rustc_version())),
            ("features", arr(&feats)),
            ("debug_assertions", b(tcx.sess.opts.debug_assertions)),
            ("overflow_checks", b(tcx.sess.overflow_checks())),
            ("types", arr(&d.types)),
            ("adts", arr(&adts)),
            ("consts", arr(&consts)),
            ("impls", arr(&impls)),
            ("fn_sigs", arr(&fns_sigs)),
            ("bodies", arr(&bodies)),
        ]);
        let tmp = format!("{}.tmp.{}", out, std::process::id());
        std::fs::write(&tmp, doc).expect("mirdump: cannot write facts");
        std::fs::rename(&tmp, &out).expect("mirdump: cannot rename facts");
        let mut msg = String::new();
        let _ = write!(msg, "mirdump: crate {} bodies {} types {} adts {}", crate_name, bodies.len(), d.types.len(), adts.len());
        eprintln!("{}", msg);
        Compilation::Continue
    }
}

fn rustc_version() -> String {
    option_env!("CFG_VERSION").unwrap_or("nightly").to_string()
}

fn is_derived<'tcx>(tcx: TyCtxt<'tcx>, did: DefId) -> bool {
    // closures inherit from their parent
    let mut cur = did;
    for _ in 0..8 {
        if let Some(imp) = match tcx.def_kind(cur) {
            DefKind::AssocFn => tcx.impl_of_assoc(cur),
            _ => None,
        } {
            return tcx.is_automatically_derived(imp);
        }
        match tcx.opt_parent(cur) {
            Some(p) => cur = p,
            None => return false,
        }
    }
    false
}

fn collect_generics<'tcx>(tcx: TyCtxt<'tcx>, g: &'tcx ty::Generics, out: &mut Vec<String>) {
    if let Some(p) = g.parent {
        collect_generics(tcx, tcx.generics_of(p), out);
    }
    for p in &g.own_params {
        match p.kind {
            ty::GenericParamDefKind::Type { .. } => out.push(p.name.to_string()),
            ty::GenericParamDefKind::Const { .. } => out.push(format!("const {}", p.name)),
            ty::GenericParamDefKind::Lifetime => {}
        }
    }
}

/// `tcx.defaultness` is only defined for items of a trait or of a trait impl (it ICEs on an inherent impl's item):
/// an associated const of an inherent impl always has a value.
fn assoc_const_has_value(tcx: TyCtxt<'_>, did: rustc_hir::def_id::DefId) -> bool {
    let parent = tcx.parent(did);
    match tcx.def_kind(parent) {
        DefKind::Trait => tcx.defaultness(did).has_value(),
        DefKind::Impl { of_trait } => !of_trait || tcx.defaultness(did).has_value(),
        _ => true,
    }
}

fn main() {
    let mut args: Vec<String> = std::env::args().collect();
    // RUSTC_WORKSPACE_WRAPPER: argv[1] is the path of the real rustc
    if args.len() > 1 && (args[1].ends_with("rustc") || args[1].contains("/rustc")) {
        args.remove(1);
    }
    let mut cb = Cb;
    rustc_driver::run_compiler(&args, &mut cb);
}
