#!/usr/bin/env python3
"""tools/run_fn.py <def path> — analyse one function stand-alone with symbolic args; print outcomes + obligations."""
import sys, os
sys.path.insert(0, os.path.dirname(os.path.dirname(os.path.abspath(__file__))))
from engine import build
from engine.facts import Facts
from engine.interp import Engine
fp, th, info = build.get_facts("all")
F = Facts(fp)
eng = Engine(F)
path = sys.argv[1]
body = F.body(path)
args = eng.symbolic_args(body)
outs = eng.call_path(path, args)
for st, rv in outs:
    print("KEY", st.key)
    print("  RET", rv)
    print("  FACTS", sorted(map(repr, st.facts))[:20])
for k, o in sorted(eng.obligations.items()):
    print(o.status, k, "| need:", o.need, "| facts:", o.facts[:6] if o.status == "open" else o.reason)
print("unknown callees:", dict(eng.unknown_callees))
print("steps", eng.steps)
