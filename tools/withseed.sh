#!/bin/bash
# tools/withseed.sh <seed-name> <property> : run one check against a scratch copy of /repo with the seeded patch applied
set -e
V=$(cd "$(dirname "$0")/.." && pwd)
D=$(mktemp -d -p $V/.work seedx-XXXX)
trap 'rm -rf $D' EXIT
rsync -a --exclude target --exclude .git /repo/ $D/
(cd $D && patch -p1 -F3 --no-backup-if-mismatch -s -i $V/seeded/$1/patch.diff)
cp $V/evidence/$2.json $D/.ev.keep 2>/dev/null || true
cd $V && VERIF_REPO=$D VERIF_SELFTEST=1 VERIF_EVIDENCE_DIR=$D/.ev ./check $2 || true
cp $D/.ev.keep $V/evidence/$2.json 2>/dev/null || true
