#!/usr/bin/env python3
"""Generates /verif/MANIFEST.json from the table below (single source of truth)."""
import json
import os

VERIF = os.path.dirname(os.path.dirname(os.path.abspath(__file__)))
ALL = ["C%02d" % i for i in range(1, 20)]

# property -> dict(level, text, note, technique, design_ref)
CLAIMS = {}
NOT_YET = {}


def claim(pid, category, text, note, technique, design_ref):
    CLAIMS[pid] = dict(category=category, text=text, note=note, technique=technique, design_ref=design_ref)


exec(open(os.path.join(VERIF, "tools", "claims.py")).read())

checks = []
for pid in ALL:
    if pid not in CLAIMS:
        continue
    c = CLAIMS[pid]
    checks.append({
        "property_id": pid,
        "quick_cmd": "./check %s" % pid,
        "thorough_cmd": "./check %s --thorough" % pid,
        "evidence_file": "/verif/evidence/%s.json" % pid,
        "replay_cmd_template": "./check %s --explain {path}" % pid,
        "engine": "mirdump+rules",
        "level_claimed": {"category": c["category"], "text": c["text"], "design_ref": c["design_ref"]},
        "level_note": c["note"],
        "technique": c["technique"],
    })
na = [{"property_id": pid, "reason": NOT_YET[pid]} for pid in ALL if pid not in CLAIMS]
m = {
    "version": 1,
    "setup_cmd": "./setup.sh",
    "hooks": {
        "guard": "dlt_core_verif",
        "enable": "none needed: the analysis reads the unmodified source (no instrumentation commits); the guard name is reserved",
        "baseline_off_cmd": "cd /repo && cargo test --workspace --no-fail-fast --offline",
        "source_commits": [],
        "add_only": True,
    },
    "engines": [
        {"name": "mirdump", "path": "driver/", "serves_properties": sorted(CLAIMS), "kind_free_text": "rustc_private driver (nightly) run as RUSTC_WORKSPACE_WRAPPER under cargo check: dumps MIR (mir_promoted stage), ADT/const/impl tables of the current tree"},
        {"name": "rules", "path": "rules/ engine/", "serves_properties": sorted(CLAIMS), "kind_free_text": "Python rule layer + abstract interpreter over the dumped MIR: call-graph, CFG/loop, constant, table, dataflow and panic-obligation rules specific to dlt-core"},
    ],
    "checks": checks,
    "not_applicable": na,
    "notes": "Technique family: static analysis only. Every check copies /repo's working tree to /verif/.work/src, type-checks it with the real cargo flags through the mirdump driver and decides the property's structural clauses from the resulting facts; nothing of dlt-core is executed. Genuine defects found are repaired by 'fix:' commits in /repo and recorded in known_findings.json.",
}
with open(os.path.join(VERIF, "MANIFEST.json"), "w") as f:
    json.dump(m, f, indent=1)
print("MANIFEST.json: %d checks, %d not_applicable" % (len(checks), len(na)))
