#!/usr/bin/env python3
"""tools/import_seeds.py <out-dir> <first-index> <round> <base-commit> [ids...]: import verified sub-agent candidates
(<out-dir>/Cxx/cand{1,2}/{patch.diff,demo.rs,notes.md,verify.txt}) as seeded/Cxx-<k>/ with meta.json.  Refuses a
candidate whose verify.txt (written by seeded/verify.sh run by me) does not show: demo passes on the clean tree, suite
green with the change, all-features build ok, demo fails with the change."""
import json, os, shutil, sys
V = os.path.join(os.path.dirname(os.path.dirname(os.path.abspath(__file__))), "seeded")
out, first, rnd, base = sys.argv[1], int(sys.argv[2]), sys.argv[3], sys.argv[4]
ids = sys.argv[5:] or ["C%02d" % i for i in range(1, 20)]
for P in ids:
    for k, c in ((first, "cand1"), (first + 1, "cand2")):
        src = os.path.join(out, P, c)
        vt = os.path.join(src, "verify.txt")
        if not os.path.isfile(vt):
            print("skip (not verified)", src)
            continue
        raw = open(vt).read().split("\n")
        d = dict(l.split("=", 1) for l in raw if "=" in l and not l.startswith("test result"))
        ok = d.get("demo_clean_rc") == "0" and d.get("suite_rc") == "0" and d.get("build_all_rc") == "0" and d.get("demo_patched_rc") not in (None, "0")
        if not ok:
            print("REFUSED", src, d)
            continue
        dst = os.path.join(V, "%s-%d" % (P, k))
        os.makedirs(dst, exist_ok=True)
        for f in ("patch.diff", "demo.rs", "notes.md"):
            shutil.copy(os.path.join(src, f), os.path.join(dst, f))
        feat = {"C08": "--features stream ", "C10": "--features statistics ", "C11": "--features fibex ", "C12": "--features fibex "}.get(P, "")
        meta = {"property": P, "origin": "independent sub-agent (round %s) given only the property text and a scratch worktree of /repo at %s" % (rnd, base),
                "needs_to_manifest": "see notes.md (written by the sub-agent)", "demo_placement": "tests/demo_verify.rs",
                "demo_cmd": "cargo test --offline %s--test demo_verify" % feat,
                "confirmed_by_me": {"script": "seeded/verify.sh (run over scratch worktrees under /tmp/wt)", "demo_on_clean_tree_rc": int(d["demo_clean_rc"]),
                                    "suite_with_patch": [l for l in raw if l.startswith("test result")][0].split("test result: ok. ")[1].split(";")[0],
                                    "build_all_features_with_patch_rc": int(d["build_all_rc"]), "demo_with_patch_rc": int(d["demo_patched_rc"]), "raw": raw},
                "base_commit": base}
        json.dump(meta, open(os.path.join(dst, "meta.json"), "w"), indent=1)
        print("imported", dst)
