# Executed by gen_manifest.py.  One claim() per property that has an armed check;
# everything else must be in NOT_YET with the honest reason.
TB = " Trusted: rustc MIR construction, the mirdump driver, the rule code, library contracts (std, nom, quick-xml, bytes, byteorder, memchr, futures) and the spec tables; see DESIGN §2.2."
STRUCT = "Decides structural necessary conditions only, not the runtime behaviour as a whole: "

claim("C01", "other",
      STRUCT + "WIRE — the abstract interpreter runs the writers with the byte order abstract and returns each output buffer as an ordered segment sequence; for all 46 well-formed argument shapes (kind x width x variable info x fixed point x offset width), the 4 payload kinds, the storage / standard (8 presence patterns) / extended header and the 8 message shapes the sequence equals the DLT layout: field order, widths, byte-order class, source field and length-prefix arithmetic (prefix = bytes emitted incl. NUL, raw without); ORD-1 — byte-order discipline of all ~127 numeric primitive references on both sides; CONS/ORDER/HINT (shared with C04/C05) — every Ok exit of the parser returns input[A+L..], requires the whole declared message to be present, hints never exceed the shortfall: nothing behind the message influences the result.",
      "Not decided: the parser-side field-by-field layout (only its consumption, byte-order discipline and suffix contract are decided), equality of field values through nom/byteorder/String (library semantics), the round-trip equality itself." + TB,
      "abstract interpretation of the writers into symbolic segment sequences compared with spec layouts; linear consumption identities on parser exits; type-resolved byte-order classification", "DESIGN §4 C01")
claim("C02", "other",
      STRUCT + "WIRE — the same writer layouts compared with the layout table transcribed from the DLT PRS (independent of the crate's parser, so an error made consistently on both sides is still reported): storage header 'DLT\\x01' + LE seconds + LE microseconds + 4-byte id; HTYP, MCNT, BE LEN, ECU id, BE session id, BE timestamp in that order; MSIN, NOAR, APID, CTID; per-kind argument layouts; CONST-1 — all 39+ layout constants and width discriminants equal the spec values; ORD-1 — header fields big-endian, storage header little-endian, payload in message order (parser side included).",
      "Not decided: verdict equivalence with a reference decoder over all byte strings; the accepted dialect (covered structurally by C14/C19 only)." + TB,
      "symbolic segment sequences of the writers vs spec layout table + compiler-evaluated constants vs spec table + ORD-1", "DESIGN §4 C02")
claim("C03", "proof",
      "PANIC: every panic-capable site (MIR Assert terminators for overflow / bounds / division, range indexing, split_at, byteorder reads, debug_assert, deny-listed callees) reachable from dlt_message (both storage modes, any filter), dlt_consume_msg, skip_storage_header, forward_to_next_storage_header, dlt_zero_terminated_string and construct_arguments is discharged for unconstrained inputs by abstract interpretation: dlt_message_intern in context (partitioned on storage mode, find outcome, header-type and message-info flag bits), the argument parser dlt_argument modularly under the nom suffix contract, which is verified on its own exits (NOMC). WRITER: Message::{as_bytes,byte_len} and Argument::{len,valid,as_bytes,is_empty} are discharged under the interface invariant I(Message) (string/raw lengths <= 65534, overall_length fits u16); IMSG: the guarantee side of I(Message) is verified for parser results (containers of a returned Argument are bounded by its input, dlt_argument only runs inside the declared payload, overall_length() of the parsed header discharged in context).",
      "Not decided: panics inside dependencies (nom, memchr, bytes, log, format!), allocation failure. 'Each argument passes the validity check' is not decided. I(Message) for hand-built messages is an assumption, not a guarantee." + TB,
      "abstract interpretation over MIR (linear byte accounting, trace partitioning on header flag bits, assume/guarantee cut at dlt_argument) enumerating and discharging every Assert / precondition site", "DESIGN §4 C03")
claim("C04", "proof",
      "CONS: on each of the 576 Ok exit partitions of dlt_message_intern (storage mode x find outcome x 5 header-type bits x verbose bit x result kind) the returned remainder is input[A+L..] with A the start of the standard header (0, or first pattern + 16) and L the big-endian u16 length field at A+2, as a linear identity derived from the nom contracts; FilteredOut(n) carries n = L - (4 + 4*WEID + 4*WSID + 4*WTMS + 10*UEH); A+L >= 4 (strict suffix, progress); dlt_consume_msg returns input[16+L..] and reports 16+L, 'None' only on empty input. FLOW: the filter argument reaches only filtered_out.",
      "Not decided: library parsers are trusted to honour the nom contract." + TB,
      "abstract interpretation: (base, offset, length) slices with linear offsets, exits compared with the declared-length identity per partition", "DESIGN §4 C04")
claim("C05", "other",
      STRUCT + "ORDER — every Ok exit of dlt_message_intern / dlt_consume_msg entails len(input) >= A + L (a message, filtered or invalid marker is never returned unless the whole declared message is present); HINT — every Incomplete(Size(n)) exit whose hint is a linear expression entails n <= (smallest possible end of a well-formed message consistent with the bytes read) - len(input), n >= 1 by NonZeroUsize; ERR — every hard-error exit reachable while the declared message is not completely present is justified by a tag mismatch or the header-length consistency check (value checks a well-formed message passes); CALL-S — every nom primitive reachable from the two entry points is a streaming one (one allow-listed complete::be_u8 behind the length verdict).",
      "Not decided: hints joined from several nom primitives inside the header parsers (trusted to nom; counted in the evidence), value-dependent hard errors inside the available bytes." + TB,
      "abstract interpretation of the parser exits (linear facts per partition) + call-graph reachability over resolved callees", "DESIGN §4 C05")
claim("C06", "other",
      STRUCT + "the storage-header pattern constant is 'DLT\\x01', the finder is built from exactly that constant and searched with memmem::Finder::find (first occurrence).",
      "Not decided: memchr's search correctness." + TB,
      "evaluated constant + call-site argument provenance", "DESIGN §4 C06")
claim("C07", "proof",
      "INV: the reader built by `new` owns a scratch buffer of constant length K >= 16 + 65535 and next_message_slice preserves that length; PANIC: under INV every Assert / index / debug_assert site of next_message_slice is discharged for an arbitrary buffer content (the length field is an unconstrained u16) in both storage modes; ALG: read 1 fills [0,s+4), the length is the big-endian u16 at offset s+2, read 2 fills [s+4,s+L), the returned slice is [0,s+L) — as linear identities, s in {0,16} selected by with_storage_header; DISP: Ok(non-empty) is reachable only through the success outcome of both read_exact calls, failure of read 1 gives Ok(empty), failure of read 2 gives Err; CALL-R: the source is read only through Read::read_exact on the BufReader.",
      "Not decided: std BufReader/read_exact semantics (trusted: fills the whole slice or fails, retries Interrupted) — this is what absorbs fragmentation schedules; equality of the parsed messages with slice parsing follows from ALG + read_message passing the slice and flag to dlt_message (C03/C04), argued not mechanised." + TB,
      "abstract interpretation of next_message_slice under an inductive struct invariant (linear slice ranges, outcome partitioning of read_exact) + who-may-call rule", "DESIGN §4 C07")
claim("C08", "proof",
      "The same INV / PANIC / ALG / DISP / CALL-R rules on the pre-transform coroutine body of stream::next_message_slice (a Yield is a no-op on locals), and SIB: the abstract summary of the async reader — per exit: storage flag, outcome of each read, filled ranges, result variant, returned range, error kind, buffer capacity — equals the blocking reader's.",
      "Not decided: interleavings of Poll::Pending (delegated to futures' ReadExact, trusted to resume where it stopped), cancel safety (disclaimed by the crate)." + TB,
      "abstract interpretation of coroutine MIR + sibling-summary equality with the blocking reader", "DESIGN §4 C08")
claim("C10", "other",
      STRUCT + "LOOP-1 — every iteration of the scan loop calls next_message_slice exactly once and collect_statistic exactly once (min = max = 1 over all header-to-latch paths), never outside the loop.",
      "Not decided: hash-map semantics, order independence of merging." + TB,
      "path counting over the loop's acyclic body", "DESIGN §4 C10")
claim("C12", "proof",
      "Every natural loop reachable from gather_fibex_data is classified: driven by a finite std/quick-xml iterator whose None arm leaves, or an XML event pump whose end-of-input arm leaves the loop (LOOP-E); no recursion; no deny-listed panicking callee is reachable; every Assert/index obligation of the module (attr_opt's subtractions and indexings, the line/column counters) is discharged by guard facts. Termination and refusal-not-panic are visible in code shape on every path, so a per-loop/per-site proof obligation covers every file content.",
      "Not decided: progress and internal panics of quick-xml (trusted library), allocation failure." + TB,
      "MIR natural-loop classification (LOOP-E) + call-graph deny-list", "DESIGN §4 C12")
claim("C13", "other",
      STRUCT + "ORD-1 (paired) — each of the 16 order-specific decoders and both read_u16 calls in construct_arguments is control dependent on the matching `endianness == Big` outcome; TypeLength/FloatWidth discriminants equal the bit widths the code divides by 8.",
      "Not decided: numeric decoding inside nom." + TB,
      "control-dependence (dominators) of type-resolved call sites", "DESIGN §4 C13")
claim("C14", "other",
      STRUCT + "CONST — every flag/code constant equals the spec bit layout; ORD-1 — the type-info word goes through T::write_u32 / T::parse_u32.",
      "Not decided yet: the bit-level decode/encode tables (engine layer)." + TB,
      "compiler-evaluated constants vs spec table", "DESIGN §4 C14")

claim("C15", "other",
      STRUCT + "WIRE-L — Argument::len() equals the number of bytes Argument::as_bytes::<T>() emits, as a linear identity over name/unit/value lengths for each of the 46 well-formed shapes (byte order abstract, so both orders); TAB-N — Message::new records payload_length = length of the payload serialised in the order chosen by conf.endianness, has_extended_header <=> extended header built, verbose flag and argument count per payload kind as the parser requires them (verbose for Verbose and NetworkTrace, NOAR from the number of arguments / slices); LEN — overall_length() = payload_length + 4 + 4*[ecu] + 4*[session] + 4*[timestamp] + 10*[extended] on all 16 presence patterns and byte_len() forwards to it; STORAGE — add_storage_header sets only the storage header (timestamp argument, header ECU id or 'ECU'); VALID — the validity table of Bool/Float32/Float64 kinds.",
      "Not decided: 'parses back to an equal message' beyond these structural conditions; the wall-clock branch of add_storage_header(None)." + TB,
      "abstract interpretation: symbolic lengths and segment sequences per shape partition; decision tables per enum variant", "DESIGN §4 C15")
claim("C17", "proof",
      "TERM + PANIC: the abstract interpreter computes seconds and microseconds as linear terms over (x div D) and (x mod D) and proves seconds*10^6 + microseconds = U*x and microseconds <= 999999 from x = D*(x div D) + (x mod D), for every x with whole seconds below 2^32; every overflow / division obligation of both constructors is discharged by interval arithmetic. The functions are straight-line arithmetic, so the term identity covers all inputs.",
      "Axioms: MIR integer semantics of the dev profile (checked arithmetic)." + TB,
      "abstract interpretation: linear terms with quotient/remainder symbols + interval discharge of Assert terminators", "DESIGN §4 C17")
claim("C18", "proof",
      "TAB: on every partition (kind x fixed_point presence x value variant x offset variant) to_real_value returns Some exactly when the kind is a fixed-point kind, fixed-point data is present and the value is an 8..64-bit integer; PANIC: no panic-capable site remains reachable in to_real_value/log_v/value_as_f64 for an arbitrary argument; TERM: the result term is trunc_u64(f64(value)*f64(quantization)) combined with sext64(offset) by a wrapping addition, which equals the stated sum whenever it lies in 0..2^63.",
      "Not decided: IEEE rounding of the product (float semantics not modelled; the term shape is compared, not values)." + TB,
      "abstract interpretation with trace partitioning on enum discriminants; symbolic float/int conversion terms", "DESIGN §4 C18")
claim("C19", "proof",
      "CONS: on every Ok exit of the extraction the remainder starts exactly `size` bytes after the field start and the text is the take_while(0,size,byte!=0) content or its valid_up_to prefix, as linear identities over (base, offset, length) slices; HINT: every Err exit is Incomplete, only when fewer than `size` bytes are available, with 1 <= needed <= shortfall; from_utf8_unchecked only on the validated prefix; PANIC obligations discharged; the four id fields use size 4.",
      "Trusted: nom's take_while_m_n / take streaming contracts, std from_utf8 (valid_up_to = longest valid prefix)." + TB,
      "abstract interpretation over slices with linear byte accounting + nom combinator contracts", "DESIGN §4 C19")

for _p in ["C09","C11","C16"]:
    NOT_YET[_p] = "check not armed yet in this build round (needs the abstract-interpretation layer, DESIGN §7 steps 3-5); no verdict is claimed until the rule runs"
