# Executed by gen_manifest.py.  One claim() per property that has an armed check;
# everything else must be in NOT_YET with the honest reason.
TB = "Trusted: rustc MIR construction, the mirdump driver, the rule code, library contracts (std, nom, quick-xml, bytes, byteorder, memchr, futures) and the spec tables; see DESIGN §2.2."

claim("C12", "proof",
      "Every natural loop reachable from gather_fibex_data is classified: driven by a finite std/quick-xml iterator whose None arm leaves, or an XML event pump whose end-of-input arm leaves the loop (LOOP-E); no recursion; no deny-listed panicking callee is reachable. Termination and refusal-not-panic are visible in code shape on every path, so a per-loop/per-site proof obligation covers every file content.",
      "Not decided: progress and internal panics of quick-xml (trusted library), allocation failure. " + TB,
      "MIR natural-loop classification (LOOP-E) + call-graph deny-list", "DESIGN §4 C12")

for _p in ["C01","C02","C03","C04","C05","C06","C07","C08","C09","C10","C11","C13","C14","C15","C16","C17","C18","C19"]:
    NOT_YET[_p] = "check not armed yet in this build round (rules are being built in the order of DESIGN §7); no verdict is claimed until the rule runs"
