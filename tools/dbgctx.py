"""tools/dbgctx.py — build a rule context for ad-hoc debugging scripts: `from tools.dbgctx import ctx_for`."""
import os, sys
VERIF = os.path.dirname(os.path.dirname(os.path.abspath(__file__)))
sys.path.insert(0, VERIF)
from engine import build
from engine.cfg import CallGraph
from engine.facts import Facts
from engine.report import Report


class Ctx:
    def __init__(self, prop, tier, facts, th):
        self.prop, self.tier, self.facts, self.tree_hash = prop, tier, facts, th
        self._cg = None
        self.report = None

    @property
    def cg(self):
        if self._cg is None:
            self._cg = CallGraph(self.facts)
        return self._cg

    def other_config(self, config):
        p, th, info = build.get_facts(config)
        return Facts(p)


def ctx_for(prop, config="all"):
    fp, th, info = build.get_facts(config)
    c = Ctx(prop, "quick", Facts(fp), th)
    c.report = Report(prop, "quick", "other")
    return c
