#!/bin/bash
# tools/withseed_py.sh <seed-name> <script.py> [args]: run a python script with VERIF_REPO pointing at a patched scratch copy
set -e
V=$(cd "$(dirname "$0")/.." && pwd)
D=$(mktemp -d -p $V/.work seedx-XXXX)
trap 'rm -rf $D' EXIT
rsync -a --exclude target --exclude .git /repo/ $D/
(cd $D && patch -p1 -F3 --no-backup-if-mismatch -s -i $V/seeded/$1/patch.diff)
S=$2; shift; shift
cd $V && VERIF_REPO=$D VERIF_SELFTEST=1 python3 $S "$@"
