#!/usr/bin/env python3
"""Validate MANIFEST.json and all evidence files against the given schemas (uses the tooling venv's jsonschema)."""
import glob, json, sys
import jsonschema
ok = True
m = json.load(open('/verif/MANIFEST.json'))
jsonschema.validate(m, json.load(open('/root/.vp/MANIFEST.schema.json')))
es = json.load(open('/root/.vp/EVIDENCE.schema.json'))
for c in m['checks']:
    try:
        ev = json.load(open(c['evidence_file']))
        jsonschema.validate(ev, es)
        if ev['level'] != c['level_claimed']['category']:
            raise ValueError("evidence level %r differs from MANIFEST level_claimed.category %r" % (ev['level'], c['level_claimed']['category']))
    except Exception as e:
        ok = False
        print('BAD', c['evidence_file'], str(e)[:300])
ids = {c['property_id'] for c in m['checks']} | {n['property_id'] for n in m.get('not_applicable', [])}
want = {json.loads(l)['id'] for l in open('/verif/properties.jsonl')}
if ids != want:
    ok = False
    print('property coverage mismatch', sorted(want - ids), sorted(ids - want))
print('valid' if ok else 'INVALID')
sys.exit(0 if ok else 1)
