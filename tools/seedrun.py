#!/usr/bin/env python3
"""tools/seedrun.py [--only <substr>] [--props C01,C02|all|own] [-j N]

Runs the registered checks against every seeded change under /verif/seeded/<name>/patch.diff.
Each patch is applied to a scratch copy of /repo under /verif/.work (never /repo itself; the checks
read the copy through VERIF_REPO), the checks are run, the copy is removed.  Prints one line per
seeded change: which properties' checks raised a violation.  Writes seeded/RESULTS.json.

  --props own   only the check of the property the change was written for (default)
  --props all   every check registered in MANIFEST.json (cross-detection)
"""
import json, os, shutil, subprocess, sys, tempfile

VERIF = os.path.dirname(os.path.dirname(os.path.abspath(__file__)))
REPO = "/repo"


def claimed():
    m = json.load(open(os.path.join(VERIF, "MANIFEST.json")))
    return [c["property_id"] for c in m["checks"]]


def run_one(name, props):
    work = os.path.join(VERIF, ".work")
    os.makedirs(work, exist_ok=True)
    d = tempfile.mkdtemp(prefix="seed-", dir=work)
    res = {"name": name, "flagged": [], "silent": [], "keys": {}}
    try:
        subprocess.check_call(["rsync", "-a", "--exclude", "target", "--exclude", ".git", REPO + "/", d + "/"])
        patch = os.path.join(VERIF, "seeded", name, "patch.diff")
        r = subprocess.run(["patch", "-p1", "-F3", "--no-backup-if-mismatch", "-i", patch], cwd=d, stdout=subprocess.PIPE, stderr=subprocess.STDOUT, text=True)
        if r.returncode != 0:
            res["error"] = "patch does not apply: " + r.stdout[-400:]
            return res
        env = dict(os.environ, VERIF_REPO=d, VERIF_SELFTEST="1", VERIF_EVIDENCE_DIR=os.path.join(d, ".ev"))
        for prop in props:
            r = subprocess.run([os.path.join(VERIF, "check"), prop], env=env, stdout=subprocess.PIPE, stderr=subprocess.STDOUT, text=True, cwd=VERIF)
            if "facts extraction failed" in r.stdout:
                res["error"] = "does not compile: " + r.stdout[-600:]
                return res
            if r.returncode == 1:
                res["flagged"].append(prop)
                res["keys"][prop] = [l.strip()[5:] for l in r.stdout.splitlines() if l.strip().startswith("key: ")][:6]
            elif r.returncode == 0:
                res["silent"].append(prop)
            else:
                res.setdefault("other", []).append((prop, r.returncode))
        return res
    finally:
        shutil.rmtree(d, ignore_errors=True)


def main():
    args = sys.argv[1:]
    names = sorted(n for n in os.listdir(os.path.join(VERIF, "seeded")) if os.path.isfile(os.path.join(VERIF, "seeded", n, "patch.diff")))
    if "--only" in args:
        pat = args[args.index("--only") + 1]
        names = [n for n in names if pat in n]
    mode = args[args.index("--props") + 1] if "--props" in args else "own"
    cl = claimed()
    ev = os.path.join(VERIF, "evidence")
    os.makedirs(os.path.join(VERIF, ".work"), exist_ok=True)
    keep = tempfile.mkdtemp(prefix="evkeep-", dir=os.path.join(VERIF, ".work"))
    for f in os.listdir(ev):
        if f.endswith(".json"):
            shutil.copy2(os.path.join(ev, f), keep)
    results = {}
    rp = os.path.join(VERIF, "seeded", "RESULTS.json")
    if os.path.isfile(rp):
        results = json.load(open(rp))
    jobs = int(args[args.index("-j") + 1]) if "-j" in args else 1
    from concurrent.futures import ThreadPoolExecutor
    import threading
    lock = threading.Lock()

    def one(n):
        with lock:
            pass
        return _one(n)

    def _one(n):
        if True:
            meta = json.load(open(os.path.join(VERIF, "seeded", n, "meta.json")))
            own = meta["property"]
            if meta.get("expect") == "silent" and meta.get("props"):
                props = [p for p in meta["props"] if p in cl]
                r = run_one(n, props)
                r["own"] = own
                r["expect"] = "silent"
                r["own_claimed"] = True
                r["caught_by_own"] = False
                r["false_alarm"] = bool(r["flagged"])
                with lock:
                    results[n] = r
                    print("%-14s NEUTRAL %-10s flagged=%s%s" % (n, "FALSE-ALARM" if r["flagged"] else "silent-ok", ",".join(r["flagged"]) or "-", ("  ERROR " + r["error"][:200]) if r.get("error") else ""))
                    for pk, ks in r["keys"].items():
                        for k in ks[:3]:
                            print("      %s" % k[:220])
                    sys.stdout.flush()
                return
            if mode == "own":
                props = [own] if own in cl else []
            elif mode == "all":
                props = cl
            else:
                props = [p for p in mode.split(",") if p in cl]
            r = run_one(n, props)
            r["own"] = own
            r["own_claimed"] = own in cl
            r["caught_by_own"] = own in r["flagged"]
            with lock:
                results[n] = r
                print("%-8s own=%s %-7s flagged=%s%s" % (n, own, "CAUGHT" if r["caught_by_own"] else ("missed" if own in cl else "n/a"), ",".join(r["flagged"]) or "-", ("  ERROR " + r["error"][:200]) if r.get("error") else ""))
                sys.stdout.flush()

    try:
        with ThreadPoolExecutor(max_workers=jobs) as ex:
            list(ex.map(one, names))
    finally:
        for f in os.listdir(keep):
            shutil.copy2(os.path.join(keep, f), ev)
        shutil.rmtree(keep, ignore_errors=True)
        vd = os.path.join(ev, "violations")
        if os.path.isdir(vd):
            shutil.rmtree(vd, ignore_errors=True)
    json.dump(results, open(rp, "w"), indent=1, sort_keys=True)
    c = sum(1 for r in results.values() if r["caught_by_own"])
    print("%d seeded change(s): %d caught by their own property's check" % (len(results), c))


if __name__ == "__main__":
    main()
