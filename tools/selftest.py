#!/usr/bin/env python3
"""tools/selftest.py [--only <id-substring>] [--prop Cxx] [-j N]

Validates the checker both ways on scratch copies of /repo (never /repo itself):
every entry of selftest/mutations.json is a textual edit (file, old, new) with an
expectation: 'violation' (a seeded break the named property's check must flag with
exit 1) or 'silent' (a behaviour-preserving variant that must not change the verdict).
Scratch copies live under /verif/.work/mut-* and are removed after each run.
"""
import json, os, shutil, subprocess, sys, tempfile
from concurrent.futures import ThreadPoolExecutor

VERIF = os.path.dirname(os.path.dirname(os.path.abspath(__file__)))
REPO = "/repo"


def run_one(m):
    work = os.path.join(VERIF, ".work")
    os.makedirs(work, exist_ok=True)
    d = tempfile.mkdtemp(prefix="mut-", dir=work)
    try:
        subprocess.check_call(["rsync", "-a", "--exclude", "target", "--exclude", ".git", REPO + "/", d + "/"])
        for e in m["edits"]:
            p = os.path.join(d, e["file"])
            s = open(p).read()
            n = s.count(e["old"])
            if n != e.get("count", 1):
                return m, "STALE", "pattern occurs %d times in %s (expected %d)" % (n, e["file"], e.get("count", 1))
            s = s.replace(e["old"], e["new"])
            open(p, "w").write(s)
        env = dict(os.environ, VERIF_REPO=d, VERIF_SELFTEST="1", VERIF_EVIDENCE_DIR=os.path.join(d, ".ev"))
        out = ""
        verdicts = []
        for prop in m["props"]:
            r = subprocess.run([os.path.join(VERIF, "check"), prop], env=env, stdout=subprocess.PIPE, stderr=subprocess.STDOUT, text=True, cwd=VERIF)
            out += r.stdout
            verdicts.append((prop, r.returncode))
        exp = m["expect"]
        if "facts extraction failed" in out:
            return m, "NOCOMPILE", out[-800:]
        if exp == "violation":
            ok = all(rc == 1 for _, rc in verdicts)
            if ok and m.get("must_mention"):
                ok = m["must_mention"] in out
        else:
            ok = all(rc == 0 for _, rc in verdicts)
        return m, ("PASS" if ok else "FAIL"), out[-1500:] if not ok else ""
    finally:
        shutil.rmtree(d, ignore_errors=True)


def main():
    ms = json.load(open(os.path.join(VERIF, "selftest", "mutations.json")))
    args = sys.argv[1:]
    if "--only" in args:
        pat = args[args.index("--only") + 1]
        ms = [m for m in ms if pat in m["id"]]
    if "--prop" in args:
        pr = args[args.index("--prop") + 1]
        ms = [m for m in ms if pr in m["props"]]
    # evidence files are rewritten by the checks: keep the committed ones
    ev = os.path.join(VERIF, "evidence")
    keep = tempfile.mkdtemp(prefix="evkeep-", dir=os.path.join(VERIF, ".work"))
    for f in os.listdir(ev):
        if f.endswith(".json"):
            shutil.copy2(os.path.join(ev, f), keep)
    bad = 0
    try:
        for m in ms:  # sequential: the facts scratch dir is shared (locked)
            m, verdict, detail = run_one(m)
            print("%-9s %-40s expect=%-9s props=%s" % (verdict, m["id"], m["expect"], ",".join(m["props"])))
            if verdict != "PASS":
                bad += 1
                print("    " + detail.replace("\n", "\n    "))
    finally:
        for f in os.listdir(keep):
            shutil.copy2(os.path.join(keep, f), ev)
        shutil.rmtree(keep, ignore_errors=True)
    print("%d mutation(s), %d not as expected" % (len(ms), bad))
    return 1 if bad else 0


if __name__ == "__main__":
    sys.exit(main())
