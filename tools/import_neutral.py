#!/usr/bin/env python3
"""tools/import_neutral.py <dir with <area>/ref<k>/patch.diff> : store behaviour-preserving refactorings written by
independent sub-agents under /verif/seeded/N-<area>-<k>/ (expect: silent) with the checks relevant to the touched files."""
import json, os, re, shutil, sys
VERIF = os.path.dirname(os.path.dirname(os.path.abspath(__file__)))
FILE_PROPS = {
    "src/parse.rs": ["C01", "C02", "C03", "C04", "C05", "C06", "C09", "C13", "C14", "C16", "C19"],
    "src/dlt.rs": ["C01", "C02", "C03", "C09", "C14", "C15", "C16", "C17", "C18"],
    "src/read.rs": ["C07", "C08", "C10"], "src/stream.rs": ["C07", "C08"],
    "src/statistics.rs": ["C10"], "src/filtering.rs": ["C09"], "src/fibex/mod.rs": ["C11", "C12"],
}
src = sys.argv[1]
for area in sorted(os.listdir(src)):
    d = os.path.join(src, area)
    if not os.path.isdir(d):
        continue
    for ref in sorted(os.listdir(d)):
        pd = os.path.join(d, ref, "patch.diff")
        if not os.path.isfile(pd):
            continue
        files = sorted(set(re.findall(r"^\+\+\+ b/(\S+)", open(pd).read(), re.M)))
        props = sorted({p for f in files for p in FILE_PROPS.get(f, [])})
        out = os.path.join(VERIF, "seeded", "N-%s-%s" % (area, ref[-1]))
        os.makedirs(out, exist_ok=True)
        shutil.copy(pd, out)
        if os.path.isfile(os.path.join(d, ref, "notes.md")):
            shutil.copy(os.path.join(d, ref, "notes.md"), out)
        json.dump({"property": "-", "expect": "silent", "props": props, "files": files,
                   "origin": "independent sub-agent asked for behaviour-preserving refactorings (prompt: seeded/NEUTRAL_PROMPT.txt); it ran cargo test --offline (54) and --all-features (63) with the change",
                   "base_commit": "f14b7cd"}, open(os.path.join(out, "meta.json"), "w"), indent=1)
        print(out, props)
