#!/bin/bash
# tools/neutralquick.sh <seed-name>: run every check listed in the seed's meta.json against the patched scratch copy; print alarms only
V=$(cd "$(dirname "$0")/.." && pwd)
N=$1
D=$(mktemp -d -p $V/.work seedq-XXXX)
trap 'rm -rf $D' EXIT
rsync -a --exclude target --exclude .git /repo/ $D/
(cd $D && patch -p1 -F3 --no-backup-if-mismatch -s -i $V/seeded/$N/patch.diff) || { echo "$N PATCH-FAILED"; exit 0; }
props=$(python3 -c "import json;print(' '.join(json.load(open('$V/seeded/$N/meta.json'))['props']))")
out=""
for p in $props; do
  r=$(cd $V && VERIF_REPO=$D VERIF_SELFTEST=1 VERIF_EVIDENCE_DIR=$D/.ev ./check $p 2>&1)
  if echo "$r" | grep -q "^VIOLATION\|CHECKER-ERROR\|facts extraction failed"; then out="$out $p"; echo "$r" | grep "key: " | head -3 | sed "s/^/    [$N $p]/"; fi
done
echo "$N alarms:${out:- none}"
