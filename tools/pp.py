#!/usr/bin/env python3
"""tools/pp.py <def path substring> [...] — pretty-print MIR bodies from the facts of the current tree."""
import sys, os
sys.path.insert(0, os.path.dirname(os.path.dirname(os.path.abspath(__file__))))
from engine import build
from engine.facts import Facts
fp, th, info = build.get_facts("all")
F = Facts(fp)
for pat in sys.argv[1:]:
    exact = [p for p in F.bodies if p == pat]
    for p in (exact or [p for p in F.bodies if pat in p]):
        print(F.pp_body(F.bodies[p]))
        for i, pb in enumerate(F.bodies[p].get("promoted", [])):
            pb = dict(pb); pb["path"] = p + "::promoted[%d]" % i; pb["kind"] = "promoted"
            print(F.pp_body(pb))
        print()
