#!/usr/bin/env python3
"""Regenerates the table of DESIGN.md §5.1 (between the BEGIN/END markers) from seeded/RESULTS.json."""
import json, os, re
V = os.path.dirname(os.path.dirname(os.path.abspath(__file__)))
r = json.load(open(os.path.join(V, "seeded", "RESULTS.json")))


def first_line(name):
    p = os.path.join(V, "seeded", name, "notes.md")
    if not os.path.isfile(p):
        return ""
    for l in open(p).read().splitlines():
        l = l.strip(" #*-`")
        if len(l) > 25 and not l.lower().startswith(("candidate", "notes", "seeded", "cand", "c0", "c1")):
            return re.sub(r"\|", "/", l)[:110]
    return ""


rows = ["| change | what it does | verdict of the property's own check | rule(s) that report it |", "|---|---|---|---|"]
nb = nc = 0
for name in sorted(r):
    if name.startswith("N-"):
        continue
    e = r[name]
    meta = json.load(open(os.path.join(V, "seeded", name, "meta.json")))
    nb += 1
    rules = []
    for p, ks in e.get("keys", {}).items():
        for k in ks:
            parts = k.split("|")
            if len(parts) > 1 and parts[1] not in rules:
                rules.append(parts[1])
    if e.get("caught_by_own"):
        nc += 1
        verdict = "caught"
    elif meta.get("expect") == "silent":
        verdict = "silent (behaviour-neutral since fix 5bed018)"
    else:
        verdict = "**missed**"
    rows.append("| %s | %s | %s | %s |" % (name, first_line(name), verdict, ", ".join(rules[:4])))
neutral = [n for n in sorted(r) if n.startswith("N-")]
alarms = [n for n in neutral if r[n].get("flagged")]
tail = ["", "%d property-breaking changes, %d reported by the check of the property they were written for." % (nb, nc), "",
        "Behaviour-preserving refactorings: %d, of which %d raise an alarm: %s." % (len(neutral), len(alarms), ", ".join("%s (%s)" % (n, ",".join(r[n]["flagged"])) for n in alarms) or "none")]
block = "\n".join(rows + tail)
d = open(os.path.join(V, "DESIGN.md")).read()
a, b = "<!-- BEGIN seeded table -->", "<!-- END seeded table -->"
if a in d and b in d:
    d = d[:d.index(a) + len(a)] + "\n" + block + "\n" + d[d.index(b):]
    open(os.path.join(V, "DESIGN.md"), "w").write(d)
    print("DESIGN.md §5.1 table updated: %d rows" % nb)
else:
    print("markers not found")
